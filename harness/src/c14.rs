//! C14 — `Acyclic<DiGraph>` / `Acyclic<StableDiGraph>`: histories of every public mutating call with a
//! full dump (inner graph as a `graph` view line in CONCRETE indices + `lab=` node labels, order,
//! positions, at_position, range, is_valid_edge of every ordered pair) after every call.
//!
//! Node weight = label (unique, never reused); edge weight = unique counter for edges added by ops.
//! Calls with an absent endpoint run on a clone that is dropped (a documented panic may leave the
//! object in an unspecified state); everything else runs on the object itself, including
//! `Build::update_edge` whose cycle rejection is a panic.
use crate::common::*;
use crate::graphs::*;
use crate::rng::Rng;
use petgraph::acyclic::{Acyclic, AcyclicEdgeError, TopologicalPosition};
use petgraph::data::{Build, Create};
use petgraph::graph::{DiGraph, EdgeIndex, IndexType, NodeIndex};
use petgraph::stable_graph::StableDiGraph;
use petgraph::visit::{EdgeRef, IntoEdgeReferences, NodeIndexable};
use petgraph::{Directed, Direction};
use std::convert::TryFrom;
use std::ops::Bound;

fn pv(p: TopologicalPosition) -> usize {
    // TopologicalPosition is #[repr(transparent)] over usize; its field is not public
    unsafe { std::mem::transmute::<TopologicalPosition, usize>(p) }
}
fn mkpos(k: usize) -> TopologicalPosition {
    unsafe { std::mem::transmute::<usize, TopologicalPosition>(k) }
}

fn show_err<Ix: IndexType>(e: AcyclicEdgeError<NodeIndex<Ix>>) -> String {
    match e {
        AcyclicEdgeError::Cycle(c) => format!("err cycle {}", c.node_id().index()),
        AcyclicEdgeError::SelfLoop => "err selfloop".into(),
        AcyclicEdgeError::InvalidEdge => "err invalid".into(),
    }
}

fn bound_str(b: &Bound<TopologicalPosition>) -> String {
    match b {
        Bound::Included(p) => format!("i{}", pv(*p)),
        Bound::Excluded(p) => format!("e{}", pv(*p)),
        Bound::Unbounded => "u".into(),
    }
}

fn gen_bound(rng: &mut Rng, hi: usize) -> Bound<TopologicalPosition> {
    match rng.below(5) {
        0 => Bound::Unbounded,
        1 | 2 => Bound::Included(mkpos(rng.below(hi + 1))),
        _ => Bound::Excluded(mkpos(rng.below(hi + 1))),
    }
}

macro_rules! vertical {
    ($run:ident, $view:ident, $dump:ident, $G:ident, $stable:expr, $mk:ident, $free:ident) => {
        /// the inner graph as a `graph` line, all ids concrete; `lab=` maps index -> node weight
        fn $view<Ix: IndexType>(g: &$G<usize, i64, Ix>) -> String {
            let nodes: Vec<NodeIndex<Ix>> = g.node_indices().collect();
            let mut out = Vec::new();
            let mut inn = Vec::new();
            for &n in &nodes {
                let o: Vec<String> = g.edges_directed(n, Direction::Outgoing).map(|e| format!("{}/{}", e.target().index(), e.id().index())).collect();
                out.push(format!("{}:{}", n.index(), if o.is_empty() { "-".into() } else { o.join(",") }));
                let i: Vec<String> = g.edges_directed(n, Direction::Incoming).map(|e| format!("{}/{}", e.source().index(), e.id().index())).collect();
                inn.push(format!("{}:{}", n.index(), if i.is_empty() { "-".into() } else { i.join(",") }));
            }
            let edges: Vec<String> = g.edge_references().map(|e| format!("{}:{}:{}:{}", e.id().index(), e.source().index(), e.target().index(), e.weight())).collect();
            format!(
                "graph d=1 nb={} nodes={} ix={} edges={} out={} in={} lab={} nc={} ec={}",
                g.node_bound(),
                list(nodes.iter().map(|n| n.index())),
                list(nodes.iter().map(|n| format!("{}:{}", n.index(), n.index()))),
                if edges.is_empty() { "-".into() } else { edges.join(";") },
                if out.is_empty() { "-".into() } else { out.join(";") },
                if inn.is_empty() { "-".into() } else { inn.join(";") },
                list(nodes.iter().map(|&n| format!("{}:{}", n.index(), g[n]))),
                g.node_count(),
                g.edge_count(),
            )
        }

        fn $dump<Ix: IndexType>(ctx: &mut Ctx, rng: &mut Rng, acy: &Acyclic<$G<usize, i64, Ix>>) {
            let line = $view(acy.inner());
            ctx.line(&line, "ok");
            let live: Vec<NodeIndex<Ix>> = acy.inner().node_indices().collect();
            let nb = acy.inner().node_bound();
            ctx.line("order", &list(acy.nodes_iter().map(|n| n.index())));
            let mut maxpos = 0usize;
            let pos: Vec<String> = live.iter().map(|&n| match catch(|| acy.get_position(n)) {
                Some(p) => { maxpos = maxpos.max(pv(p)); format!("{}:{}", n.index(), pv(p)) }
                None => format!("{}:p", n.index()),
            }).collect();
            ctx.line("pos", &list(pos));
            // get_position of absent indices (stale entries / the documented panic)
            let probes: Vec<usize> = (0..nb + 3).filter(|i| !live.iter().any(|n| n.index() == *i)).collect();
            if !probes.is_empty() {
                let ans: Vec<String> = probes.iter().map(|&i| match catch(|| acy.get_position(NodeIndex::new(i))) {
                    Some(p) => pv(p).to_string(),
                    None => "p".into(),
                }).collect();
                ctx.line(&format!("gpx {}", list(probes.iter())), &list(ans));
            }
            let hi = maxpos + 2;
            let at: Vec<String> = (0..=hi).map(|k| match acy.at_position(mkpos(k)) {
                Some(n) => n.index().to_string(),
                None => "x".into(),
            }).collect();
            ctx.line(&format!("at 0 {}", hi), &list(at));
            ctx.line("range u u", &list(acy.range(..).map(|n| n.index())));
            for _ in 0..3 {
                let lo = gen_bound(rng, hi);
                let hb = gen_bound(rng, hi);
                // an inverted range panics inside BTreeMap::range only when the map has a root
                let inverted = match (&lo, &hb) {
                    (Bound::Included(a) | Bound::Excluded(a), Bound::Included(b) | Bound::Excluded(b)) => pv(*a) > pv(*b) || (pv(*a) == pv(*b) && matches!(lo, Bound::Excluded(_)) && matches!(hb, Bound::Excluded(_))),
                    _ => false,
                };
                if inverted && live.is_empty() {
                    continue;
                }
                let r = catch(|| acy.range((lo, hb)).map(|n| n.index()).collect::<Vec<_>>());
                ctx.line(&format!("range {} {}", bound_str(&lo), bound_str(&hb)), &match r { Some(v) => list(v), None => "panic".into() });
            }
            let mut valid = Vec::new();
            for &a in &live {
                for &b in &live {
                    let r = catch(|| acy.is_valid_edge(a, b));
                    valid.push(format!("{}:{}:{}", a.index(), b.index(), match r { Some(true) => "1", Some(false) => "0", None => "p" }));
                }
            }
            ctx.line("valid", &list(valid));
        }

        fn $run<Ix: IndexType>(ctx: &mut Ctx, rng: &mut Rng, case: u64, ixname: &str) {
            type G<Ix> = $G<usize, i64, Ix>;
            let stable: bool = $stable;
            ctx.raw(&format!("case {} kind={} ix={}", case, if stable { "s" } else { "g" }, ixname));
            let max_live = if ctx.tier_thorough { 13 } else { 9 };
            let mut next_label: usize;
            let mut next_w: i64 = 1000;
            // ---------------------------------------------------------------- construction
            let mut acy: Acyclic<G<Ix>>;
            let mut attempts = 0;
            loop {
                let choice = if attempts >= 3 { 0 } else { rng.weighted(&[22, 8, 70]) };
                attempts += 1;
                match choice {
                    0 => {
                        acy = Acyclic::new();
                        next_label = 0;
                        ctx.line("new", "ok");
                        break;
                    }
                    1 => {
                        let (n, e) = (rng.below(6), rng.below(6));
                        acy = <Acyclic<G<Ix>> as Create>::with_capacity(n, e);
                        next_label = 0;
                        ctx.line(&format!("withcap {} {}", n, e), "ok");
                        break;
                    }
                    _ => {
                        // mostly acyclic families, some cyclic / with self-loops / parallel edges
                        let fam = *rng.pick(&[4usize, 4, 4, 14, 14, 3, 3, 9, 13, 6, 7, 7, 0, 1, 2, 8, 10, 11, 5, 15, 12]);
                        let o = if rng.chance(30) { GenOpts::multi(max_live, 1, 9) } else { GenOpts::simple(max_live) };
                        let mut ag = gen_family(rng, true, fam, o);
                        if ag.edges.len() > 40 {
                            ag.edges.truncate(40);
                        }
                        if rng.chance(25) {
                            // orient every edge along a hidden order: dense DAGs from cyclic families
                            let p = random_perm(rng, ag.n);
                            for e in ag.edges.iter_mut() {
                                if p[e.0] > p[e.1] {
                                    *e = (e.1, e.0, e.2);
                                }
                            }
                            if !o.loops {
                                ag.edges.retain(|e| e.0 != e.1);
                            }
                        }
                        let no = random_perm(rng, ag.n);
                        let eo = random_perm(rng, ag.edges.len());
                        let g: G<Ix> = $mk::<Ix>(rng, &ag, &no, &eo);
                        ctx.line(&$view(&g), "ok");
                        let via = if rng.chance(50) { "tfg" } else { "tf" };
                        // what the graph line cannot show of a StableGraph: the order of its free lists
                        let from_req = format!("from {}{}", via, $free(&g));
                        let r = catch(move || if via == "tfg" { Acyclic::try_from_graph(g) } else { Acyclic::try_from(g) });
                        let r = match r {
                            Some(r) => r,
                            None => {
                                ctx.line(&from_req, "panic");
                                continue;
                            }
                        };
                        match r {
                            Ok(a) => {
                                ctx.line(&from_req, "ok");
                                acy = a;
                                next_label = ag.n;
                                break;
                            }
                            Err(c) => {
                                ctx.line(&from_req, &format!("err cycle {}", c.node_id().index()));
                            }
                        }
                    }
                }
            }
            $dump(ctx, rng, &acy);
            // ---------------------------------------------------------------- history
            let nops = if ctx.tier_thorough { 10 + rng.below(60) } else { 6 + rng.below(34) };
            let mut removed: Vec<usize> = Vec::new();
            for _ in 0..nops {
                let live: Vec<NodeIndex<Ix>> = acy.inner().node_indices().collect();
                let nb = acy.inner().node_bound();
                let l = live.len();
                let ec = acy.inner().edge_count();
                let w_add = if l >= max_live { 0 } else if l < 4 { 40 } else { 16 };
                let w_edge = if l >= 2 { if ec >= 60 { 5 } else { 50 } } else { 6 };
                let w_re = if ec > 0 { 9 } else { 2 };
                let w_rn = if l > 0 { 8 } else { 3 };
                let op = rng.weighted(&[w_add, w_edge, w_re, w_rn, 2]);
                match op {
                    0 => {
                        let lab = next_label;
                        next_label += 1;
                        let n = <Acyclic<G<Ix>> as Build>::add_node(&mut acy, lab);
                        ctx.line(&format!("add_node {}", lab), &n.index().to_string());
                    }
                    1 => {
                        // endpoints
                        let absent = |rng: &mut Rng| -> usize {
                            if !removed.is_empty() && rng.chance(50) { *rng.pick(&removed) } else { nb + rng.below(3) }
                        };
                        let posof = |n: NodeIndex<Ix>| pv(acy.get_position(n));
                        let (a, b): (usize, usize) = if l == 0 {
                            (absent(rng), absent(rng))
                        } else {
                            match rng.weighted(&[34, 16, 8, 12, 30]) {
                                0 if l >= 2 => {
                                    // against the current order: forces a reorder or is a cycle
                                    let x = *rng.pick(&live);
                                    let y = *rng.pick(&live);
                                    if posof(x) > posof(y) { (x.index(), y.index()) } else { (y.index(), x.index()) }
                                }
                                1 if ec > 0 => {
                                    // close a cycle: reverse of an existing edge, or of a two-step path
                                    let es: Vec<(NodeIndex<Ix>, NodeIndex<Ix>)> = acy.inner().edge_references().map(|e| (e.source(), e.target())).collect();
                                    let (u, v) = *rng.pick(&es);
                                    let nxt: Vec<NodeIndex<Ix>> = acy.inner().neighbors(v).collect();
                                    if !nxt.is_empty() && rng.chance(50) { (rng.pick(&nxt).index(), u.index()) } else { (v.index(), u.index()) }
                                }
                                2 => {
                                    let x = rng.pick(&live).index();
                                    (x, x)
                                }
                                3 => {
                                    let x = rng.pick(&live).index();
                                    match rng.below(4) {
                                        0 => (absent(rng), x),
                                        1 => (x, absent(rng)),
                                        2 => { let y = absent(rng); (y, y) }
                                        _ => (absent(rng), absent(rng)),
                                    }
                                }
                                _ => {
                                    let x = rng.pick(&live).index();
                                    let mut y = rng.pick(&live).index();
                                    if y == x && rng.chance(85) {
                                        y = rng.pick(&live).index();
                                    }
                                    (x, y)
                                }
                            }
                        };
                        let w = next_w;
                        next_w += 1;
                        let is_live = |i: usize| live.iter().any(|n| n.index() == i);
                        let both = is_live(a) && is_live(b);
                        let (na, nbx) = (NodeIndex::<Ix>::new(a), NodeIndex::<Ix>::new(b));
                        let variant = rng.weighted(&[45, 25, 15, 15]);
                        let name = ["try_add_edge", "try_update_edge", "add_edge", "update_edge"][variant];
                        let mut scratch;
                        let target: &mut Acyclic<G<Ix>> = if both { &mut acy } else { scratch = acy.clone(); &mut scratch };
                        let ans = match variant {
                            0 => catch(|| target.try_add_edge(na, nbx, w)).map(|r| match r { Ok(e) => format!("ok {}", e.index()), Err(e) => show_err(e) }),
                            1 => catch(|| target.try_update_edge(na, nbx, w)).map(|r| match r { Ok(e) => format!("ok {}", e.index()), Err(e) => show_err(e) }),
                            2 => catch(|| <Acyclic<G<Ix>> as Build>::add_edge(target, na, nbx, w)).map(|r| match r { Some(e) => format!("some {}", e.index()), None => "none".into() }),
                            _ => catch(|| <Acyclic<G<Ix>> as Build>::update_edge(target, na, nbx, w)).map(|e| format!("ok {}", e.index())),
                        };
                        ctx.line(&format!("{} {} {} {}", name, a, b, w), &ans.unwrap_or_else(|| "panic".into()));
                    }
                    2 => {
                        let ids: Vec<usize> = acy.inner().edge_references().map(|e| e.id().index()).collect();
                        let e = if ids.is_empty() || rng.chance(15) {
                            let eb = ids.iter().max().map(|m| m + 1).unwrap_or(0);
                            // an absent id: beyond the bound, or (stable) a vacant one below it
                            let vac: Vec<usize> = (0..eb).filter(|i| !ids.contains(i)).collect();
                            if !vac.is_empty() && rng.chance(60) { *rng.pick(&vac) } else { eb + rng.below(3) }
                        } else {
                            *rng.pick(&ids)
                        };
                        let r = catch(|| acy.remove_edge(EdgeIndex::new(e)));
                        ctx.line(&format!("remove_edge {}", e), &match r { Some(Some(w)) => format!("some {}", w), Some(None) => "none".into(), None => "panic".into() });
                    }
                    3 => {
                        let n = if l == 0 || rng.chance(22) {
                            if !removed.is_empty() && rng.chance(55) { *rng.pick(&removed) } else { nb + rng.below(3) }
                        } else if !stable && l >= 2 && rng.chance(70) {
                            // a non-last node of a DiGraph: the last node is renumbered
                            live[rng.below(l - 1)].index()
                        } else {
                            rng.pick(&live).index()
                        };
                        let r = catch(|| acy.remove_node(NodeIndex::new(n)));
                        if matches!(r, Some(Some(_))) {
                            removed.push(n);
                            if !stable {
                                // indices at and beyond the new bound are absent now
                                removed.push(nb - 1);
                            }
                        }
                        ctx.line(&format!("remove_node {}", n), &match r { Some(Some(w)) => format!("some {}", w), Some(None) => "none".into(), None => "panic".into() });
                        // a second removal of the same index right away, sometimes
                        if rng.chance(25) {
                            $dump(ctx, rng, &acy);
                            let r = catch(|| acy.remove_node(NodeIndex::new(n)));
                            ctx.line(&format!("remove_node {}", n), &match r { Some(Some(w)) => format!("some {}", w), Some(None) => "none".into(), None => "panic".into() });
                        }
                    }
                    _ => {
                        acy = acy.clone();
                        ctx.line("clone", "ok");
                    }
                }
                $dump(ctx, rng, &acy);
            }
        }
    };
}

fn mk_graph<Ix: IndexType>(_rng: &mut Rng, ag: &AG, no: &[usize], eo: &[usize]) -> DiGraph<usize, i64, Ix> {
    enc_graph::<Directed, Ix>(ag, no, eo).g
}
fn mk_stable<Ix: IndexType>(rng: &mut Rng, ag: &AG, no: &[usize], eo: &[usize]) -> StableDiGraph<usize, i64, Ix> {
    let holes = rng.chance(70);
    enc_stable::<Directed, Ix>(rng, ag, no, eo, holes).g
}

fn free_graph<Ix: IndexType>(_g: &DiGraph<usize, i64, Ix>) -> String {
    String::new()
}

/// The free lists of a StableGraph, observed through the public API on a clone: `add_node` / `add_edge`
/// hand out the vacant slots in free-list order and then fresh slots `len, len + 1, …`.  Reported as
/// ` fn=<free node slots> fe=<free edge slots> nl=<node slots> el=<edge slots>` (a trailing run of
/// vacant slots that is reused in ascending order is indistinguishable from fresh slots, and
/// behaves the same).
fn free_stable<Ix: IndexType>(g: &StableDiGraph<usize, i64, Ix>) -> String {
    fn split(seq: &[usize], bound: usize) -> (Vec<usize>, usize) {
        // the first k such that seq[k..] is consecutive, above everything before it and >= bound
        for k in 0..seq.len() {
            let tail_ok = seq[k..].windows(2).all(|w| w[1] == w[0] + 1);
            let above = seq[..k].iter().all(|&x| x < seq[k]);
            if tail_ok && above && seq[k] >= bound {
                return (seq[..k].to_vec(), seq[k]);
            }
        }
        (seq.to_vec(), usize::MAX)
    }
    let mut c = g.clone();
    let nb = g.node_bound();
    let eb = g.edge_indices().map(|e| e.index() + 1).max().unwrap_or(0);
    let vac_n = 64usize;
    let nseq: Vec<usize> = (0..vac_n).map(|_| c.add_node(usize::MAX).index()).collect();
    let x = NodeIndex::<Ix>::new(nseq[0]);
    let eseq: Vec<usize> = (0..vac_n).map(|_| c.add_edge(x, x, 0).index()).collect();
    let (fnl, nl) = split(&nseq, nb);
    let (fel, el) = split(&eseq, eb);
    format!(" fn={} fe={} nl={} el={}", list(fnl.iter()), list(fel.iter()), nl, el)
}

vertical!(run_g, view_g, dump_g, DiGraph, false, mk_graph, free_graph);
vertical!(run_s, view_s, dump_s, StableDiGraph, true, mk_stable, free_stable);

pub fn run(ctx: &mut Ctx, case: u64) {
    let mut rng = Rng::for_case(ctx.seed, "C14", case);
    let stable = rng.chance(50);
    let w8 = rng.chance(35);
    match (stable, w8) {
        (false, false) => run_g::<u32>(ctx, &mut rng, case, "u32"),
        (false, true) => run_g::<u8>(ctx, &mut rng, case, "u8"),
        (true, false) => run_s::<u32>(ctx, &mut rng, case, "u32"),
        (true, true) => run_s::<u8>(ctx, &mut rng, case, "u8"),
    }
}
