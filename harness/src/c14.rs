//! C14 — `Acyclic<DiGraph>` / `Acyclic<StableDiGraph>`: histories of every public mutating call with a
//! full dump (inner graph as a `graph` view line in CONCRETE indices + `lab=` node labels, order,
//! positions, at_position, range, is_valid_edge of every ordered pair) after every call.
//!
//! Node weight = label (unique, never reused); edge weight = unique counter for edges added by ops.
//! Calls with an absent endpoint run on a clone that is dropped (a documented panic may leave the
//! object in an unspecified state); so do insertions into an inner graph that is full (`… full`: the
//! inner graph's `add_edge` panics at the index limit, after `Acyclic` has already reordered); everything
//! else runs on the object itself, including `Build::update_edge` whose cycle rejection is a panic.
//!
//! Wave 6 (corners):
//! * two objects per case: `snap` (other = clone), `swap` (mem::swap), `clonefrom in|out` (`clone_from` onto
//!   an arbitrary prior value), `take` (`mem::take`: a `Default` object in the middle of a history) — the
//!   driver keeps the mirror state of both, so "clone, then mutate both" is judged like everything else;
//! * `law <name> => ok | VIOLATED <why>` lines: the rest of the public surface (iterator laws of
//!   `nodes_iter` / `range` and of every pass-through iterator, the pass-through traits against `inner()`,
//!   `Clone`/`clone_from`/`Default`/`Debug`/`into_inner`/`Deref`, `DataMapMut`, petgraph's own algorithms,
//!   walkers and adaptors on `&Acyclic<G>` against the same on `inner()`), judged in the harness against
//!   the implementation itself; the driver expects `ok`;
//! * corner inputs: empty / single-node / all-vacant graphs handed to `try_from_graph`, StableGraphs with
//!   several trailing vacancies in every free-list order, index widths u8 / u16 / u32 / usize, inner graphs
//!   at the edge limit of u8 (`fam=ecap`) and at the node limit of u8 (`fam=ncap`, reduced dump),
//!   large `with_capacity`, `is_valid_edge` with absent endpoints (`validx`, on a clone, exact only).
use crate::common::*;
use crate::graphs::*;
use crate::rng::Rng;
use petgraph::acyclic::{Acyclic, AcyclicEdgeError, TopologicalPosition};
use petgraph::algo::{is_cyclic_directed, toposort, DfsSpace};
use petgraph::data::{Build, Create, DataMap, DataMapMut};
use petgraph::graph::{DiGraph, EdgeIndex, IndexType, NodeIndex};
use petgraph::stable_graph::StableDiGraph;
use petgraph::visit::{
    depth_first_search, Bfs, Control, Dfs, DfsEvent, DfsPostOrder, EdgeCount, EdgeFiltered, EdgeIndexable, EdgeRef, GetAdjacencyMatrix, GraphProp,
    IntoEdgeReferences, IntoEdges, IntoEdgesDirected, IntoNeighbors, IntoNeighborsDirected, IntoNodeIdentifiers, IntoNodeReferences, NodeCount,
    NodeFiltered, NodeIndexable, Reversed, Topo, VisitMap, Visitable,
};
use petgraph::{Directed, Direction};
use std::convert::TryFrom;
use std::fmt::Debug;
use std::ops::Bound;

fn pv(p: TopologicalPosition) -> usize {
    // TopologicalPosition is #[repr(transparent)] over usize; its field is not public
    unsafe { std::mem::transmute::<TopologicalPosition, usize>(p) }
}
fn mkpos(k: usize) -> TopologicalPosition {
    unsafe { std::mem::transmute::<usize, TopologicalPosition>(k) }
}

fn show_err<Ix: IndexType>(e: AcyclicEdgeError<NodeIndex<Ix>>) -> String {
    match e {
        AcyclicEdgeError::Cycle(c) => format!("err cycle {}", c.node_id().index()),
        AcyclicEdgeError::SelfLoop => "err selfloop".into(),
        AcyclicEdgeError::InvalidEdge => "err invalid".into(),
    }
}

fn bound_str(b: &Bound<TopologicalPosition>) -> String {
    match b {
        Bound::Included(p) => format!("i{}", pv(*p)),
        Bound::Excluded(p) => format!("e{}", pv(*p)),
        Bound::Unbounded => "u".into(),
    }
}

fn gen_bound(rng: &mut Rng, hi: usize) -> Bound<TopologicalPosition> {
    match rng.below(5) {
        0 => Bound::Unbounded,
        1 | 2 => Bound::Included(mkpos(rng.below(hi + 1))),
        _ => Bound::Excluded(mkpos(rng.below(hi + 1))),
    }
}

/// does `BTreeMap::range` panic on these bounds (when the map has a root)?
fn inverted(lo: &Bound<TopologicalPosition>, hb: &Bound<TopologicalPosition>) -> bool {
    match (lo, hb) {
        (Bound::Included(a) | Bound::Excluded(a), Bound::Included(b) | Bound::Excluded(b)) => {
            pv(*a) > pv(*b) || (pv(*a) == pv(*b) && matches!(lo, Bound::Excluded(_)) && matches!(hb, Bound::Excluded(_)))
        }
        _ => false,
    }
}

// ------------------------------------------------------------------------------------------------
// iterator laws over a FACTORY (`nodes_iter` / `range` are `impl Iterator`, not `Clone`): the same laws as
// `crate::iterlaws` with `mk()` in place of `it.clone()`

fn positions(len: usize) -> Vec<usize> {
    let mut v = vec![0, 1, 2, len / 2, len.saturating_sub(1), len, len + 1];
    v.sort();
    v.dedup();
    v
}

fn laws_it<I, F>(mk: F) -> Option<String>
where
    F: Fn() -> I,
    I: Iterator,
    I::Item: PartialEq + Debug,
{
    let v: Vec<I::Item> = mk().collect();
    let n = v.len();
    let (lo, hi) = mk().size_hint();
    if lo > n {
        return Some(format!("size_hint lower bound {} but {} items are yielded", lo, n));
    }
    if let Some(h) = hi {
        if h < n {
            return Some(format!("size_hint upper bound {} but {} items are yielded", h, n));
        }
    }
    if mk().collect::<Vec<_>>() != v {
        return Some("two iterations yield different sequences".to_string());
    }
    let c = mk().count();
    if c != n {
        return Some(format!("count() = {} but {} items are yielded", c, n));
    }
    if mk().last() != mk().collect::<Vec<_>>().pop() {
        return Some("last() is not the last item yielded".to_string());
    }
    for k in positions(n) {
        let mut a = mk();
        let got = a.nth(k);
        let mut b = mk();
        let mut want = None;
        for _ in 0..=k {
            want = b.next();
            if want.is_none() {
                break;
            }
        }
        if got != want {
            return Some(format!("nth({}) = {:?}, stepping with next gives {:?}", k, got, want));
        }
        let ra: Vec<I::Item> = a.collect();
        let rb: Vec<I::Item> = b.collect();
        if ra != rb {
            return Some(format!("after nth({}) the remaining items are {:?}, after {} x next they are {:?}", k, ra, k + 1, rb));
        }
        let mut m = mk();
        for _ in 0..k.min(n) {
            m.next();
        }
        let rest = n - k.min(n);
        let (lo, hi) = m.size_hint();
        if lo > rest || hi.map_or(false, |h| h < rest) {
            return Some(format!("after {} items size_hint = ({}, {:?}) but {} items remain", k.min(n), lo, hi, rest));
        }
        let s: Vec<I::Item> = mk().skip(k).collect();
        if s.len() != rest || s[..] != v[k.min(n)..] {
            return Some(format!("skip({}) yields {:?}, expected the last {} items of {:?}", k, s, rest, v));
        }
    }
    for step in [2usize, 3] {
        let s: Vec<I::Item> = mk().step_by(step).collect();
        let w: Vec<I::Item> = mk().enumerate().filter(|(i, _)| i % step == 0).map(|(_, x)| x).collect();
        if s != w {
            return Some(format!("step_by({}) yields {:?}, every {}th item is {:?}", step, s, step, w));
        }
    }
    let f = mk().fold(0usize, |acc, _| acc + 1);
    if f != n {
        return Some(format!("fold visits {} items, next visits {}", f, n));
    }
    let mut e = mk();
    for _ in 0..n {
        e.next();
    }
    if e.next().is_some() || e.next().is_some() {
        return Some("an item is yielded after the sequence ended".to_string());
    }
    None
}

fn laws_de<I, F>(mk: F) -> Option<String>
where
    F: Fn() -> I,
    I: DoubleEndedIterator,
    I::Item: PartialEq + Debug,
{
    if let Some(e) = laws_it(&mk) {
        return Some(e);
    }
    let v: Vec<I::Item> = mk().collect();
    let n = v.len();
    let mut r: Vec<I::Item> = mk().rev().collect();
    r.reverse();
    if r != v {
        return Some(format!("rev() yields (reversed back) {:?}, forward iteration yields {:?}", r, v));
    }
    for k in positions(n) {
        let mut a = mk();
        let got = a.nth_back(k);
        let mut b = mk();
        let mut want = None;
        for _ in 0..=k {
            want = b.next_back();
            if want.is_none() {
                break;
            }
        }
        if got != want {
            return Some(format!("nth_back({}) = {:?}, stepping with next_back gives {:?}", k, got, want));
        }
        let ra: Vec<I::Item> = a.collect();
        let rb: Vec<I::Item> = b.collect();
        if ra != rb {
            return Some(format!("after nth_back({}) the remaining items are {:?}, after {} x next_back they are {:?}", k, ra, k + 1, rb));
        }
        let mut m = mk();
        let mut front: Vec<I::Item> = Vec::new();
        for _ in 0..k.min(n) {
            if let Some(x) = m.next() {
                front.push(x);
            }
        }
        let mut back: Vec<I::Item> = Vec::new();
        while let Some(x) = m.next_back() {
            back.push(x);
        }
        back.reverse();
        front.extend(back);
        if front != v {
            return Some(format!("{} x next then next_back to the end yields {:?}, the sequence is {:?}", k.min(n), front, v));
        }
    }
    let rf = mk().rfold(0usize, |acc, _| acc + 1);
    if rf != n {
        return Some(format!("rfold visits {} items, next visits {}", rf, n));
    }
    None
}

fn laws_exact<I, F>(mk: F) -> Option<String>
where
    F: Fn() -> I,
    I: ExactSizeIterator,
    I::Item: PartialEq + Debug,
{
    let n = mk().count();
    let mut m = mk();
    for k in 0..=n {
        if m.len() != n - k {
            return Some(format!("len() = {} after {} of {} items", m.len(), k, n));
        }
        let (lo, hi) = m.size_hint();
        if lo != n - k || hi != Some(n - k) {
            return Some(format!("size_hint = ({}, {:?}) after {} of {} items of an ExactSizeIterator", lo, hi, k, n));
        }
        m.next();
    }
    None
}

fn verdict_of(r: Option<String>) -> String {
    match r {
        None => "ok".to_string(),
        Some(e) => format!("VIOLATED {}", e.replace('\n', " ").replace(" => ", " -> ")),
    }
}

/// first failing law of a list of `(what, result)`
fn first_bad(rs: Vec<(String, Option<String>)>) -> Option<String> {
    rs.into_iter().find_map(|(w, r)| r.map(|e| format!("{}: {}", w, e)))
}

fn same<T: PartialEq + Debug>(what: &str, a: T, b: T) -> Option<String> {
    if a == b {
        None
    } else {
        Some(format!("{}: {:?} through Acyclic, {:?} through inner()", what, a, b))
    }
}

// ------------------------------------------------------------------------------------------------
// petgraph's own walkers / visitors on a graph view: a signature string, compared between `&Acyclic<G>`
// (and adaptors over it) and `inner()` (and the same adaptors over it)

fn walk_sig<G>(g: G, starts: &[G::NodeId]) -> String
where
    G: IntoNeighbors + Visitable + Copy,
    G::NodeId: Copy + Debug + PartialEq,
{
    let mut out = String::new();
    // one walker re-used through reset + move_to (it was made by `empty`), and fresh ones
    let mut reused = Dfs::empty(g);
    let mut reused_po = DfsPostOrder::empty(g);
    for &s in starts {
        let mut d = Dfs::new(g, s);
        out.push_str("D");
        while let Some(n) = d.next(g) {
            out.push_str(&format!("{:?};", n));
        }
        reused.reset(g);
        reused.move_to(s);
        out.push_str("d");
        while let Some(n) = reused.next(g) {
            out.push_str(&format!("{:?};", n));
        }
        let mut b = Bfs::new(g, s);
        out.push_str("B");
        while let Some(n) = b.next(g) {
            out.push_str(&format!("{:?};", n));
        }
        let mut p = DfsPostOrder::new(g, s);
        out.push_str("P");
        while let Some(n) = p.next(g) {
            out.push_str(&format!("{:?};", n));
        }
        reused_po.reset(g);
        reused_po.move_to(s);
        out.push_str("p");
        while let Some(n) = reused_po.next(g) {
            out.push_str(&format!("{:?};", n));
        }
    }
    out
}

/// `depth_first_search` with the four visitor return types; `k` = the event at which the visitor breaks / fails
fn dfs_sig<G>(g: G, starts: &[G::NodeId], k: usize) -> String
where
    G: IntoNeighbors + Visitable + Copy,
    G::NodeId: Copy + Debug + PartialEq,
{
    let mut out = String::new();
    let prunable = |e: &DfsEvent<G::NodeId>| !matches!(e, DfsEvent::Finish(..));
    // ()
    depth_first_search(g, starts.iter().copied(), |e| {
        out.push_str(&format!("{:?};", e));
    });
    out.push('|');
    // Control<usize>
    let mut c = 0usize;
    let r: Control<usize> = depth_first_search(g, starts.iter().copied(), |e| {
        c += 1;
        out.push_str(&format!("{:?};", e));
        if c == k {
            Control::Break(c)
        } else if c % 3 == 0 && prunable(&e) {
            Control::Prune
        } else {
            Control::Continue
        }
    });
    out.push_str(&format!("={:?}|", r.break_value()));
    // Result<Control<usize>, String>
    let mut c = 0usize;
    let r: Result<Control<usize>, String> = depth_first_search(g, starts.iter().copied(), |e| {
        c += 1;
        out.push_str(&format!("{:?};", e));
        if c == k {
            Err(format!("E{}", c))
        } else if c == 2 * k {
            Ok(Control::Break(c))
        } else if c % 4 == 0 && prunable(&e) {
            Ok(Control::Prune)
        } else {
            Ok(Control::Continue)
        }
    });
    out.push_str(&format!("={:?}|", r.map(|c| c.break_value())));
    // Result<(), String>
    let mut c = 0usize;
    let r: Result<(), String> = depth_first_search(g, starts.iter().copied(), |e| {
        c += 1;
        out.push_str(&format!("{:?};", e));
        if c == k + 1 {
            Err(format!("E{}", c))
        } else {
            Ok(())
        }
    });
    out.push_str(&format!("={:?}", r));
    out
}

fn topo_walk<G>(g: G) -> Vec<G::NodeId>
where
    G: IntoNeighborsDirected + IntoNodeIdentifiers + Visitable + Copy,
    G::NodeId: Copy,
{
    let mut t = Topo::new(g);
    let mut v = Vec::new();
    while let Some(n) = t.next(g) {
        v.push(n);
    }
    v
}

/// is `order` (concrete indices) a topological order of `edges` over exactly `nodes`?
fn topo_ok(order: &[usize], nodes: &[usize], edges: &[(usize, usize)]) -> Option<String> {
    let mut o = order.to_vec();
    o.sort();
    let mut n = nodes.to_vec();
    n.sort();
    if o != n {
        return Some(format!("lists {:?}, the live nodes are {:?}", order, nodes));
    }
    let at = |x: usize| order.iter().position(|&y| y == x).unwrap();
    for &(a, b) in edges {
        if at(a) >= at(b) {
            return Some(format!("edge {}->{} goes backwards in {:?}", a, b, order));
        }
    }
    None
}

#[derive(Clone, Copy, PartialEq)]
enum Fam {
    Normal,
    ECap,
    NCap,
}

macro_rules! vertical {
    ($run:ident, $view:ident, $dump:ident, $obs:ident, $laws:ident, $G:ident, $stable:expr, $mk:ident, $free:ident, $exact:ident) => {
        /// the inner graph as a `graph` line, all ids concrete; `lab=` maps index -> node weight
        fn $view<Ix: IndexType>(g: &$G<usize, i64, Ix>) -> String {
            let nodes: Vec<NodeIndex<Ix>> = g.node_indices().collect();
            let mut out = Vec::new();
            let mut inn = Vec::new();
            for &n in &nodes {
                let o: Vec<String> = g.edges_directed(n, Direction::Outgoing).map(|e| format!("{}/{}", e.target().index(), e.id().index())).collect();
                out.push(format!("{}:{}", n.index(), if o.is_empty() { "-".into() } else { o.join(",") }));
                let i: Vec<String> = g.edges_directed(n, Direction::Incoming).map(|e| format!("{}/{}", e.source().index(), e.id().index())).collect();
                inn.push(format!("{}:{}", n.index(), if i.is_empty() { "-".into() } else { i.join(",") }));
            }
            let edges: Vec<String> = g.edge_references().map(|e| format!("{}:{}:{}:{}", e.id().index(), e.source().index(), e.target().index(), e.weight())).collect();
            format!(
                "graph d=1 nb={} nodes={} ix={} edges={} out={} in={} lab={} nc={} ec={}",
                g.node_bound(),
                list(nodes.iter().map(|n| n.index())),
                list(nodes.iter().map(|n| format!("{}:{}", n.index(), n.index()))),
                if edges.is_empty() { "-".into() } else { edges.join(";") },
                if out.is_empty() { "-".into() } else { out.join(";") },
                if inn.is_empty() { "-".into() } else { inn.join(";") },
                list(nodes.iter().map(|&n| format!("{}:{}", n.index(), g[n]))),
                g.node_count(),
                g.edge_count(),
            )
        }

        /// everything observable of an `Acyclic` (harness-side comparisons of two objects); `pairs` = false
        /// leaves out the quadratic `is_valid_edge` table
        fn $obs<Ix: IndexType>(acy: &Acyclic<$G<usize, i64, Ix>>, pairs: bool) -> String {
            let live: Vec<NodeIndex<Ix>> = acy.inner().node_indices().collect();
            let nb = acy.inner().node_bound();
            let mut s = $view(acy.inner());
            s.push_str(&format!(" | order {}", list(acy.nodes_iter().map(|n| n.index()))));
            let mut maxpos = 0usize;
            let gp = |i: usize| match catch(|| acy.get_position(NodeIndex::new(i))) {
                Some(p) => pv(p).to_string(),
                None => "p".into(),
            };
            // positions of the live nodes only: what get_position answers for an absent index (a stale entry or the
            // documented panic) is not determined by the property, a faithful copy need not reproduce it
            let _ = nb;
            for n in &live {
                let p = gp(n.index());
                if let Ok(k) = p.parse::<usize>() {
                    maxpos = maxpos.max(k);
                }
                s.push_str(&format!(" {}:{}", n.index(), p));
            }
            s.push_str(" | at");
            for k in 0..=maxpos + 2 {
                s.push_str(&match acy.at_position(mkpos(k)) {
                    Some(n) => format!(" {}", n.index()),
                    None => " x".into(),
                });
            }
            s.push_str(&format!(" | range {}", list(acy.range(..).map(|n| n.index()))));
            if pairs {
                s.push_str(" | valid");
                for &a in &live {
                    for &b in &live {
                        s.push_str(match catch(|| acy.is_valid_edge(a, b)) {
                            Some(true) => "1",
                            Some(false) => "0",
                            None => "p",
                        });
                    }
                }
            }
            s
        }

        fn $dump<Ix: IndexType>(ctx: &mut Ctx, rng: &mut Rng, acy: &Acyclic<$G<usize, i64, Ix>>, fam: Fam) {
            let line = $view(acy.inner());
            ctx.line(&line, "ok");
            let live: Vec<NodeIndex<Ix>> = acy.inner().node_indices().collect();
            let nb = acy.inner().node_bound();
            ctx.line("order", &list(acy.nodes_iter().map(|n| n.index())));
            let mut maxpos = 0usize;
            let pos: Vec<String> = live.iter().map(|&n| match catch(|| acy.get_position(n)) {
                Some(p) => { maxpos = maxpos.max(pv(p)); format!("{}:{}", n.index(), pv(p)) }
                None => format!("{}:p", n.index()),
            }).collect();
            ctx.line("pos", &list(pos));
            // get_position of absent indices (stale entries / the documented panic)
            let probes: Vec<usize> = (0..(nb + 3).min(<Ix as IndexType>::max().index().saturating_add(1))).filter(|i| !live.iter().any(|n| n.index() == *i)).collect();
            if !probes.is_empty() {
                let ans: Vec<String> = probes.iter().map(|&i| match catch(|| acy.get_position(NodeIndex::new(i))) {
                    Some(p) => pv(p).to_string(),
                    None => "p".into(),
                }).collect();
                ctx.line(&format!("gpx {}", list(probes.iter())), &list(ans));
            }
            let hi = maxpos + 2;
            let at: Vec<String> = (0..=hi).map(|k| match acy.at_position(mkpos(k)) {
                Some(n) => n.index().to_string(),
                None => "x".into(),
            }).collect();
            ctx.line(&format!("at 0 {}", hi), &list(at));
            ctx.line("range u u", &list(acy.range(..).map(|n| n.index())));
            for j in 0..3 {
                let (lo, hb) = if j == 2 && !live.is_empty() && rng.chance(40) {
                    // the one-element closed range at a live position, or the two bounds around it
                    let n = *rng.pick(&live);
                    let p = catch(|| acy.get_position(n)).unwrap_or_default();
                    match rng.below(3) {
                        0 => (Bound::Included(p), Bound::Included(p)),
                        1 => (Bound::Included(p), Bound::Excluded(p)),
                        _ => (Bound::Excluded(p), Bound::Included(p)),
                    }
                } else {
                    (gen_bound(rng, hi), gen_bound(rng, hi))
                };
                // an inverted range panics inside BTreeMap::range only when the map has a root
                if inverted(&lo, &hb) && live.is_empty() {
                    continue;
                }
                let r = catch(|| acy.range((lo, hb)).map(|n| n.index()).collect::<Vec<_>>());
                ctx.line(&format!("range {} {}", bound_str(&lo), bound_str(&hb)), &match r { Some(v) => list(v), None => "panic".into() });
            }
            if fam != Fam::NCap {
                let mut valid = Vec::new();
                for &a in &live {
                    for &b in &live {
                        let r = catch(|| acy.is_valid_edge(a, b));
                        valid.push(format!("{}:{}:{}", a.index(), b.index(), match r { Some(true) => "1", Some(false) => "0", None => "p" }));
                    }
                }
                ctx.line("valid", &list(valid));
            } else if live.len() >= 2 {
                // a big graph: a sample of pairs (`validp`, judged like `valid`)
                let mut valid = Vec::new();
                for _ in 0..12 {
                    let (a, b) = (*rng.pick(&live), *rng.pick(&live));
                    let r = catch(|| acy.is_valid_edge(a, b));
                    valid.push(format!("{}:{}:{}", a.index(), b.index(), match r { Some(true) => "1", Some(false) => "0", None => "p" }));
                }
                ctx.line("validp", &list(valid));
            }
            // is_valid_edge with an absent endpoint (documented panic; stale order entries): on a clone, exact only
            if rng.chance(15) && !probes.is_empty() {
                let c = acy.clone();
                let mut req = Vec::new();
                let mut ans = Vec::new();
                for _ in 0..3 {
                    let x = *rng.pick(&probes);
                    let (a, b) = if live.is_empty() || rng.chance(20) { (x, *rng.pick(&probes)) } else if rng.chance(50) { (x, rng.pick(&live).index()) } else { (rng.pick(&live).index(), x) };
                    // one call per fresh clone: a panic in the middle of a search may leave scratch bits set
                    let c2 = c.clone();
                    let r = catch(|| c2.is_valid_edge(NodeIndex::new(a), NodeIndex::new(b)));
                    req.push(format!("{}:{}", a, b));
                    ans.push(match r { Some(true) => "1", Some(false) => "0", None => "p" }.to_string());
                }
                ctx.line(&format!("validx {}", req.join(",")), &ans.join(","));
            }
        }

        /// the rest of the public surface as laws (`law <name> => ok | VIOLATED …`); never mutates `acy`
        fn $laws<Ix: IndexType>(ctx: &mut Ctx, rng: &mut Rng, acy: &Acyclic<$G<usize, i64, Ix>>, other: Option<&Acyclic<$G<usize, i64, Ix>>>, fam: Fam) {
            type G<Ix> = $G<usize, i64, Ix>;
            type A<Ix> = Acyclic<$G<usize, i64, Ix>>;
            let pairs = fam != Fam::NCap;
            let inner: &G<Ix> = acy.inner();
            let live: Vec<NodeIndex<Ix>> = inner.node_indices().collect();
            let nb = inner.node_bound();
            let lv: Vec<usize> = live.iter().map(|n| n.index()).collect();
            let es: Vec<(usize, usize)> = inner.edge_references().map(|e| (e.source().index(), e.target().index())).collect();
            let eids: Vec<EdgeIndex<Ix>> = inner.edge_references().map(|e| e.id()).collect();
            let sample: Vec<NodeIndex<Ix>> = if live.len() <= 14 { live.clone() } else { (0..10).map(|_| *rng.pick(&live)).collect() };

            // ---- the two iterators Acyclic itself hands out
            ctx.line("law iter nodes_iter", &verdict_of(laws_it(|| acy.nodes_iter())));
            {
                let maxpos = live.iter().map(|&n| pv(acy.get_position(n))).max().unwrap_or(0);
                let mut rs = vec![("range(..)".to_string(), laws_it(|| acy.range(..)))];
                for _ in 0..3 {
                    let (lo, hb) = (gen_bound(rng, maxpos + 1), gen_bound(rng, maxpos + 1));
                    if inverted(&lo, &hb) {
                        continue;
                    }
                    rs.push((format!("range({},{})", bound_str(&lo), bound_str(&hb)), laws_it(|| acy.range((lo, hb)))));
                }
                ctx.line("law iter range", &verdict_of(first_bad(rs)));
                // every way of writing a range: the same interval of the order
                let mut bad = None;
                let order: Vec<(usize, usize)> = acy.nodes_iter().map(|n| (pv(acy.get_position(n)), n.index())).collect();
                let want = |f: &dyn Fn(usize) -> bool| -> Vec<usize> { order.iter().filter(|(p, _)| f(*p)).map(|(_, n)| *n).collect() };
                for &(p, n) in &order {
                    let tp = mkpos(p);
                    let got: Vec<usize> = acy.range(tp..=tp).map(|x| x.index()).collect();
                    if got != vec![n] {
                        bad = Some(format!("range({}..={}) = {:?} but at_position / get_position put node {} there", p, p, got, n));
                    }
                    if acy.at_position(tp) != Some(NodeIndex::new(n)) {
                        bad = Some(format!("at_position(get_position({})) = {:?}", n, acy.at_position(tp).map(|x| x.index())));
                    }
                    let forms: Vec<(&str, Vec<usize>, Vec<usize>)> = vec![
                        ("p..", acy.range(tp..).map(|x| x.index()).collect(), want(&|q| q >= p)),
                        ("..p", acy.range(..tp).map(|x| x.index()).collect(), want(&|q| q < p)),
                        ("..=p", acy.range(..=tp).map(|x| x.index()).collect(), want(&|q| q <= p)),
                        ("p..p", acy.range(tp..tp).map(|x| x.index()).collect(), vec![]),
                        ("(Excluded p, Unbounded)", acy.range((Bound::Excluded(tp), Bound::Unbounded)).map(|x| x.index()).collect(), want(&|q| q > p)),
                    ];
                    for (w, got, exp) in forms {
                        if got != exp {
                            bad = Some(format!("range({}) with p = {} yields {:?}, the order restricted to it is {:?}", w, p, got, exp));
                        }
                    }
                }
                if let (Some(&(p0, _)), Some(&(p1, _))) = (order.first(), order.last()) {
                    let got: Vec<usize> = acy.range(mkpos(p0)..mkpos(p1)).map(|x| x.index()).collect();
                    if got != want(&|q| q >= p0 && q < p1) {
                        bad = Some(format!("range(first..last) yields {:?}", got));
                    }
                    let (b0, b1) = (mkpos(p0), mkpos(p1));
                    let got: Vec<usize> = acy.range((Bound::Included(&b0), Bound::Included(&b1))).map(|x| x.index()).collect();
                    if got != want(&|_| true) {
                        bad = Some(format!("range((Included(&first), Included(&last))) yields {:?}", got));
                    }
                }
                ctx.line("law range forms", &verdict_of(bad));
            }

            // ---- pass-through iterators: laws, and the same sequence as inner()'s
            {
                let mut rs: Vec<(String, Option<String>)> = Vec::new();
                rs.push(("node_identifiers".into(), laws_de(|| <&A<Ix> as IntoNodeIdentifiers>::node_identifiers(acy))));
                rs.push(("node_identifiers".into(), same("node_identifiers", <&A<Ix> as IntoNodeIdentifiers>::node_identifiers(acy).collect::<Vec<_>>(), inner.node_identifiers().collect::<Vec<_>>())));
                rs.push(("node_references".into(), laws_de(|| <&A<Ix> as IntoNodeReferences>::node_references(acy))));
                rs.push(("node_references".into(), same("node_references", <&A<Ix> as IntoNodeReferences>::node_references(acy).collect::<Vec<_>>(), inner.node_references().collect::<Vec<_>>())));
                rs.push(("edge_references".into(), laws_de(|| <&A<Ix> as IntoEdgeReferences>::edge_references(acy))));
                rs.push(("edge_references".into(), same("edge_references", <&A<Ix> as IntoEdgeReferences>::edge_references(acy).collect::<Vec<_>>(), inner.edge_references().collect::<Vec<_>>())));
                rs.push(("exact".into(), $exact(acy)));
                for &n in &sample {
                    rs.push((format!("neighbors({})", n.index()), laws_it(|| <&A<Ix> as IntoNeighbors>::neighbors(acy, n))));
                    rs.push(("neighbors".into(), same("neighbors", <&A<Ix> as IntoNeighbors>::neighbors(acy, n).collect::<Vec<_>>(), inner.neighbors(n).collect::<Vec<_>>())));
                    rs.push((format!("edges({})", n.index()), laws_it(|| <&A<Ix> as IntoEdges>::edges(acy, n))));
                    rs.push(("edges".into(), same("edges", <&A<Ix> as IntoEdges>::edges(acy, n).collect::<Vec<_>>(), inner.edges(n).collect::<Vec<_>>())));
                    for d in [Direction::Outgoing, Direction::Incoming] {
                        rs.push((format!("neighbors_directed({},{:?})", n.index(), d), laws_it(|| <&A<Ix> as IntoNeighborsDirected>::neighbors_directed(acy, n, d))));
                        rs.push(("neighbors_directed".into(), same("neighbors_directed", <&A<Ix> as IntoNeighborsDirected>::neighbors_directed(acy, n, d).collect::<Vec<_>>(), inner.neighbors_directed(n, d).collect::<Vec<_>>())));
                        rs.push((format!("edges_directed({},{:?})", n.index(), d), laws_it(|| <&A<Ix> as IntoEdgesDirected>::edges_directed(acy, n, d))));
                        rs.push(("edges_directed".into(), same("edges_directed", <&A<Ix> as IntoEdgesDirected>::edges_directed(acy, n, d).collect::<Vec<_>>(), inner.edges_directed(n, d).collect::<Vec<_>>())));
                    }
                }
                ctx.line("law iter passthrough", &verdict_of(first_bad(rs)));
            }

            // ---- pass-through traits: the answers of inner()
            {
                let mut rs: Vec<Option<String>> = Vec::new();
                rs.push(same("node_count", NodeCount::node_count(acy), inner.node_count()));
                rs.push(same("edge_count", EdgeCount::edge_count(acy), inner.edge_count()));
                rs.push(same("node_bound", NodeIndexable::node_bound(acy), inner.node_bound()));
                rs.push(same("edge_bound", EdgeIndexable::edge_bound(acy), EdgeIndexable::edge_bound(inner)));
                rs.push(same("is_directed", GraphProp::is_directed(acy), true));
                rs.push(same("Deref", std::ptr::eq::<G<Ix>>(&**acy, inner), true));
                rs.push(same("Deref node_count", (**acy).node_count(), lv.len()));
                for &n in &sample {
                    // Index through Deref
                    rs.push(same("acy[n]", acy[n], inner[n]));
                }
                if let Some(&e) = eids.first() {
                    rs.push(same("acy[e]", acy[e], inner[e]));
                }
                let ixmax = <Ix as IndexType>::max().index();
                for i in 0..(nb + 2).min(ixmax.saturating_add(1)) {
                    let n = NodeIndex::<Ix>::new(i);
                    rs.push(same("to_index", NodeIndexable::to_index(acy, n), i));
                    rs.push(same("from_index", NodeIndexable::from_index(acy, i), n));
                    rs.push(same("node_weight", DataMap::node_weight(acy, n).copied(), inner.node_weight(n).copied()));
                }
                let eb = EdgeIndexable::edge_bound(inner);
                for i in 0..(eb + 2).min(ixmax.saturating_add(1)) {
                    let e = EdgeIndex::<Ix>::new(i);
                    rs.push(same("edge to_index", EdgeIndexable::to_index(acy, e), i));
                    rs.push(same("edge from_index", EdgeIndexable::from_index(acy, i), e));
                    rs.push(same("edge_weight", DataMap::edge_weight(acy, e).copied(), inner.edge_weight(e).copied()));
                }
                let m1 = GetAdjacencyMatrix::adjacency_matrix(acy);
                let m2 = GetAdjacencyMatrix::adjacency_matrix(inner);
                for &a in &sample {
                    for &b in &sample {
                        let adj = es.iter().any(|&(x, y)| x == a.index() && y == b.index());
                        rs.push(same("is_adjacent", GetAdjacencyMatrix::is_adjacent(acy, &m1, a, b), adj));
                        rs.push(same("is_adjacent (inner)", GetAdjacencyMatrix::is_adjacent(inner, &m2, a, b), adj));
                    }
                }
                // Visitable: a map that holds every live index; reset_map clears it (also one made for a smaller / larger graph)
                let mut vm = Visitable::visit_map(acy);
                let r = catch(|| {
                    let mut bad = None;
                    for &n in &live {
                        if vm.is_visited(&n) {
                            bad = Some(format!("a fresh visit_map has {} visited", n.index()));
                        }
                        if !vm.visit(n) || !vm.is_visited(&n) || vm.visit(n) {
                            bad = Some(format!("visit({}) on a fresh visit_map", n.index()));
                        }
                    }
                    if let Some(&n) = live.first() {
                        if !vm.unvisit(n) || vm.is_visited(&n) || vm.unvisit(n) {
                            bad = Some(format!("unvisit({})", n.index()));
                        }
                        vm.visit(n);
                    }
                    Visitable::reset_map(acy, &mut vm);
                    for &n in &live {
                        if vm.is_visited(&n) {
                            bad = Some(format!("after reset_map node {} is still visited", n.index()));
                        }
                    }
                    let small: A<Ix> = Acyclic::new();
                    let mut sm = Visitable::visit_map(&small);
                    Visitable::reset_map(acy, &mut sm);
                    for &n in &live {
                        if sm.is_visited(&n) || !sm.visit(n) {
                            bad = Some(format!("reset_map of a map made for an empty graph: node {} cannot be visited once", n.index()));
                        }
                    }
                    Visitable::reset_map(&small, &mut vm);
                    Visitable::reset_map(acy, &mut vm);
                    for &n in &live {
                        if vm.is_visited(&n) || !vm.visit(n) {
                            bad = Some(format!("reset_map twice: node {} cannot be visited once", n.index()));
                        }
                    }
                    bad
                });
                rs.push(match r { Some(b) => b, None => Some("visit_map / reset_map panicked".into()) });
                ctx.line("law views", &verdict_of(rs.into_iter().flatten().next()));
            }

            // ---- Clone, clone_from, Default, Debug, into_inner
            {
                let me = $obs(acy, pairs);
                let c = acy.clone();
                let mut bad = if $obs(&c, pairs) != me { Some(format!("the clone is observed as [{}], the original as [{}]", $obs(&c, pairs), me)) } else { None };
                if $view(&c.clone().into_inner()) != $view(inner) {
                    bad = Some("into_inner() of a clone is not the inner graph".into());
                }
                // x == x.clone() where PartialEq exists (the error type, the positions)
                for &n in &sample {
                    let p = acy.get_position(n);
                    if p != p.clone() || c.get_position(n) != p || p.cmp(&p) != std::cmp::Ordering::Equal {
                        bad = Some("TopologicalPosition: clone / Eq / Ord disagree".into());
                    }
                }
                ctx.line("law clone", &verdict_of(bad));

                // clone_from onto an arbitrary prior value == assignment of a clone; the two are independent afterwards
                let mut bad = None;
                let mut priors: Vec<(&str, A<Ix>)> = vec![("new", Acyclic::new()), ("with_capacity", <A<Ix> as Create>::with_capacity(rng.below(40), rng.below(9)))];
                if let Some(o) = other {
                    priors.push(("the other object", o.clone()));
                }
                if !live.is_empty() && fam == Fam::Normal {
                    // a mutated copy of the object itself: a node removed, a node added
                    let mut m = acy.clone();
                    m.remove_node(*rng.pick(&live));
                    m.add_node(usize::MAX - 1);
                    priors.push(("a mutated copy", m));
                }
                for (what, mut a) in priors {
                    a.clone_from(acy);
                    if $obs(&a, pairs) != me {
                        bad = Some(format!("{}.clone_from(x) is observed as [{}], x as [{}]", what, $obs(&a, pairs), me));
                    }
                    if fam == Fam::Normal {
                        // mutate the copy: the original must not move (and vice versa: the copy is dumped again by the next law block if it is kept)
                        let n1 = a.add_node(usize::MAX - 2);
                        if let Some(&x) = live.first() {
                            let _ = catch(|| a.try_add_edge(n1, x, -5));
                            a.remove_node(x);
                        }
                        if $obs(acy, pairs) != me {
                            bad = Some(format!("mutating {}.clone_from(x) changed x", what));
                        }
                    }
                }
                ctx.line("law clone_from", &verdict_of(bad));

                let mut bad = None;
                let d: A<Ix> = Default::default();
                let n: A<Ix> = Acyclic::new();
                let w: A<Ix> = <A<Ix> as Create>::with_capacity(0, 0);
                if $obs(&d, true) != $obs(&n, true) || $obs(&d, true) != $obs(&w, true) {
                    bad = Some(format!("default() is [{}], new() is [{}], with_capacity(0, 0) is [{}]", $obs(&d, true), $obs(&n, true), $obs(&w, true)));
                }
                if d.nodes_iter().next().is_some() || d.inner().node_count() != 0 || d.at_position(TopologicalPosition::default()).is_some() {
                    bad = Some("default() is not empty".into());
                }
                // a Default object is usable: the first node is found where get_position says
                let mut d = d;
                let n0 = d.add_node(7);
                if d.at_position(d.get_position(n0)) != Some(n0) || d.nodes_iter().collect::<Vec<_>>() != vec![n0] {
                    bad = Some("the first node of a Default Acyclic is not in the order".into());
                }
                ctx.line("law default", &verdict_of(bad));

                let r = catch(|| {
                    let a = format!("{:?}", acy);
                    let b = format!("{:#?}", acy);
                    let c = format!("{:?} {:?} {:?} {:#?}", AcyclicEdgeError::<NodeIndex<Ix>>::SelfLoop, AcyclicEdgeError::<NodeIndex<Ix>>::InvalidEdge, TopologicalPosition::default(), live.first().map(|&n| acy.get_position(n)));
                    let d = format!("{:10?}|{:<4?}|{:.3?}", TopologicalPosition::default(), AcyclicEdgeError::<NodeIndex<Ix>>::SelfLoop, live.first().map(|&n| acy.get_position(n)));
                    a.len() + b.len() + c.len() + d.len()
                });
                ctx.line("law debug", &verdict_of(match r { Some(_) => None, None => Some("Debug panicked".into()) }));
            }

            // ---- the error type: From<Cycle>, PartialEq, Clone
            {
                let mut bad = None;
                // a Cycle value can only be obtained from the library: toposort of a 2-cycle
                let mut cyc = DiGraph::<(), (), Ix>::with_capacity(2, 2);
                let (a, b) = (cyc.add_node(()), cyc.add_node(()));
                cyc.add_edge(a, b, ());
                cyc.add_edge(b, a, ());
                match toposort(&cyc, None) {
                    Ok(_) => bad = Some("toposort accepted a 2-cycle".to_string()),
                    Err(c) => {
                        let n = c.node_id();
                        let e: AcyclicEdgeError<NodeIndex<Ix>> = c.clone().into();
                        if e != AcyclicEdgeError::Cycle(c.clone()) || e != e.clone() || e == AcyclicEdgeError::SelfLoop || e == AcyclicEdgeError::InvalidEdge {
                            bad = Some("AcyclicEdgeError::from(Cycle) / PartialEq / Clone disagree".to_string());
                        }
                        if c != c.clone() || c.node_id() != n || !(n == a || n == b) {
                            bad = Some("Cycle: clone / node_id disagree".to_string());
                        }
                        match Acyclic::try_from_graph(cyc.clone()) {
                            Err(c2) if c2.node_id() == a || c2.node_id() == b => {}
                            _ => bad = Some("try_from_graph of a 2-cycle does not report a node of the cycle".to_string()),
                        }
                    }
                }
                if AcyclicEdgeError::<NodeIndex<Ix>>::SelfLoop != AcyclicEdgeError::SelfLoop.clone() || AcyclicEdgeError::<NodeIndex<Ix>>::SelfLoop == AcyclicEdgeError::InvalidEdge {
                    bad = Some("AcyclicEdgeError: PartialEq on the unit variants".to_string());
                }
                // the weight types do not matter: the same structure with `()` weights is wrapped into the same order
                let unit = inner.map(|_, _| (), |_, _| ());
                match (Acyclic::try_from_graph(unit), Acyclic::try_from_graph(inner.clone())) {
                    (Ok(u), Ok(w)) => {
                        if u.nodes_iter().collect::<Vec<_>>() != w.nodes_iter().collect::<Vec<_>>() || live.iter().any(|&n| u.get_position(n) != w.get_position(n)) {
                            bad = Some("try_from_graph of the same structure with () weights yields another order".to_string());
                        }
                        if let Some(e) = topo_ok(&w.nodes_iter().map(|n| n.index()).collect::<Vec<_>>(), &lv, &es) {
                            bad = Some(format!("try_from_graph(inner().clone()): {}", e));
                        }
                    }
                    _ => bad = Some("try_from_graph refuses the inner graph of an Acyclic".to_string()),
                }
                ctx.line("law errors", &verdict_of(bad));
            }

            // ---- DataMapMut: weights are written through, the order does not move (on a clone; restored labels are not needed)
            {
                let mut c = acy.clone();
                let before = $obs(acy, false);
                let mut bad = None;
                if let Some(&n) = live.first() {
                    let old = inner[n];
                    match DataMapMut::node_weight_mut(&mut c, n) {
                        Some(w) => *w = old ^ 0x5555,
                        None => bad = Some(format!("node_weight_mut({}) of a live node is None", n.index())),
                    }
                    if DataMap::node_weight(&c, n) != Some(&(old ^ 0x5555)) || c.inner()[n] != (old ^ 0x5555) {
                        bad = Some("a write through node_weight_mut is not read back".to_string());
                    }
                    if let Some(w) = DataMapMut::node_weight_mut(&mut c, n) {
                        *w = old;
                    }
                }
                if let Some(&e) = eids.first() {
                    let old = inner[e];
                    match DataMapMut::edge_weight_mut(&mut c, e) {
                        Some(w) => *w = old + 12345,
                        None => bad = Some(format!("edge_weight_mut({}) of a live edge is None", e.index())),
                    }
                    if DataMap::edge_weight(&c, e) != Some(&(old + 12345)) || c.inner()[e] != old + 12345 {
                        bad = Some("a write through edge_weight_mut is not read back".to_string());
                    }
                    if let Some(w) = DataMapMut::edge_weight_mut(&mut c, e) {
                        *w = old;
                    }
                }
                let ixmax = <Ix as IndexType>::max().index();
                if DataMapMut::node_weight_mut(&mut c, NodeIndex::new((nb + 1).min(ixmax))).is_some() || DataMapMut::edge_weight_mut(&mut c, EdgeIndex::new((EdgeIndexable::edge_bound(inner) + 1).min(ixmax))).is_some() {
                    bad = Some("weight_mut of an absent id is Some".to_string());
                }
                if $obs(&c, false) != before {
                    bad = Some("writing and restoring weights through DataMapMut changed the observation".to_string());
                }
                ctx.line("law weight_mut", &verdict_of(bad));
            }

            // ---- petgraph's own algorithms, walkers and adaptors on &Acyclic<G>: judged, and equal to the same on inner()
            {
                let r = catch(|| {
                    let mut bad: Option<String> = None;
                    match toposort(acy, None) {
                        Ok(o) => {
                            let o: Vec<usize> = o.iter().map(|n| n.index()).collect();
                            if let Some(e) = topo_ok(&o, &lv, &es) {
                                bad = Some(format!("toposort(&acyclic): {}", e));
                            }
                        }
                        Err(c) => bad = Some(format!("toposort(&acyclic) reports a cycle at {}", c.node_id().index())),
                    }
                    if is_cyclic_directed(acy) {
                        bad = Some("is_cyclic_directed(&acyclic) = true".to_string());
                    }
                    if toposort(acy, None).ok() != toposort(inner, None).ok() {
                        bad = Some("toposort(&acyclic) differs from toposort(inner())".to_string());
                    }
                    // a workspace: default, made for this graph, for an empty one, for a larger one
                    let small: A<Ix> = Acyclic::new();
                    let mut big = acy.clone();
                    if nb + 6 < <Ix as IndexType>::max().index() {
                        for _ in 0..5 {
                            big.add_node(0);
                        }
                    }
                    let mut spaces = vec![DfsSpace::default(), DfsSpace::new(acy), DfsSpace::new(&small), DfsSpace::new(&big)];
                    for (i, sp) in spaces.iter_mut().enumerate() {
                        for _ in 0..2 {
                            match toposort(acy, Some(sp)) {
                                Ok(o) => {
                                    let o: Vec<usize> = o.iter().map(|n| n.index()).collect();
                                    if let Some(e) = topo_ok(&o, &lv, &es) {
                                        bad = Some(format!("toposort(&acyclic, workspace #{}): {}", i, e));
                                    }
                                }
                                Err(_) => bad = Some(format!("toposort(&acyclic, workspace #{}) reports a cycle", i)),
                            }
                        }
                    }
                    let t: Vec<usize> = topo_walk(acy).iter().map(|n| n.index()).collect();
                    if let Some(e) = topo_ok(&t, &lv, &es) {
                        bad = Some(format!("Topo walker on &acyclic: {}", e));
                    }
                    if topo_walk(acy) != topo_walk(inner) {
                        bad = Some("Topo walker on &acyclic differs from the one on inner()".to_string());
                    }
                    let rt: Vec<usize> = topo_walk(Reversed(acy)).iter().rev().map(|n| n.index()).collect();
                    if let Some(e) = topo_ok(&rt, &lv, &es) {
                        bad = Some(format!("Topo walker on Reversed(&acyclic), reversed: {}", e));
                    }
                    if toposort(Reversed(acy), None).ok() != toposort(Reversed(inner), None).ok() {
                        bad = Some("toposort(Reversed(&acyclic)) differs from toposort(Reversed(inner()))".to_string());
                    }
                    let starts: Vec<NodeIndex<Ix>> = sample.iter().copied().take(5).collect();
                    let k = 1 + rng.below(8);
                    if walk_sig(acy, &starts) != walk_sig(inner, &starts) {
                        bad = Some("Dfs / Bfs / DfsPostOrder on &acyclic differ from those on inner()".to_string());
                    }
                    if dfs_sig(acy, &starts, k) != dfs_sig(inner, &starts, k) {
                        bad = Some("depth_first_search on &acyclic differs from the one on inner()".to_string());
                    }
                    if walk_sig(Reversed(acy), &starts) != walk_sig(Reversed(inner), &starts) || dfs_sig(Reversed(acy), &starts, k) != dfs_sig(Reversed(inner), &starts, k) {
                        bad = Some("walkers on Reversed(&acyclic) differ from those on Reversed(inner())".to_string());
                    }
                    let keep = |n: NodeIndex<Ix>| n.index() % 3 != 1;
                    let (nf1, nf2) = (NodeFiltered::from_fn(acy, keep), NodeFiltered::from_fn(inner, keep));
                    let fstarts: Vec<NodeIndex<Ix>> = starts.iter().copied().filter(|&n| keep(n)).collect();
                    if walk_sig(&nf1, &fstarts) != walk_sig(&nf2, &fstarts) || dfs_sig(&nf1, &fstarts, k) != dfs_sig(&nf2, &fstarts, k) {
                        bad = Some("walkers on NodeFiltered(&acyclic) differ from those on NodeFiltered(inner())".to_string());
                    }
                    if toposort(&nf1, None).ok() != toposort(&nf2, None).ok() || toposort(&nf1, None).is_err() {
                        bad = Some("toposort(NodeFiltered(&acyclic)) fails or differs from the one on inner()".to_string());
                    }
                    let (ef1, ef2) = (EdgeFiltered::from_fn(acy, |e| e.weight() % 2 == 0), EdgeFiltered::from_fn(inner, |e| e.weight() % 2 == 0));
                    if walk_sig(&ef1, &starts) != walk_sig(&ef2, &starts) || dfs_sig(&ef1, &starts, k) != dfs_sig(&ef2, &starts, k) {
                        bad = Some("walkers on EdgeFiltered(&acyclic) differ from those on EdgeFiltered(inner())".to_string());
                    }
                    bad
                });
                ctx.line("law algos", &verdict_of(match r { Some(b) => b, None => Some("an algorithm panicked on &acyclic".to_string()) }));
            }
        }

        fn $run<Ix: IndexType>(ctx: &mut Ctx, rng: &mut Rng, case: u64, ixname: &str, fam: Fam) {
            type G<Ix> = $G<usize, i64, Ix>;
            let stable: bool = $stable;
            let ixmax = <Ix as IndexType>::max().index();
            ctx.raw(&format!(
                "case {} kind={} ix={} fam={} profile={}",
                case,
                if stable { "s" } else { "g" },
                ixname,
                match fam { Fam::Normal => "normal", Fam::ECap => "ecap", Fam::NCap => "ncap" },
                if cfg!(debug_assertions) { "debug" } else { "release" }
            ));
            let max_live = match fam {
                Fam::NCap => ixmax,
                Fam::ECap => 6,
                Fam::Normal => if ctx.tier_thorough { 13 } else { 9 },
            };
            let mut next_label: usize;
            let mut next_w: i64 = 1000;
            // ---------------------------------------------------------------- construction
            let mut acy: Acyclic<G<Ix>>;
            let mut attempts = 0;
            loop {
                let choice = if fam != Fam::Normal { 3 } else if attempts >= 3 { 0 } else { rng.weighted(&[16, 6, 8, 70]) };
                attempts += 1;
                match choice {
                    0 => {
                        acy = Acyclic::new();
                        next_label = 0;
                        ctx.line("new", "ok");
                        break;
                    }
                    1 => {
                        acy = Default::default();
                        next_label = 0;
                        ctx.line("new default", "ok");
                        break;
                    }
                    2 => {
                        // small, zero, and far larger than the graph will ever get
                        let (n, e) = match rng.below(4) { 0 => (0, 0), 1 => (64 + rng.below(300), rng.below(500)), _ => (rng.below(6), rng.below(6)) };
                        acy = <Acyclic<G<Ix>> as Create>::with_capacity(n, e);
                        next_label = 0;
                        ctx.line(&format!("withcap {} {}", n, e), "ok");
                        break;
                    }
                    _ => {
                        let mut ag = match fam {
                            Fam::ECap => {
                                // 3..6 nodes, the inner graph filled with parallel edges up to (almost) the edge limit of the index type
                                let n = 3 + rng.below(4);
                                let p = random_perm(rng, n);
                                let m = ixmax - rng.below(7);
                                let mut edges = Vec::new();
                                for _ in 0..m {
                                    let (a, b) = (rng.below(n), rng.below(n));
                                    if a != b {
                                        edges.push(if p[a] < p[b] { (a, b, rng.range(1, 9)) } else { (b, a, rng.range(1, 9)) });
                                    }
                                }
                                while edges.len() < m {
                                    let a = rng.below(n - 1);
                                    let b = a + 1 + rng.below(n - 1 - a);
                                    edges.push(if p[a] < p[b] { (a, b, 1) } else { (b, a, 1) });
                                }
                                AG { directed: true, n, edges }
                            }
                            Fam::NCap => {
                                // (almost) as many nodes as the index type admits, a sparse DAG on them
                                let n = ixmax - rng.below(4);
                                let p = random_perm(rng, n);
                                let mut edges = Vec::new();
                                for _ in 0..(20 + rng.below(40)) {
                                    let (a, b) = (rng.below(n), rng.below(n));
                                    if a != b {
                                        edges.push(if p[a] < p[b] { (a, b, 1) } else { (b, a, 1) });
                                    }
                                }
                                AG { directed: true, n, edges }
                            }
                            Fam::Normal => {
                                // mostly acyclic families, some cyclic / with self-loops / parallel edges
                                let famn = *rng.pick(&[4usize, 4, 4, 14, 14, 3, 3, 9, 13, 6, 7, 7, 0, 1, 2, 8, 10, 11, 5, 15, 12]);
                                let o = if rng.chance(30) { GenOpts::multi(max_live, 1, 9) } else { GenOpts::simple(max_live) };
                                let mut ag = gen_family(rng, true, famn, o);
                                if ag.edges.len() > 40 {
                                    ag.edges.truncate(40);
                                }
                                if rng.chance(25) {
                                    // orient every edge along a hidden order: dense DAGs from cyclic families
                                    let p = random_perm(rng, ag.n);
                                    for e in ag.edges.iter_mut() {
                                        if p[e.0] > p[e.1] {
                                            *e = (e.1, e.0, e.2);
                                        }
                                    }
                                    if !o.loops {
                                        ag.edges.retain(|e| e.0 != e.1);
                                    }
                                }
                                ag
                            }
                        };
                        // corners: the empty graph (a StableGraph: possibly nothing but vacancies), a single node (possibly with a self-loop)
                        if fam == Fam::Normal {
                            match rng.below(100) {
                                0..=5 => ag = AG { directed: true, n: 0, edges: vec![] },
                                6..=10 => ag = AG { directed: true, n: 1, edges: if rng.chance(25) { vec![(0, 0, 1)] } else { vec![] } },
                                _ => {}
                            }
                        }
                        let no = random_perm(rng, ag.n);
                        let eo = random_perm(rng, ag.edges.len());
                        let g: G<Ix> = $mk::<Ix>(rng, &ag, &no, &eo, fam);
                        ctx.line(&$view(&g), "ok");
                        let via = if rng.chance(50) { "tfg" } else { "tf" };
                        // what the graph line cannot show of a StableGraph: the order of its free lists
                        let from_req = format!("from {}{}", via, $free(&g));
                        let r = catch(move || if via == "tfg" { Acyclic::try_from_graph(g) } else { Acyclic::try_from(g) });
                        let r = match r {
                            Some(r) => r,
                            None => {
                                ctx.line(&from_req, "panic");
                                continue;
                            }
                        };
                        match r {
                            Ok(a) => {
                                ctx.line(&from_req, "ok");
                                acy = a;
                                next_label = ag.n;
                                break;
                            }
                            Err(c) => {
                                ctx.line(&from_req, &format!("err cycle {}", c.node_id().index()));
                            }
                        }
                    }
                }
            }
            $dump(ctx, rng, &acy, fam);
            if rng.chance(30) && catch(|| $laws(ctx, rng, &acy, None, fam)).is_none() {
                ctx.line("law block", "VIOLATED a call of the public API panicked inside the law checks");
            }
            // ---------------------------------------------------------------- history
            let nops = match fam {
                Fam::NCap => 4 + rng.below(5),
                Fam::ECap => 8 + rng.below(14),
                Fam::Normal => if ctx.tier_thorough { 10 + rng.below(60) } else { 6 + rng.below(34) },
            };
            let mut removed: Vec<usize> = Vec::new();
            let mut other: Option<Acyclic<G<Ix>>> = None;
            for opno in 0..nops {
                let live: Vec<NodeIndex<Ix>> = acy.inner().node_indices().collect();
                let nb = acy.inner().node_bound();
                let l = live.len();
                let ec = acy.inner().edge_count();
                let w_add = if l >= max_live && fam != Fam::NCap { 0 } else if l < 4 { 40 } else { 16 };
                let w_edge = if l >= 2 { if ec >= 60 && fam == Fam::Normal { 5 } else { 50 } } else { 6 };
                let w_re = if ec > 0 { 9 } else { 2 };
                let w_rn = if l > 0 { if fam == Fam::ECap { 2 } else { 8 } } else { 3 };
                let w_two = if fam == Fam::NCap { 0 } else { 5 };
                let op = rng.weighted(&[if fam == Fam::NCap { 60 } else { w_add }, w_edge, w_re, w_rn, 2, w_two]);
                match op {
                    0 => {
                        let lab = next_label;
                        next_label += 1;
                        // at the node limit of the index type the inner graph's add_node panics (documented; it may leave the
                        // inner graph in an unspecified state): near the limit the call is tried on a clone first
                        let fits = ixmax == usize::MAX || l + 2 < ixmax || catch(|| { let mut c = acy.clone(); <Acyclic<G<Ix>> as Build>::add_node(&mut c, lab); }).is_some();
                        if fits {
                            let n = <Acyclic<G<Ix>> as Build>::add_node(&mut acy, lab);
                            ctx.line(&format!("add_node {}", lab), &n.index().to_string());
                        } else {
                            ctx.line(&format!("add_node {}", lab), "panic");
                        }
                    }
                    1 => {
                        // endpoints
                        let absent = |rng: &mut Rng| -> usize {
                            if !removed.is_empty() && rng.chance(50) { *rng.pick(&removed) } else { (nb + rng.below(3)).min(ixmax) }
                        };
                        let posof = |n: NodeIndex<Ix>| catch(|| pv(acy.get_position(n))).unwrap_or(0);
                        let (a, b): (usize, usize) = if l == 0 {
                            (absent(rng), absent(rng))
                        } else {
                            match rng.weighted(&[34, 16, 8, 12, 30]) {
                                0 if l >= 2 => {
                                    // against the current order: forces a reorder or is a cycle
                                    let x = *rng.pick(&live);
                                    let y = *rng.pick(&live);
                                    if posof(x) > posof(y) { (x.index(), y.index()) } else { (y.index(), x.index()) }
                                }
                                1 if ec > 0 => {
                                    // close a cycle: reverse of an existing edge, or of a two-step path
                                    let es: Vec<(NodeIndex<Ix>, NodeIndex<Ix>)> = acy.inner().edge_references().map(|e| (e.source(), e.target())).collect();
                                    let (u, v) = *rng.pick(&es);
                                    let nxt: Vec<NodeIndex<Ix>> = acy.inner().neighbors(v).collect();
                                    if !nxt.is_empty() && rng.chance(50) { (rng.pick(&nxt).index(), u.index()) } else { (v.index(), u.index()) }
                                }
                                2 => {
                                    let x = rng.pick(&live).index();
                                    (x, x)
                                }
                                3 => {
                                    let x = rng.pick(&live).index();
                                    match rng.below(4) {
                                        0 => (absent(rng), x),
                                        1 => (x, absent(rng)),
                                        2 => { let y = absent(rng); (y, y) }
                                        _ => (absent(rng), absent(rng)),
                                    }
                                }
                                _ => {
                                    // any pair; sometimes a pair that already has an edge (a parallel edge / the edge update_edge finds)
                                    if ec > 0 && rng.chance(30) {
                                        let es: Vec<(usize, usize)> = acy.inner().edge_references().map(|e| (e.source().index(), e.target().index())).collect();
                                        *rng.pick(&es)
                                    } else {
                                        let x = rng.pick(&live).index();
                                        let mut y = rng.pick(&live).index();
                                        if y == x && rng.chance(85) {
                                            y = rng.pick(&live).index();
                                        }
                                        (x, y)
                                    }
                                }
                            }
                        };
                        let w = next_w;
                        next_w += 1;
                        let is_live = |i: usize| live.iter().any(|n| n.index() == i);
                        let both = is_live(a) && is_live(b);
                        let (na, nbx) = (NodeIndex::<Ix>::new(a), NodeIndex::<Ix>::new(b));
                        // is the inner graph full (its add_edge panics at the index limit)?  observed on a clone of inner()
                        let full = both && ixmax != usize::MAX && ec + 3 >= ixmax && catch(|| { let mut c = acy.inner().clone(); c.add_edge(na, nbx, w); }).is_none();
                        let variant = rng.weighted(&[45, 25, 15, 15]);
                        let name = ["try_add_edge", "try_update_edge", "add_edge", "update_edge"][variant];
                        let mut scratch;
                        let target: &mut Acyclic<G<Ix>> = if both && !full { &mut acy } else { scratch = acy.clone(); &mut scratch };
                        let ans = match variant {
                            0 => catch(|| target.try_add_edge(na, nbx, w)).map(|r| match r { Ok(e) => format!("ok {}", e.index()), Err(e) => show_err(e) }),
                            1 => catch(|| target.try_update_edge(na, nbx, w)).map(|r| match r { Ok(e) => format!("ok {}", e.index()), Err(e) => show_err(e) }),
                            2 => catch(|| <Acyclic<G<Ix>> as Build>::add_edge(target, na, nbx, w)).map(|r| match r { Some(e) => format!("some {}", e.index()), None => "none".into() }),
                            _ => catch(|| <Acyclic<G<Ix>> as Build>::update_edge(target, na, nbx, w)).map(|e| format!("ok {}", e.index())),
                        };
                        ctx.line(&format!("{} {} {} {}{}", name, a, b, w, if full { " full" } else { "" }), &ans.unwrap_or_else(|| "panic".into()));
                    }
                    2 => {
                        let ids: Vec<usize> = acy.inner().edge_references().map(|e| e.id().index()).collect();
                        let e = if ids.is_empty() || rng.chance(15) {
                            let eb = ids.iter().max().map(|m| m + 1).unwrap_or(0);
                            // an absent id: beyond the bound, or (stable) a vacant one below it
                            let vac: Vec<usize> = (0..eb).filter(|i| !ids.contains(i)).collect();
                            if !vac.is_empty() && rng.chance(60) { *rng.pick(&vac) } else { (eb + rng.below(3)).min(ixmax) }
                        } else {
                            *rng.pick(&ids)
                        };
                        let r = catch(|| acy.remove_edge(EdgeIndex::new(e)));
                        ctx.line(&format!("remove_edge {}", e), &match r { Some(Some(w)) => format!("some {}", w), Some(None) => "none".into(), None => "panic".into() });
                    }
                    3 => {
                        let n = if l == 0 || rng.chance(22) {
                            if !removed.is_empty() && rng.chance(55) { *rng.pick(&removed) } else { (nb + rng.below(3)).min(ixmax) }
                        } else if !stable && l >= 2 && rng.chance(70) {
                            // a non-last node of a DiGraph: the last node is renumbered
                            live[rng.below(l - 1)].index()
                        } else {
                            rng.pick(&live).index()
                        };
                        let r = catch(|| acy.remove_node(NodeIndex::new(n)));
                        if matches!(r, Some(Some(_))) {
                            removed.push(n);
                            if !stable {
                                // indices at and beyond the new bound are absent now
                                removed.push(nb - 1);
                            }
                        }
                        ctx.line(&format!("remove_node {}", n), &match r { Some(Some(w)) => format!("some {}", w), Some(None) => "none".into(), None => "panic".into() });
                        // a second removal of the same index right away, sometimes
                        if rng.chance(25) {
                            $dump(ctx, rng, &acy, fam);
                            let r = catch(|| acy.remove_node(NodeIndex::new(n)));
                            ctx.line(&format!("remove_node {}", n), &match r { Some(Some(w)) => format!("some {}", w), Some(None) => "none".into(), None => "panic".into() });
                        }
                    }
                    4 => {
                        acy = acy.clone();
                        ctx.line("clone", "ok");
                    }
                    _ => {
                        // the second object: snap / swap / clone_from in either direction / mem::take
                        match (other.is_some(), rng.below(10)) {
                            (false, 0) | (true, 0) => {
                                let old = std::mem::take(&mut acy);
                                other = Some(old);
                                ctx.line("take", "ok");
                            }
                            (false, _) | (true, 1) => {
                                other = Some(acy.clone());
                                ctx.line("snap", "ok");
                            }
                            (true, 2..=5) => {
                                std::mem::swap(&mut acy, other.as_mut().unwrap());
                                ctx.line("swap", "ok");
                            }
                            (true, 6 | 7) => {
                                acy.clone_from(other.as_ref().unwrap());
                                ctx.line("clonefrom in", "ok");
                            }
                            (true, _) => {
                                other.as_mut().unwrap().clone_from(&acy);
                                ctx.line("clonefrom out", "ok");
                            }
                        }
                    }
                }
                $dump(ctx, rng, &acy, fam);
                if (rng.chance(if fam == Fam::Normal { 12 } else { 25 }) || opno + 1 == nops) && catch(|| $laws(ctx, rng, &acy, other.as_ref(), fam)).is_none() {
                    ctx.line("law block", "VIOLATED a call of the public API panicked inside the law checks");
                }
            }
        }
    };
}

/// trailing vacancies: `k` more dummy nodes beyond the last live one, then every dummy is removed in a random
/// order (so the free list hands the vacant slots out in any order, not only ascending)
fn trailing_vacancies<Ix: IndexType>(rng: &mut Rng, g: &mut StableDiGraph<usize, i64, Ix>, k: usize) {
    if k == 0 {
        return;
    }
    let bound = g.node_bound();
    let mut dummies = Vec::new();
    let mut beyond = 0;
    let mut guard = 0;
    while beyond < k && guard < 40 {
        let d = g.add_node(usize::MAX);
        if d.index() >= bound {
            beyond += 1;
        }
        dummies.push(d);
        guard += 1;
    }
    rng.shuffle(&mut dummies);
    for d in dummies {
        g.remove_node(d);
    }
}

fn mk_graph<Ix: IndexType>(_rng: &mut Rng, ag: &AG, no: &[usize], eo: &[usize], _fam: Fam) -> DiGraph<usize, i64, Ix> {
    enc_graph::<Directed, Ix>(ag, no, eo).g
}
fn mk_stable<Ix: IndexType>(rng: &mut Rng, ag: &AG, no: &[usize], eo: &[usize], fam: Fam) -> StableDiGraph<usize, i64, Ix> {
    if fam != Fam::Normal {
        // at the limit of the index type there is no room for dummies (and no free slot may be left over)
        let mut g = enc_stable::<Directed, Ix>(rng, ag, no, eo, false).g;
        if fam == Fam::ECap && rng.chance(50) {
            // free a few edge slots again: full in slots, not in live edges
            let ids: Vec<EdgeIndex<Ix>> = g.edge_indices().collect();
            for _ in 0..1 + rng.below(3) {
                g.remove_edge(*rng.pick(&ids));
            }
        }
        return g;
    }
    let holes = rng.chance(70);
    let mut g = enc_stable::<Directed, Ix>(rng, ag, no, eo, holes).g;
    if rng.chance(45) {
        let k = 1 + rng.below(3);
        trailing_vacancies(rng, &mut g, k);
    }
    g
}

fn free_graph<Ix: IndexType>(_g: &DiGraph<usize, i64, Ix>) -> String {
    String::new()
}

/// The free lists of a StableGraph, observed through the public API on a clone: `add_node` / `add_edge`
/// hand out the vacant slots in free-list order and then fresh slots `len, len + 1, …`.  Reported as
/// ` fn=<free node slots> fe=<free edge slots> nl=<node slots> el=<edge slots>` (a trailing run of
/// vacant slots that is reused in ascending order is indistinguishable from fresh slots, and
/// behaves the same).  At the limit of the index type `add_node` / `add_edge` panic: then every slot up to
/// the limit exists.
fn free_stable<Ix: IndexType>(g: &StableDiGraph<usize, i64, Ix>) -> String {
    fn split(seq: &[usize], bound: usize, limit: usize) -> (Vec<usize>, usize) {
        // the first k such that seq[k..] is consecutive, above everything before it and >= bound
        for k in 0..seq.len() {
            let tail_ok = seq[k..].windows(2).all(|w| w[1] == w[0] + 1);
            let above = seq[..k].iter().all(|&x| x < seq[k]);
            if tail_ok && above && seq[k] >= bound {
                return (seq[..k].to_vec(), seq[k]);
            }
        }
        (seq.to_vec(), limit)
    }
    let mut c = g.clone();
    let nb = g.node_bound();
    let eb = g.edge_indices().map(|e| e.index() + 1).max().unwrap_or(0);
    let limit = <Ix as IndexType>::max().index();
    let vac_n = 64usize;
    let mut nseq: Vec<usize> = Vec::new();
    for _ in 0..vac_n {
        match catch(|| c.add_node(usize::MAX).index()) {
            Some(i) => nseq.push(i),
            None => break,
        }
    }
    let mut eseq: Vec<usize> = Vec::new();
    if let Some(x) = c.node_indices().next() {
        for _ in 0..vac_n {
            match catch(|| c.add_edge(x, x, 0).index()) {
                Some(i) => eseq.push(i),
                None => break,
            }
        }
    }
    let (fnl, nl) = split(&nseq, nb, limit);
    let (fel, el) = split(&eseq, eb, limit);
    format!(" fn={} fe={} nl={} el={}", list(fnl.iter()), list(fel.iter()), nl, el)
}

/// `ExactSizeIterator` laws of the pass-through iterators that have them (`Graph` only)
fn exact_graph<Ix: IndexType>(acy: &Acyclic<DiGraph<usize, i64, Ix>>) -> Option<String> {
    type A<Ix> = Acyclic<DiGraph<usize, i64, Ix>>;
    laws_exact(|| <&A<Ix> as IntoNodeIdentifiers>::node_identifiers(acy))
        .or_else(|| laws_exact(|| <&A<Ix> as IntoNodeReferences>::node_references(acy)))
        .or_else(|| laws_exact(|| <&A<Ix> as IntoEdgeReferences>::edge_references(acy)))
}
fn exact_stable<Ix: IndexType>(_acy: &Acyclic<StableDiGraph<usize, i64, Ix>>) -> Option<String> {
    None
}

vertical!(run_g, view_g, dump_g, obs_g, laws_g, DiGraph, false, mk_graph, free_graph, exact_graph);
vertical!(run_s, view_s, dump_s, obs_s, laws_s, StableDiGraph, true, mk_stable, free_stable, exact_stable);

pub fn run(ctx: &mut Ctx, case: u64) {
    let mut rng = Rng::for_case(ctx.seed, "C14", case);
    let stable = rng.chance(50);
    // the two capacity families exist for u8 only (the limit of u16 needs 65535 nodes / edges)
    let fam = match rng.below(100) { 0..=2 => Fam::ECap, 3 => Fam::NCap, _ => Fam::Normal };
    let ix = if fam != Fam::Normal { 0 } else { rng.weighted(&[30, 12, 43, 15]) };
    match (stable, ix) {
        (false, 0) => run_g::<u8>(ctx, &mut rng, case, "u8", fam),
        (false, 1) => run_g::<u16>(ctx, &mut rng, case, "u16", fam),
        (false, 2) => run_g::<u32>(ctx, &mut rng, case, "u32", fam),
        (false, _) => run_g::<usize>(ctx, &mut rng, case, "usize", fam),
        (true, 0) => run_s::<u8>(ctx, &mut rng, case, "u8", fam),
        (true, 1) => run_s::<u16>(ctx, &mut rng, case, "u16", fam),
        (true, 2) => run_s::<u32>(ctx, &mut rng, case, "u32", fam),
        (true, _) => run_s::<usize>(ctx, &mut rng, case, "usize", fam),
    }
}
