//! C17 — serde: round trips (JSON value, JSON text, bincode) of `Graph`, `StableGraph`, `GraphMap` built by mutation
//! histories (vacancies, trailing vacancies, u8 capacity), cross-loading into every target type / width / edge type,
//! structure-aware mutations of the wire value, blind byte mutations of JSON text and bincode bytes, and further
//! operations on every graph that was loaded.
//!
//! The wire value is reported to the Lean driver as `n=<weights> h=<holes> p=<d|u|x> e=<a:b:w;_;…>`; it is obtained
//! from serde_json (`to_value`, `to_string`) and, for bincode, by an independent decoder of the byte stream.
//! bincode is always run with `with_limit(1 << 20)` (and otherwise the defaults of `bincode::deserialize`:
//! fixed-width integers, trailing bytes allowed) so that a mutated length prefix cannot cause a huge allocation.
use crate::common::*;
use crate::rng::Rng;
use bincode::Options;
use petgraph::graph::{EdgeIndex, Graph, IndexType, NodeIndex};
use petgraph::graphmap::GraphMap;
use petgraph::stable_graph::StableGraph;
use petgraph::visit::{EdgeIndexable, EdgeRef, IntoEdgeReferences, NodeIndexable};
use petgraph::{Directed, Direction, EdgeType, Undirected};
use serde::de::DeserializeOwned;
use serde::Serialize;
use serde_json::Value;
use std::any::Any;

#[path = "c17inst.rs"]
mod inst;
#[path = "c17laws.rs"]
mod laws;

// ------------------------------------------------------------------------------------------------
// the three graph types behind one object-safe interface

trait Obj {
    fn kind(&self) -> char;
    fn directed(&self) -> bool;
    fn width(&self) -> u32;
    /// answer of one operation, panics mapped to "panic"
    fn op(&mut self, name: &str, a: &[i64]) -> String;
    fn dump(&self) -> String;
    /// live node indices (G/S) or node keys (M)
    fn nodes(&self) -> Vec<i64>;
    /// live edge indices as (id, 0) (G/S) or edge keys (a, b) (M)
    fn edges(&self) -> Vec<(i64, i64)>;
    fn bounds(&self) -> (usize, usize);
    fn to_value(&self) -> Option<Value>;
    fn to_text(&self) -> Option<String>;
    fn to_bin(&self) -> Option<Vec<u8>>;
    /// the laws of the rarely used API (c17laws.rs): `ok` or `VIOLATED <the first law that does not hold>`
    fn laws(&self) -> String;
    fn as_any(&self) -> &dyn Any;
    fn clone_box(&self) -> Box<dyn Obj>;
    /// `self.clone_from(other)` when `other` is of the same concrete type
    fn clone_from_obj(&mut self, other: &dyn Obj) -> bool;
}

fn law_text(r: Result<Option<String>, String>) -> String {
    match r {
        Ok(None) => "ok".to_string(),
        Ok(Some(e)) => format!("VIOLATED {}", e.replace('\n', " ")),
        Err(msg) => format!("VIOLATED a call panicked: {}", msg.replace('\n', " ")),
    }
}

fn bopts() -> impl bincode::Options {
    bincode::options().with_fixint_encoding().allow_trailing_bytes().with_limit(1 << 20)
}

fn show_res(r: Option<Result<usize, petgraph::graph::GraphError>>) -> String {
    use petgraph::graph::GraphError::*;
    match r {
        None => "panic".into(),
        Some(Ok(i)) => format!("ok {}", i),
        Some(Err(NodeIxLimit)) => "err NodeIxLimit".into(),
        Some(Err(EdgeIxLimit)) => "err EdgeIxLimit".into(),
        Some(Err(NodeMissed(i))) => format!("err NodeMissed {}", i),
        Some(Err(NodeOutBounds)) => "err NodeOutBounds".into(),
    }
}

fn show_opt(r: Option<Option<i32>>) -> String {
    match r {
        None => "panic".into(),
        Some(None) => "none".into(),
        Some(Some(w)) => format!("some {}", w),
    }
}

fn semi(v: Vec<String>) -> String {
    if v.is_empty() {
        "-".into()
    } else {
        v.join(";")
    }
}

macro_rules! dump_indexed {
    ($g:expr) => {{
        let g = $g;
        let ns: Vec<String> = g.node_indices().map(|i| format!("{}:{}", i.index(), g[i])).collect();
        let es: Vec<String> = g
            .edge_references()
            .map(|e| format!("{}:{}:{}:{}", e.id().index(), e.source().index(), e.target().index(), e.weight()))
            .collect();
        // a corrupted structure (only ever seen with a broken petgraph) can have cyclic edge lists: every list walk is
        // capped, a capped walk shows as the item RUNAWAY (which the judge rejects)
        let cap = 2 * es.len() + 8;
        let capped = |mut v: Vec<String>| {
            if v.len() > cap {
                v.truncate(cap);
                v.push("RUNAWAY".to_string());
            }
            list(v)
        };
        let adj: Vec<String> = g
            .node_indices()
            .map(|i| {
                let o = capped(
                    g.edges_directed(i, Direction::Outgoing)
                        .take(cap + 1)
                        .map(|e| format!("{}.{}.{}", e.id().index(), e.source().index(), e.target().index()))
                        .collect(),
                );
                let n = capped(
                    g.edges_directed(i, Direction::Incoming)
                        .take(cap + 1)
                        .map(|e| format!("{}.{}.{}", e.id().index(), e.source().index(), e.target().index()))
                        .collect(),
                );
                let u = capped(g.neighbors_undirected(i).take(cap + 1).map(|x| x.index().to_string()).collect());
                format!("{}|{}|{}|{}", i.index(), o, n, u)
            })
            .collect();
        format!(
            "nc={} ec={} nb={} eb={} N={} E={} A={}",
            g.node_count(),
            g.edge_count(),
            g.node_bound(),
            g.edge_bound(),
            semi(ns),
            semi(es),
            semi(adj)
        )
    }};
}

fn ix<Ix: IndexType>(a: i64) -> usize {
    // arguments are generated within 0..=Ix::max(), so `IndexType::new` does not wrap
    (a.max(0) as usize).min(<Ix as IndexType>::max().index())
}

fn width_of<Ix: IndexType>() -> u32 {
    match <Ix as IndexType>::max().index() {
        255 => 8,
        65535 => 16,
        4294967295 => 32,
        _ => 64,
    }
}

impl<Ty: EdgeType + Clone + 'static, Ix: IndexType + Serialize + 'static> Obj for Graph<i32, i32, Ty, Ix> {
    fn kind(&self) -> char {
        'G'
    }
    fn directed(&self) -> bool {
        Ty::is_directed()
    }
    fn width(&self) -> u32 {
        width_of::<Ix>()
    }
    fn op(&mut self, name: &str, a: &[i64]) -> String {
        match name {
            "add_node" => show_res(catch(|| self.try_add_node(a[0] as i32).map(|i| i.index()))),
            "add_edge" => show_res(catch(|| {
                self.try_add_edge(NodeIndex::new(ix::<Ix>(a[0])), NodeIndex::new(ix::<Ix>(a[1])), a[2] as i32)
                    .map(|i| i.index())
            })),
            "remove_node" => show_opt(catch(|| self.remove_node(NodeIndex::new(ix::<Ix>(a[0]))))),
            "remove_edge" => show_opt(catch(|| self.remove_edge(EdgeIndex::new(ix::<Ix>(a[0]))))),
            "reverse" => catch(|| self.reverse()).map(|_| self.dump()).unwrap_or("panic".into()),
            "clear" => catch(|| self.clear()).map(|_| self.dump()).unwrap_or("panic".into()),
            "clear_edges" => catch(|| self.clear_edges()).map(|_| self.dump()).unwrap_or("panic".into()),
            "check" => catch(|| {
                // conversion into a StableGraph keeps every index
                let s: StableGraph<i32, i32, Ty, Ix> = StableGraph::from(Graph::clone(self));
                if s.node_count() == self.node_count() && s.edge_count() == self.edge_count() {
                    "ok".to_string()
                } else {
                    "bad-conversion".to_string()
                }
            })
            .unwrap_or("panic".into()),
            _ => "bad-op".into(),
        }
    }
    fn dump(&self) -> String {
        catch(|| dump_indexed!(self)).unwrap_or("panic".into())
    }
    fn nodes(&self) -> Vec<i64> {
        self.node_indices().map(|i| i.index() as i64).collect()
    }
    fn edges(&self) -> Vec<(i64, i64)> {
        self.edge_indices().map(|i| (i.index() as i64, 0)).collect()
    }
    fn bounds(&self) -> (usize, usize) {
        (self.node_count(), self.edge_count())
    }
    fn to_value(&self) -> Option<Value> {
        catch(|| serde_json::to_value(self).ok()).flatten()
    }
    fn to_text(&self) -> Option<String> {
        catch(|| serde_json::to_string(self).ok()).flatten()
    }
    fn to_bin(&self) -> Option<Vec<u8>> {
        catch(|| bopts().serialize(self).ok()).flatten()
    }
    fn laws(&self) -> String {
        law_text(catch_msg(|| laws::laws_graph(self, &|g| dump_indexed!(g))))
    }
    fn as_any(&self) -> &dyn Any {
        self
    }
    fn clone_box(&self) -> Box<dyn Obj> {
        Box::new(self.clone())
    }
    fn clone_from_obj(&mut self, other: &dyn Obj) -> bool {
        match other.as_any().downcast_ref::<Self>() {
            Some(o) => {
                self.clone_from(o);
                true
            }
            None => false,
        }
    }
}

impl<Ty: EdgeType + Clone + 'static, Ix: IndexType + Serialize + 'static> Obj for StableGraph<i32, i32, Ty, Ix> {
    fn kind(&self) -> char {
        'S'
    }
    fn directed(&self) -> bool {
        Ty::is_directed()
    }
    fn width(&self) -> u32 {
        width_of::<Ix>()
    }
    fn op(&mut self, name: &str, a: &[i64]) -> String {
        match name {
            "add_node" => show_res(catch(|| self.try_add_node(a[0] as i32).map(|i| i.index()))),
            "add_edge" => show_res(catch(|| {
                self.try_add_edge(NodeIndex::new(ix::<Ix>(a[0])), NodeIndex::new(ix::<Ix>(a[1])), a[2] as i32)
                    .map(|i| i.index())
            })),
            "remove_node" => show_opt(catch(|| self.remove_node(NodeIndex::new(ix::<Ix>(a[0]))))),
            "remove_edge" => show_opt(catch(|| self.remove_edge(EdgeIndex::new(ix::<Ix>(a[0]))))),
            "reverse" => catch(|| self.reverse()).map(|_| self.dump()).unwrap_or("panic".into()),
            "clear" => catch(|| self.clear()).map(|_| self.dump()).unwrap_or("panic".into()),
            "clear_edges" => catch(|| self.clear_edges()).map(|_| self.dump()).unwrap_or("panic".into()),
            "check" => catch(|| {
                // both run `check_free_lists` in debug builds
                self.retain_nodes(|_, _| true);
                self.retain_edges(|_, _| true);
                // conversion into a Graph (debug-asserts that no live edge names a vacant node)
                let g: Graph<i32, i32, Ty, Ix> = Graph::from(StableGraph::clone(self));
                if g.node_count() == self.node_count() && g.edge_count() == self.edge_count() {
                    "ok".to_string()
                } else {
                    "bad-conversion".to_string()
                }
            })
            .unwrap_or("panic".into()),
            _ => "bad-op".into(),
        }
    }
    fn dump(&self) -> String {
        catch(|| dump_indexed!(self)).unwrap_or("panic".into())
    }
    fn nodes(&self) -> Vec<i64> {
        self.node_indices().map(|i| i.index() as i64).collect()
    }
    fn edges(&self) -> Vec<(i64, i64)> {
        self.edge_indices().map(|i| (i.index() as i64, 0)).collect()
    }
    fn bounds(&self) -> (usize, usize) {
        (self.node_bound(), self.edge_bound())
    }
    fn to_value(&self) -> Option<Value> {
        catch(|| serde_json::to_value(self).ok()).flatten()
    }
    fn to_text(&self) -> Option<String> {
        catch(|| serde_json::to_string(self).ok()).flatten()
    }
    fn to_bin(&self) -> Option<Vec<u8>> {
        catch(|| bopts().serialize(self).ok()).flatten()
    }
    fn laws(&self) -> String {
        law_text(catch_msg(|| laws::laws_stable(self, &|g| dump_indexed!(g))))
    }
    fn as_any(&self) -> &dyn Any {
        self
    }
    fn clone_box(&self) -> Box<dyn Obj> {
        Box::new(self.clone())
    }
    fn clone_from_obj(&mut self, other: &dyn Obj) -> bool {
        match other.as_any().downcast_ref::<Self>() {
            Some(o) => {
                self.clone_from(o);
                true
            }
            None => false,
        }
    }
}

impl<Ty: EdgeType + Clone + 'static> Obj for GraphMap<i32, i32, Ty> {
    fn kind(&self) -> char {
        'M'
    }
    fn directed(&self) -> bool {
        Ty::is_directed()
    }
    fn width(&self) -> u32 {
        32
    }
    fn op(&mut self, name: &str, a: &[i64]) -> String {
        match name {
            "add_node" => catch(|| {
                self.add_node(a[0] as i32);
                "ok".to_string()
            })
            .unwrap_or("panic".into()),
            "add_edge" => show_opt(catch(|| self.add_edge(a[0] as i32, a[1] as i32, a[2] as i32))),
            "remove_node" => catch(|| self.remove_node(a[0] as i32).to_string()).unwrap_or("panic".into()),
            "remove_edge" => show_opt(catch(|| self.remove_edge(a[0] as i32, a[1] as i32))),
            "clear" => catch(|| self.clear()).map(|_| self.dump()).unwrap_or("panic".into()),
            "check" => catch(|| {
                let g: Graph<i32, i32, Ty, u32> = self.clone().into_graph();
                if g.node_count() == self.node_count() && g.edge_count() == self.edge_count() {
                    "ok".to_string()
                } else {
                    "bad-conversion".to_string()
                }
            })
            .unwrap_or("panic".into()),
            _ => "bad-op".into(),
        }
    }
    fn dump(&self) -> String {
        catch(|| {
            let ns: Vec<String> = self.nodes().map(|n| n.to_string()).collect();
            let es: Vec<String> = self.all_edges().map(|(a, b, w)| format!("{}:{}:{}", a, b, w)).collect();
            let adj: Vec<String> = self
                .nodes()
                .map(|n| {
                    format!(
                        "{}|{}|{}",
                        n,
                        list(self.neighbors_directed(n, Direction::Outgoing)),
                        list(self.neighbors_directed(n, Direction::Incoming))
                    )
                })
                .collect();
            format!("nc={} ec={} N={} E={} A={}", self.node_count(), self.edge_count(), semi(ns), semi(es), semi(adj))
        })
        .unwrap_or("panic".into())
    }
    fn nodes(&self) -> Vec<i64> {
        GraphMap::nodes(self).map(|n| n as i64).collect()
    }
    fn edges(&self) -> Vec<(i64, i64)> {
        self.all_edges().map(|(a, b, _)| (a as i64, b as i64)).collect()
    }
    fn bounds(&self) -> (usize, usize) {
        (self.node_count(), self.edge_count())
    }
    fn to_value(&self) -> Option<Value> {
        catch(|| serde_json::to_value(self).ok()).flatten()
    }
    fn to_text(&self) -> Option<String> {
        catch(|| serde_json::to_string(self).ok()).flatten()
    }
    fn to_bin(&self) -> Option<Vec<u8>> {
        catch(|| bopts().serialize(self).ok()).flatten()
    }
    fn laws(&self) -> String {
        law_text(catch_msg(|| laws::laws_map(self)))
    }
    fn as_any(&self) -> &dyn Any {
        self
    }
    fn clone_box(&self) -> Box<dyn Obj> {
        Box::new(self.clone())
    }
    fn clone_from_obj(&mut self, other: &dyn Obj) -> bool {
        match other.as_any().downcast_ref::<Self>() {
            Some(o) => {
                self.clone_from(o);
                true
            }
            None => false,
        }
    }
}

#[derive(Clone, Copy, PartialEq, Debug)]
struct Target {
    kind: char,
    directed: bool,
    w: u32,
}

impl Target {
    fn words(&self) -> String {
        format!("{} {} {}", self.kind, if self.directed { "d" } else { "u" }, self.w)
    }
}

fn make(t: Target) -> Box<dyn Obj> {
    macro_rules! mk {
        ($ty:ty, $ix:ty) => {
            match t.kind {
                'G' => Box::new(Graph::<i32, i32, $ty, $ix>::default()) as Box<dyn Obj>,
                'S' => Box::new(StableGraph::<i32, i32, $ty, $ix>::default()) as Box<dyn Obj>,
                _ => Box::new(GraphMap::<i32, i32, $ty>::new()) as Box<dyn Obj>,
            }
        };
    }
    match (t.directed, t.w) {
        (true, 8) => mk!(Directed, u8),
        (true, 16) => mk!(Directed, u16),
        (true, 64) => mk!(Directed, usize),
        (true, _) => mk!(Directed, u32),
        (false, 8) => mk!(Undirected, u8),
        (false, 16) => mk!(Undirected, u16),
        (false, 64) => mk!(Undirected, usize),
        (false, _) => mk!(Undirected, u32),
    }
}

enum Input<'a> {
    Val(&'a Value),
    Text(&'a str),
    Bin(&'a [u8]),
}

fn de_as<T: DeserializeOwned + Obj + 'static>(inp: &Input) -> Result<Box<dyn Obj>, String> {
    let r: Result<T, String> = match inp {
        Input::Val(v) => serde_json::from_value::<T>((*v).clone()).map_err(|e| e.to_string()),
        Input::Text(s) => serde_json::from_str::<T>(s).map_err(|e| e.to_string()),
        Input::Bin(b) => bopts().deserialize::<T>(b).map_err(|e| e.to_string()),
    };
    r.map(|g| Box::new(g) as Box<dyn Obj>)
}

/// `None` = the deserializer panicked
fn deser(t: Target, inp: &Input) -> Option<Result<Box<dyn Obj>, String>> {
    macro_rules! de {
        ($ty:ty, $ix:ty) => {
            match t.kind {
                'G' => de_as::<Graph<i32, i32, $ty, $ix>>(inp),
                'S' => de_as::<StableGraph<i32, i32, $ty, $ix>>(inp),
                _ => de_as::<GraphMap<i32, i32, $ty>>(inp),
            }
        };
    }
    catch(|| match (t.directed, t.w) {
        (true, 8) => de!(Directed, u8),
        (true, 16) => de!(Directed, u16),
        (true, 64) => de!(Directed, usize),
        (true, _) => de!(Directed, u32),
        (false, 8) => de!(Undirected, u8),
        (false, 16) => de!(Undirected, u16),
        (false, 64) => de!(Undirected, usize),
        (false, _) => de!(Undirected, u32),
    })
}

fn hex(b: &[u8]) -> String {
    let mut s = String::with_capacity(2 * b.len());
    for x in b {
        s.push_str(&format!("{:02x}", x));
    }
    s
}

fn num_after(msg: &str, pat: &str) -> Option<u64> {
    let i = msg.find(pat)? + pat.len();
    let digits: String = msg[i..].chars().take_while(|c| c.is_ascii_digit()).collect();
    digits.parse().ok()
}

/// error message → `err <class> <payload>`
fn classify(msg: &str) -> String {
    if msg.contains("does not exist in graph with node bound") {
        if let (Some(i), Some(b)) = (num_after(msg, "node index `"), num_after(msg, "with node bound ")) {
            return format!("err node {} {}", i, b);
        }
    }
    if msg.contains("is not allowed") {
        if let Some(h) = num_after(msg, "node hole `") {
            return format!("err hole {}", h);
        }
    }
    if msg.contains("exceeds index type maximum") {
        for what in ["node", "edge"] {
            let pat = format!("graph {} count ", what);
            if let (Some(n), Some(m)) = (num_after(msg, &pat), num_after(msg, "index type maximum ")) {
                return format!("err len {} {} {}", what, n, m);
            }
        }
    }
    if msg.contains("graph edge property mismatch") {
        return "err prop".into();
    }
    if msg.contains("Graph can not have holes in the node set") {
        return "err gholes".into();
    }
    if msg.contains("Graph can not have holes in the edge set") {
        return "err gnone".into();
    }
    if msg.contains("missing field") {
        return "err missing".into();
    }
    "err other".into()
}

// ------------------------------------------------------------------------------------------------
// the wire value, with independent codecs

#[derive(Clone, Debug, PartialEq)]
struct Wire {
    nodes: Vec<i64>,
    holes: Vec<u64>,
    prop: char, // 'd' | 'u' | 'x'
    edges: Vec<Option<(u64, u64, i64)>>,
}

impl Wire {
    fn show(&self) -> String {
        let es: Vec<String> = self
            .edges
            .iter()
            .map(|e| match e {
                None => "_".to_string(),
                Some((a, b, w)) => format!("{}:{}:{}", a, b, w),
            })
            .collect();
        format!("n={} h={} p={} e={}", list(self.nodes.iter()), list(self.holes.iter()), self.prop, semi(es))
    }
    fn total(&self) -> usize {
        self.nodes.len() + self.holes.len()
    }
}

fn i32_of(v: &Value) -> Option<i64> {
    let x = v.as_i64()?;
    if x >= i32::MIN as i64 && x <= i32::MAX as i64 {
        Some(x)
    } else {
        None
    }
}

/// strict reading of a JSON value as a wire value; `None` if it is not of that shape.
/// Returns the wire and whether `node_holes` is present / an unknown key is present.
fn wire_of_value(v: &Value) -> Option<(Wire, bool, bool)> {
    let o = v.as_object()?;
    let mut extra = false;
    for k in o.keys() {
        if !["nodes", "node_holes", "edge_property", "edges"].contains(&k.as_str()) {
            extra = true;
        }
    }
    let nodes: Vec<i64> = o.get("nodes")?.as_array()?.iter().map(i32_of).collect::<Option<Vec<_>>>()?;
    let (holes, has_h) = match o.get("node_holes") {
        None => (vec![], false),
        Some(h) => (h.as_array()?.iter().map(|x| x.as_u64()).collect::<Option<Vec<_>>>()?, true),
    };
    let prop = match o.get("edge_property")?.as_str()? {
        "directed" => 'd',
        "undirected" => 'u',
        _ => 'x',
    };
    let mut edges = vec![];
    for e in o.get("edges")?.as_array()? {
        if e.is_null() {
            edges.push(None);
        } else {
            let t = e.as_array()?;
            if t.len() != 3 {
                return None;
            }
            edges.push(Some((t[0].as_u64()?, t[1].as_u64()?, i32_of(&t[2])?)));
        }
    }
    Some((Wire { nodes, holes, prop, edges }, has_h, extra))
}

/// top-level keys of a JSON object text, in stream order, as the letters n h p e x; `None` on a duplicate
fn key_order(text: &str) -> Option<String> {
    let b = text.as_bytes();
    let (mut depth, mut i) = (0i32, 0usize);
    let mut out = String::new();
    while i < b.len() {
        match b[i] {
            b'"' => {
                let start = i + 1;
                i += 1;
                while i < b.len() && b[i] != b'"' {
                    if b[i] == b'\\' {
                        i += 1;
                    }
                    i += 1;
                }
                let s = &text[start..i.min(text.len())];
                let mut j = i + 1;
                while j < b.len() && (b[j] as char).is_whitespace() {
                    j += 1;
                }
                if depth == 1 && j < b.len() && b[j] == b':' {
                    let c = match s {
                        "nodes" => 'n',
                        "node_holes" => 'h',
                        "edge_property" => 'p',
                        "edges" => 'e',
                        _ => 'x',
                    };
                    if c != 'x' && out.contains(c) {
                        return None;
                    }
                    out.push(c);
                }
            }
            b'{' | b'[' => depth += 1,
            b'}' | b']' => depth -= 1,
            _ => {}
        }
        i += 1;
    }
    Some(out)
}

fn value_order(v: &Value) -> String {
    let mut out = String::new();
    if let Some(o) = v.as_object() {
        for k in o.keys() {
            out.push(match k.as_str() {
                "nodes" => 'n',
                "node_holes" => 'h',
                "edge_property" => 'p',
                "edges" => 'e',
                _ => 'x',
            });
        }
    }
    out
}

fn wire_field_json(w: &Wire, c: char) -> String {
    match c {
        'n' => format!("\"nodes\":[{}]", w.nodes.iter().map(|x| x.to_string()).collect::<Vec<_>>().join(",")),
        'h' => format!("\"node_holes\":[{}]", w.holes.iter().map(|x| x.to_string()).collect::<Vec<_>>().join(",")),
        'p' => format!(
            "\"edge_property\":\"{}\"",
            match w.prop {
                'd' => "directed",
                'u' => "undirected",
                _ => "Directed",
            }
        ),
        'e' => format!(
            "\"edges\":[{}]",
            w.edges
                .iter()
                .map(|e| match e {
                    None => "null".to_string(),
                    Some((a, b, x)) => format!("[{},{},{}]", a, b, x),
                })
                .collect::<Vec<_>>()
                .join(",")
        ),
        _ => "\"unknown_field\":{\"a\":[1,2,null]}".to_string(),
    }
}

fn wire_to_json(w: &Wire, order: &str) -> String {
    format!("{{{}}}", order.chars().map(|c| wire_field_json(w, c)).collect::<Vec<_>>().join(","))
}

fn put_ix(out: &mut Vec<u8>, x: u64, w: u32) -> Option<()> {
    match w {
        8 => out.push(u8::try_from(x).ok()?),
        16 => out.extend_from_slice(&u16::try_from(x).ok()?.to_le_bytes()),
        64 => out.extend_from_slice(&x.to_le_bytes()),
        _ => out.extend_from_slice(&u32::try_from(x).ok()?.to_le_bytes()),
    }
    Some(())
}

/// bincode (fixint, little endian) encoding of the wire struct for index width `w`
fn wire_to_bin(wire: &Wire, w: u32) -> Option<Vec<u8>> {
    let mut out = vec![];
    out.extend_from_slice(&(wire.nodes.len() as u64).to_le_bytes());
    for x in &wire.nodes {
        out.extend_from_slice(&(*x as i32).to_le_bytes());
    }
    out.extend_from_slice(&(wire.holes.len() as u64).to_le_bytes());
    for h in &wire.holes {
        put_ix(&mut out, *h, w)?;
    }
    let tag: u32 = match wire.prop {
        'u' => 0,
        'd' => 1,
        _ => 7,
    };
    out.extend_from_slice(&tag.to_le_bytes());
    out.extend_from_slice(&(wire.edges.len() as u64).to_le_bytes());
    for e in &wire.edges {
        match e {
            None => out.push(0),
            Some((a, b, x)) => {
                out.push(1);
                put_ix(&mut out, *a, w)?;
                put_ix(&mut out, *b, w)?;
                out.extend_from_slice(&(*x as i32).to_le_bytes());
            }
        }
    }
    Some(out)
}

struct Rd<'a> {
    b: &'a [u8],
    p: usize,
}

impl Rd<'_> {
    fn take(&mut self, n: usize) -> Option<&[u8]> {
        if self.p + n > self.b.len() {
            return None;
        }
        let s = &self.b[self.p..self.p + n];
        self.p += n;
        Some(s)
    }
    fn u64(&mut self) -> Option<u64> {
        Some(u64::from_le_bytes(self.take(8)?.try_into().ok()?))
    }
    fn u32(&mut self) -> Option<u32> {
        Some(u32::from_le_bytes(self.take(4)?.try_into().ok()?))
    }
    fn i32(&mut self) -> Option<i64> {
        Some(i32::from_le_bytes(self.take(4)?.try_into().ok()?) as i64)
    }
    fn ix(&mut self, w: u32) -> Option<u64> {
        Some(match w {
            8 => self.take(1)?[0] as u64,
            16 => u16::from_le_bytes(self.take(2)?.try_into().ok()?) as u64,
            64 => self.u64()?,
            _ => self.u32()? as u64,
        })
    }
}

/// independent decoder; returns the wire and the number of bytes consumed
fn wire_of_bin(b: &[u8], w: u32) -> Option<(Wire, usize)> {
    let mut r = Rd { b, p: 0 };
    let n = r.u64()?;
    if n > 100_000 {
        return None;
    }
    let mut nodes = vec![];
    for _ in 0..n {
        nodes.push(r.i32()?);
    }
    let h = r.u64()?;
    if h > 100_000 {
        return None;
    }
    let mut holes = vec![];
    for _ in 0..h {
        holes.push(r.ix(w)?);
    }
    let prop = match r.u32()? {
        0 => 'u',
        1 => 'd',
        _ => 'x',
    };
    let m = r.u64()?;
    if m > 100_000 {
        return None;
    }
    let mut edges = vec![];
    for _ in 0..m {
        match r.take(1)?[0] {
            0 => edges.push(None),
            1 => {
                let a = r.ix(w)?;
                let c = r.ix(w)?;
                let x = r.i32()?;
                edges.push(Some((a, c, x)));
            }
            _ => return None,
        }
    }
    Some((Wire { nodes, holes, prop, edges }, r.p))
}

// ------------------------------------------------------------------------------------------------
// the case

struct Case<'a> {
    ctx: &'a mut Ctx,
    rng: Rng,
    next_slot: usize,
    jv_sorted: bool,
    /// the latest loaded graph of each target type, kept for `clone_from` into a graph with arbitrary prior content
    stash: Vec<(Target, usize, Box<dyn Obj>)>,
    /// statistics of the corner inputs reached (printed as a `stat` line at the end of the case)
    stat: Vec<&'static str>,
}

fn end_of(w: u32) -> u64 {
    match w {
        8 => 255,
        16 => 65535,
        64 => u64::MAX,
        _ => 4294967295,
    }
}

impl Case<'_> {
    fn weight(&mut self) -> i64 {
        self.rng.range(-3, 9)
    }

    /// an index argument: valid with probability ~0.87, else out of range (up to `end()`) or vacant
    fn node_arg(&mut self, g: &dyn Obj) -> i64 {
        let live = g.nodes();
        if g.kind() == 'M' {
            return if !live.is_empty() && !self.rng.chance(13) { *self.rng.pick(&live) } else { self.rng.range(-4, 12) };
        }
        let end = end_of(g.width()).min(i64::MAX as u64) as i64;
        let bound = g.bounds().0 as i64;
        if !live.is_empty() && !self.rng.chance(13) {
            *self.rng.pick(&live)
        } else {
            match self.rng.below(4) {
                0 => end,
                1 => (bound + self.rng.below(3) as i64).min(end),
                _ => (self.rng.below(bound as usize + 2) as i64).min(end), // possibly vacant
            }
        }
    }

    fn edge_arg(&mut self, g: &dyn Obj) -> i64 {
        let live = g.edges();
        let end = end_of(g.width()).min(i64::MAX as u64) as i64;
        let bound = g.bounds().1 as i64;
        if !live.is_empty() && !self.rng.chance(13) {
            self.rng.pick(&live).0
        } else {
            match self.rng.below(4) {
                0 => end,
                1 => (bound + self.rng.below(3) as i64).min(end),
                _ => (self.rng.below(bound as usize + 2) as i64).min(end),
            }
        }
    }

    /// one random mutating operation on slot `k`; returns whether it was a `remove_node` (after which the edge
    /// indices of a `Graph` are re-read from a dump)
    fn random_op(&mut self, k: usize, g: &mut dyn Obj, mix: &[u32; 4]) -> bool {
        if self.rng.chance(2) {
            // rarely used whole-graph operations: reverse (then remove), clear_edges, clear (then reuse); the clearing
            // ones not in a removal-heavy tail, so that the graph is built up again before it is serialized
            let may_clear = mix[0] >= 25;
            let name = if g.kind() == 'M' {
                if may_clear { "clear" } else { "" }
            } else if may_clear {
                *self.rng.pick(&["reverse", "reverse", "reverse", "reverse", "clear_edges", "clear"])
            } else {
                "reverse"
            };
            if !name.is_empty() {
                self.xop(k, g, name);
                return false;
            }
        }
        let which = self.rng.weighted(mix);
        let (name, args): (&str, Vec<i64>) = match which {
            0 => ("add_node", vec![self.weight()]),
            1 => {
                let a = self.node_arg(g);
                let b = if self.rng.chance(12) { a } else { self.node_arg(g) };
                ("add_edge", vec![a, b, self.weight()])
            }
            2 => ("remove_node", vec![self.node_arg(g)]),
            _ => {
                if g.kind() == 'M' {
                    let live = g.edges();
                    if !live.is_empty() && !self.rng.chance(15) {
                        let (a, b) = *self.rng.pick(&live);
                        if self.rng.chance(30) {
                            ("remove_edge", vec![b, a])
                        } else {
                            ("remove_edge", vec![a, b])
                        }
                    } else {
                        ("remove_edge", vec![self.node_arg(g), self.node_arg(g)])
                    }
                } else {
                    ("remove_edge", vec![self.edge_arg(g)])
                }
            }
        };
        let ans = g.op(name, &args);
        let req = format!("op {} {} {}", k, name, args.iter().map(|x| x.to_string()).collect::<Vec<_>>().join(" "));
        self.ctx.line(&req, &ans);
        name == "remove_node"
    }

    /// `reverse` / `clear` / `clear_edges`: the answer is the observation afterwards
    fn xop(&mut self, k: usize, g: &mut dyn Obj, name: &'static str) {
        let ans = g.op(name, &[]);
        self.ctx.line(&format!("x {} {}", k, name), &ans);
        self.stat.push(name);
    }

    fn laws(&mut self, k: usize, g: &dyn Obj) {
        let a = g.laws();
        self.ctx.line(&format!("law api {} {}", k, g.kind()), &a);
    }

    fn dump(&mut self, k: usize, g: &dyn Obj) {
        self.ctx.line(&format!("dump {}", k), &g.dump());
    }

    /// further use of a loaded graph: self check, the laws of the rarely used API, `clone` / `clone_from` (then both
    /// are mutated), >= 6 mutating operations with dumps (rarely `reverse` / `clear_edges` / `clear`), self check, the
    /// laws again, and sometimes a second serialization of the graph as it is then, loaded once more
    fn post_use(&mut self, t: Target, k: usize, g: &mut dyn Obj, depth: u32) {
        let a = g.op("check", &[]);
        self.ctx.line(&format!("op {} check", k), &a);
        let big = g.bounds().0 > 60 || g.bounds().1 > 60;
        if !big || self.rng.chance(25) {
            self.laws(k, g);
        }
        // clone_from into a graph with arbitrary prior content (the previous graph loaded into this type), then both
        // are used; clone, then the clone is used
        if !big && self.rng.chance(45) {
            if let Some(pos) = self.stash.iter().position(|x| x.0 == t) {
                let (_, j, mut h) = self.stash.remove(pos);
                if h.clone_from_obj(g) {
                    let d = h.dump();
                    self.ctx.line(&format!("clonefrom {} {}", k, j), &d);
                    self.stat.push("clone_from");
                    for _ in 0..2 {
                        self.random_op(j, h.as_mut(), &[30, 30, 20, 20]);
                        self.dump(j, h.as_ref());
                    }
                    self.dump(k, g);
                }
            }
        }
        if !big && self.rng.chance(20) {
            let j = self.next_slot;
            self.next_slot += 1;
            let mut h = g.clone_box();
            let d = h.dump();
            self.ctx.line(&format!("clone {} {}", k, j), &d);
            self.stat.push("clone");
            for _ in 0..2 {
                self.random_op(j, h.as_mut(), &[30, 30, 20, 20]);
                self.dump(j, h.as_ref());
            }
            self.dump(k, g);
        }
        let n = 6 + self.rng.below(5);
        for i in 0..n {
            // adds first, so that vacant indices are reused before anything else happens
            let mix: [u32; 4] = if i < 3 { [40, 40, 10, 10] } else { [25, 30, 20, 25] };
            let removed_node = self.random_op(k, g, &mix);
            if !big || i + 1 == n || removed_node {
                self.dump(k, g);
            }
        }
        let a = g.op("check", &[]);
        self.ctx.line(&format!("op {} check", k), &a);
        if !big && self.rng.chance(50) {
            self.laws(k, g);
        }
        // the graph as it is now goes through a serializer once more (a loaded graph is as good as a built one)
        if !big && depth == 0 && self.rng.chance(30) {
            self.stat.push("second-generation");
            self.reserialize(t, k, g);
        }
    }

    /// serialize slot `k` (a loaded and then mutated graph) through one route and load the stream into its own type
    fn reserialize(&mut self, t: Target, k: usize, g: &dyn Obj) {
        let tw = if t.kind == 'M' { 32 } else { t.w };
        match self.rng.below(3) {
            0 => {
                let val = g.to_value();
                let w = val.as_ref().and_then(|v| wire_of_value(v)).map(|x| x.0);
                self.ctx.line(&format!("ser {} jv", k), &match &w {
                    Some(w) => format!("ok {}", w.show()),
                    None => if val.is_some() { "undecodable".to_string() } else { "panic".to_string() },
                });
                if let (Some(v), Some(w)) = (&val, &w) {
                    let ord = value_order(v);
                    self.feed(t, "jv", &Input::Val(v), Some((w, ord)), Some(k), true, 1);
                }
            }
            1 => {
                let text = g.to_text();
                let w = text.as_ref().and_then(|t| serde_json::from_str::<Value>(t).ok()).and_then(|v| wire_of_value(&v)).map(|x| x.0);
                self.ctx.line(&format!("ser {} js", k), &match &text {
                    Some(t) if !t.chars().any(|ch| ch.is_whitespace()) => match &w {
                        Some(w) => format!("ok {} {}", t, w.show()),
                        None => format!("ok {}", t),
                    },
                    Some(_) => "text-with-white-space".to_string(),
                    None => "panic".to_string(),
                });
                if let (Some(s), Some(w)) = (&text, &w) {
                    self.feed(t, "js", &Input::Text(s), Some((w, "nhpe".into())), Some(k), true, 1);
                }
            }
            _ => {
                let bin = g.to_bin();
                self.ctx.line(&format!("ser {} bin", k), &match &bin {
                    Some(b) => format!("ok {}", hex(b)),
                    None => "panic".to_string(),
                });
                if let Some(b) = &bin {
                    if let Some((w, used)) = wire_of_bin(b, tw) {
                        if used == b.len() {
                            self.feed(t, "bin", &Input::Bin(b), Some((&w, "nhpe".into())), Some(k), true, 1);
                        }
                    }
                }
            }
        }
    }

    /// feed one stream to one target; emits a `de` line when the wire value is known, else a `blind` line
    fn feed(&mut self, t: Target, fmt: &str, inp: &Input, wire: Option<(&Wire, String)>, rt: Option<usize>, use_it: bool, depth: u32) {
        // the bytes / text that are fed, for the driver's transport check (the modelled readers of Spec/SerdeText.lean):
        // bincode always; JSON text when it is in the canonical field order and free of white space
        let src = match inp {
            Input::Bin(b) if b.len() <= 20_000 => format!(" hex={}", hex(b)),
            Input::Text(s) if wire.as_ref().map(|w| w.1 == "nhpe").unwrap_or(false) && !s.chars().any(|c| c.is_whitespace()) && s.len() <= 40_000 => {
                format!(" txt={}", s)
            }
            _ => String::new(),
        };
        let res = deser(t, inp);
        let (ans, obj) = match res {
            None => ("panic".to_string(), None),
            Some(Err(msg)) => (classify(&msg), None),
            Some(Ok(g)) => (format!("ok {}", g.dump()), Some(g)),
        };
        match wire {
            Some((w, ord)) => {
                let k = self.next_slot;
                self.next_slot += 1;
                let rts = rt.map(|x| x.to_string()).unwrap_or("-".into());
                self.ctx.line(&format!("de {} {} {} ord={} rt={} {}{}", k, t.words(), fmt, ord, rts, w.show(), src), &ans);
                if let Some(mut g) = obj {
                    // a structure with runaway lists is not used further (operations on it may not terminate)
                    if use_it && !ans.contains("RUNAWAY") {
                        self.post_use(t, k, g.as_mut(), depth);
                        // kept: the next graph loaded into this type is `clone_from`ed into it
                        self.stash.retain(|x| x.0 != t);
                        if g.bounds().0 <= 60 && g.bounds().1 <= 60 {
                            self.stash.push((t, k, g));
                        }
                    }
                }
            }
            None => self.ctx.line(&format!("blind {} {}", t.words(), fmt), &ans),
        }
    }

    fn feed_wire_value(&mut self, t: Target, w: &Wire, order: &str, rt: Option<usize>, use_it: bool) {
        // through serde_json::Value (key order is the map's own order)
        let text = wire_to_json(w, order);
        if let Ok(v) = serde_json::from_str::<Value>(&text) {
            let ord = value_order(&v);
            self.feed(t, "jv", &Input::Val(&v), Some((w, ord)), rt, use_it, 0);
        }
    }

    fn feed_wire_text(&mut self, t: Target, w: &Wire, order: &str, rt: Option<usize>, use_it: bool) {
        let text = wire_to_json(w, order);
        self.feed(t, "js", &Input::Text(&text), Some((w, order.to_string())), rt, use_it, 0);
    }

    fn feed_wire_bin(&mut self, t: Target, w: &Wire, rt: Option<usize>, use_it: bool) -> bool {
        let tw = if t.kind == 'M' { 32 } else { t.w };
        match wire_to_bin(w, tw) {
            Some(bytes) => {
                self.feed(t, "bin", &Input::Bin(&bytes), Some((w, "nhpe".into())), rt, use_it, 0);
                true
            }
            None => false,
        }
    }

    /// any JSON text: the wire value is recovered from the text when it has that shape
    fn feed_any_text(&mut self, t: Target, text: &str) {
        let known = serde_json::from_str::<Value>(text).ok().and_then(|v| {
            let (w, _, _) = wire_of_value(&v)?;
            let ord = key_order(text)?;
            Some((w, ord))
        });
        match known {
            Some((w, ord)) => self.feed(t, "js", &Input::Text(text), Some((&w, ord)), None, true, 0),
            None => self.feed(t, "js", &Input::Text(text), None, None, false, 0),
        }
    }

    fn feed_any_bin(&mut self, t: Target, bytes: &[u8]) {
        let tw = if t.kind == 'M' { 32 } else { t.w };
        match wire_of_bin(bytes, tw) {
            Some((w, _)) => self.feed(t, "bin", &Input::Bin(bytes), Some((&w, "nhpe".into())), None, true, 0),
            None => self.feed(t, "bin", &Input::Bin(bytes), None, None, false, 0),
        }
    }

    /// the corner inputs this case reached (a comment line for the statistics; the driver ignores `stat` lines)
    fn finish(&mut self) {
        let mut v = self.stat.clone();
        v.sort();
        v.dedup();
        let txt = list(v.iter());
        self.ctx.line("stat", &txt);
    }

    /// what the mirrored `i32` instantiation answers for this wire value: `Ok(dump)` / `Err(error class)`
    fn base_answer(&mut self, t: Target, w: &Wire, order: &str) -> Result<String, String> {
        let text = wire_to_json(w, order);
        match deser(t, &Input::Text(&text)) {
            None => Err("panic".into()),
            Some(Err(msg)) => Err(classify(&msg)),
            Some(Ok(g)) => Ok(g.dump()),
        }
    }

    /// one randomly chosen instantiation that the mirrored part does not use, on the wire value `w`
    fn inst_laws(&mut self, w: &Wire, order: &str) {
        let directed = match w.prop {
            'd' => !self.rng.chance(8),
            _ => self.rng.chance(8),
        };
        macro_rules! go {
            ($name:expr, $kind:expr, $width:expr, $N:ty, $E:ty, $T:ident < $($p:ty),* >, $dump:path) => {{
                let norm = Wire {
                    nodes: w.nodes.iter().map(|x| <$N as inst::Wt>::norm(*x as i32) as i64).collect(),
                    holes: w.holes.clone(),
                    prop: w.prop,
                    edges: w.edges.iter().map(|e| e.map(|(a, b, x)| (a, b, <$E as inst::Wt>::norm(x as i32) as i64))).collect(),
                };
                let base = self.base_answer(Target { kind: $kind, directed, w: $width }, &norm, order);
                let text = inst::wire_json::<$N, $E>(&w.nodes, &w.holes, w.prop, &w.edges, order);
                let r = if directed {
                    law_text(catch_msg(|| inst::inst_law::<$T<$N, $E, Directed $(, $p)*>, _>(&text, &base, |g| $dump(g))))
                } else {
                    law_text(catch_msg(|| inst::inst_law::<$T<$N, $E, Undirected $(, $p)*>, _>(&text, &base, |g| $dump(g))))
                };
                self.ctx.line(&format!("law inst {} {} ord={} {}", $name, if directed { "d" } else { "u" }, order, w.show()), &r);
            }};
        }
        type Fx = fxhash::FxBuildHasher;
        type Ah = ahash::RandomState;
        type Dh = std::hash::BuildHasherDefault<std::collections::hash_map::DefaultHasher>;
        // a wire whose numbers do not fit the index type cannot be printed for a narrower instantiation: JSON only
        match self.rng.below(13) {
            0 => go!("Graph<(),(),usize>", 'G', 64, (), (), Graph<usize>, inst::dump_g),
            1 => go!("Graph<f32,f64,u16>", 'G', 16, f32, f64, Graph<u16>, inst::dump_g),
            2 => go!("Graph<String,Option<i8>,u8>", 'G', 8, String, Option<i8>, Graph<u8>, inst::dump_g),
            3 => go!("Graph<(i16,u8),Vec<u8>,u32>", 'G', 32, (i16, u8), Vec<u8>, Graph<u32>, inst::dump_g),
            4 => go!("StableGraph<(),(),u8>", 'S', 8, (), (), StableGraph<u8>, inst::dump_s),
            5 => go!("StableGraph<f64,String,usize>", 'S', 64, f64, String, StableGraph<usize>, inst::dump_s),
            6 => go!("StableGraph<Option<i8>,(i16,u8),u16>", 'S', 16, Option<i8>, (i16, u8), StableGraph<u16>, inst::dump_s),
            7 => go!("StableGraph<i64,u64,u32>", 'S', 32, i64, u64, StableGraph<u32>, inst::dump_s),
            8 => go!("GraphMap<i32,f32,Fx>", 'M', 32, i32, f32, GraphMap<Fx>, inst::dump_m),
            9 => go!("GraphMap<u64,(),ahash>", 'M', 32, u64, (), GraphMap<Ah>, inst::dump_m),
            10 => go!("GraphMap<(i8,bool),String,DefaultHasher>", 'M', 32, (i8, bool), String, GraphMap<Dh>, inst::dump_m),
            11 => go!("GraphMap<char,Option<i8>,RandomState>", 'M', 32, char, Option<i8>, GraphMap<std::collections::hash_map::RandomState>, inst::dump_m),
            _ => go!("GraphMap<i32,i32,Fx>", 'M', 32, i32, i32, GraphMap<Fx>, inst::dump_m),
        }
        self.stat.push("inst");
    }

    fn random_order(&mut self) -> String {
        let mut v = vec!['n', 'h', 'p', 'e'];
        match self.rng.below(10) {
            0..=3 => {}
            4..=6 => self.rng.shuffle(&mut v),
            7 => {
                self.rng.shuffle(&mut v);
                let i = self.rng.below(5);
                v.insert(i, 'x');
            }
            8 => v.retain(|c| *c != 'h'),
            _ => {
                // a required field is missing
                let drop = *self.rng.pick(&['n', 'p', 'e']);
                v.retain(|c| *c != drop);
                self.rng.shuffle(&mut v);
            }
        }
        v.into_iter().collect()
    }

    /// structure-aware mutation of a wire value
    fn mutate_wire(&mut self, w0: &Wire, tw: u32) -> Wire {
        let mut w = w0.clone();
        let end = end_of(tw);
        let total = w.total() as u64;
        for _ in 0..(1 + self.rng.below(2)) {
            let total = w.total() as u64;
            let some_edges: Vec<usize> = (0..w.edges.len()).filter(|i| w.edges[*i].is_some()).collect();
            match self.rng.below(21) {
                0 | 1 => {
                    // an edge endpoint becomes a declared hole / a new hole is declared at an endpoint
                    if let Some(&i) = some_edges.get(self.rng.below(some_edges.len().max(1))) {
                        let (a, b, x) = w.edges[i].unwrap();
                        if !w.holes.is_empty() && self.rng.chance(50) {
                            let h = *self.rng.pick(&w.holes);
                            w.edges[i] = Some(if self.rng.chance(50) { (h, b, x) } else { (a, h, x) });
                        } else {
                            // vacate the endpoint: position `v` becomes a hole, its weight is dropped
                            let v = if self.rng.chance(50) { a } else { b };
                            if !w.holes.contains(&v) && v < total {
                                let rank = (0..v).filter(|p| !w.holes.contains(p)).count();
                                if rank < w.nodes.len() {
                                    w.nodes.remove(rank);
                                    w.holes.push(v);
                                    w.holes.sort();
                                }
                            }
                        }
                    }
                }
                2 => {
                    // endpoint out of range
                    if let Some(&i) = some_edges.get(self.rng.below(some_edges.len().max(1))) {
                        let (a, b, x) = w.edges[i].unwrap();
                        let bad = match self.rng.below(5) {
                            0 => total,
                            1 => total + 1 + self.rng.below(3) as u64,
                            2 => end,
                            3 => end.saturating_add(1 + self.rng.below(40) as u64),
                            _ => end - 1,
                        };
                        w.edges[i] = Some(if self.rng.chance(50) { (bad, b, x) } else { (a, bad, x) });
                    }
                }
                3 => {
                    // duplicate hole
                    if !w.holes.is_empty() {
                        let i = self.rng.below(w.holes.len());
                        let h = w.holes[i];
                        w.holes.insert(i, h);
                    } else {
                        let h = self.rng.below(total as usize + 1) as u64;
                        w.holes = vec![h, h];
                    }
                }
                4 => {
                    // unsorted holes
                    if w.holes.len() >= 2 {
                        let i = self.rng.below(w.holes.len() - 1);
                        w.holes.swap(i, i + 1);
                    } else {
                        w.holes = vec![2, 1];
                    }
                }
                5 => {
                    // hole out of range / beyond the nodes
                    let h = match self.rng.below(5) {
                        0 => total,
                        1 => total + 1,
                        2 => total + 2 + self.rng.below(4) as u64,
                        3 => end,
                        _ => end.saturating_add(1 + self.rng.below(9) as u64),
                    };
                    if self.rng.chance(50) {
                        w.holes.push(h);
                    } else {
                        w.holes.insert(0, h);
                    }
                }
                6 => {
                    // additional (valid) holes: in the middle or trailing
                    let t = w.total() as u64;
                    if self.rng.chance(50) {
                        w.holes.push(t);
                        if self.rng.chance(40) {
                            w.holes.push(t + 1);
                        }
                    } else {
                        let h = self.rng.below(t as usize + 1) as u64;
                        if !w.holes.contains(&h) {
                            w.holes.push(h);
                            w.holes.sort();
                        }
                    }
                }
                7 => {
                    w.prop = match (w.prop, self.rng.below(3)) {
                        (_, 0) => 'x',
                        ('d', _) => 'u',
                        _ => 'd',
                    }
                }
                8 => {
                    // null edges
                    let i = self.rng.below(w.edges.len() + 1);
                    w.edges.insert(i, None);
                    if self.rng.chance(30) {
                        w.edges.push(None);
                    }
                }
                9 => {
                    // an edge becomes null
                    if let Some(&i) = some_edges.get(self.rng.below(some_edges.len().max(1))) {
                        w.edges[i] = None;
                    }
                }
                10 => {
                    // nodes removed from the compact list (endpoints may dangle, holes may lack nodes in front)
                    let k = 1 + self.rng.below(2);
                    for _ in 0..k {
                        if !w.nodes.is_empty() {
                            let i = self.rng.below(w.nodes.len());
                            w.nodes.remove(i);
                        }
                    }
                }
                11 => {
                    // holes dropped: live nodes shift
                    if !w.holes.is_empty() {
                        let i = self.rng.below(w.holes.len());
                        w.holes.remove(i);
                    } else {
                        w.nodes.push(self.weight());
                    }
                }
                12 => {
                    // a new edge between arbitrary positions (possibly holes), self loops and parallels included
                    let t = w.total().max(1);
                    let a = self.rng.below(t) as u64;
                    let b = if self.rng.chance(25) { a } else { self.rng.below(t) as u64 };
                    let i = self.rng.below(w.edges.len() + 1);
                    w.edges.insert(i, Some((a, b, self.weight())));
                }
                13 if tw == 8 => {
                    // oversize node count for u8
                    let want = [253usize, 254, 255, 256, 300][self.rng.below(5)];
                    if self.rng.chance(60) {
                        while w.total() < want {
                            w.nodes.push(self.weight());
                        }
                    } else {
                        while w.total() < want {
                            let t = w.total() as u64;
                            if self.rng.chance(50) {
                                w.holes.push(t);
                            } else {
                                w.nodes.push(1);
                            }
                        }
                    }
                }
                14 if tw == 8 => {
                    // oversize edge count for u8
                    let want = [253usize, 254, 255, 256, 280][self.rng.below(5)];
                    let t = w.total() as u64;
                    while w.edges.len() < want {
                        if t > 0 && self.rng.chance(85) {
                            let a = self.rng.below(t as usize) as u64;
                            let b = self.rng.below(t as usize) as u64;
                            w.edges.push(Some((a, b, 1)));
                        } else {
                            w.edges.push(None);
                        }
                    }
                }
                16 | 17 => {
                    // BOTH endpoints of an edge are the same position that is not a node: a self-loop on a node that
                    // does not exist (one past the end, far beyond, the index type's end value, a declared hole, a
                    // freshly vacated position); on an existing edge or on a new one
                    self.stat.push("mut:absent-self-loop");
                    let bad = match self.rng.below(7) {
                        0 | 1 => total,
                        2 => total + 1 + self.rng.below(3) as u64,
                        3 => end,
                        4 => end - 1,
                        5 if !w.holes.is_empty() => *self.rng.pick(&w.holes),
                        _ => {
                            // vacate a live position and put the loop there
                            let v = self.rng.below(total as usize + 1) as u64;
                            if !w.holes.contains(&v) && v < total {
                                let rank = (0..v).filter(|p| !w.holes.contains(p)).count();
                                if rank < w.nodes.len() {
                                    w.nodes.remove(rank);
                                    w.holes.push(v);
                                    w.holes.sort();
                                }
                            }
                            v
                        }
                    };
                    let x = self.weight();
                    match some_edges.get(self.rng.below(some_edges.len().max(1))) {
                        Some(&i) if self.rng.chance(50) => w.edges[i] = Some((bad, bad, x)),
                        _ => {
                            let i = self.rng.below(w.edges.len() + 1);
                            w.edges.insert(i, Some((bad, bad, x)));
                        }
                    }
                }
                18 => {
                    // self-loops together with parallel edges, in both orientations, on one pair of positions
                    self.stat.push("mut:loops+parallels");
                    let t = w.total().max(1);
                    let a = self.rng.below(t) as u64;
                    let b = self.rng.below(t) as u64;
                    for (p, q) in [(a, b), (a, b), (b, a), (a, a), (a, a), (b, b)] {
                        if self.rng.chance(70) {
                            let i = self.rng.below(w.edges.len() + 1);
                            w.edges.insert(i, Some((p, q, self.weight())));
                        }
                    }
                }
                19 => {
                    // the same node weight given twice or more (one key of a GraphMap), its edges then coincide
                    self.stat.push("mut:duplicate-node");
                    if w.nodes.len() >= 2 {
                        let i = self.rng.below(w.nodes.len());
                        for _ in 0..(1 + self.rng.below(2)) {
                            let j = self.rng.below(w.nodes.len());
                            w.nodes[j] = w.nodes[i];
                        }
                    } else {
                        w.nodes.push(5);
                        w.nodes.push(5);
                    }
                }
                20 => {
                    // weights at the ends of their type
                    self.stat.push("mut:extreme-weight");
                    let ext = [i32::MIN as i64, i32::MAX as i64, -1, 0];
                    if !w.nodes.is_empty() {
                        let i = self.rng.below(w.nodes.len());
                        w.nodes[i] = *self.rng.pick(&ext);
                    }
                    if let Some(&i) = some_edges.get(self.rng.below(some_edges.len().max(1))) {
                        let (a, b, _) = w.edges[i].unwrap();
                        w.edges[i] = Some((a, b, *self.rng.pick(&ext)));
                    }
                }
                _ => {
                    // swap two edges' endpoints / reverse an edge
                    if let Some(&i) = some_edges.get(self.rng.below(some_edges.len().max(1))) {
                        let (a, b, x) = w.edges[i].unwrap();
                        w.edges[i] = Some((b, a, (x + 1).min(i32::MAX as i64)));
                    }
                }
            }
        }
        w
    }

    /// a JSON value whose types are wrong somewhere
    fn mutate_types(&mut self, v: &Value) -> Value {
        fn paths(v: &Value, cur: &mut Vec<String>, out: &mut Vec<Vec<String>>) {
            out.push(cur.clone());
            match v {
                Value::Object(o) => {
                    for (k, x) in o {
                        cur.push(k.clone());
                        paths(x, cur, out);
                        cur.pop();
                    }
                }
                Value::Array(a) => {
                    for (i, x) in a.iter().enumerate().take(12) {
                        cur.push(i.to_string());
                        paths(x, cur, out);
                        cur.pop();
                    }
                }
                _ => {}
            }
        }
        let mut all = vec![];
        paths(v, &mut vec![], &mut all);
        let p = self.rng.pick(&all).clone();
        let repl = match self.rng.below(9) {
            0 => Value::Null,
            1 => Value::String("x".into()),
            2 => serde_json::json!(1.5),
            3 => serde_json::json!(-1),
            4 => serde_json::json!([[]]),
            5 => serde_json::json!({"nodes": []}),
            6 => serde_json::json!(true),
            7 => serde_json::json!(4294967296u64),
            _ => serde_json::json!([0, 0]),
        };
        let mut out = v.clone();
        let mut cur = &mut out;
        for seg in &p {
            cur = match cur {
                Value::Object(o) => o.get_mut(seg).unwrap(),
                Value::Array(a) => &mut a[seg.parse::<usize>().unwrap()],
                _ => unreachable!(),
            };
        }
        *cur = repl;
        out
    }

    fn mutate_bytes(&mut self, b: &[u8], json: bool) -> Vec<u8> {
        let mut v = b.to_vec();
        let n = 1 + self.rng.below(3);
        for _ in 0..n {
            if v.is_empty() {
                v.push(self.rng.below(256) as u8);
                continue;
            }
            let i = self.rng.below(v.len());
            match self.rng.below(9) {
                0 => v.truncate(i),
                1 => {
                    v[i] ^= 1 << self.rng.below(8);
                }
                2 => {
                    v[i] = if json { *self.rng.pick(b"0123456789,[]{}:\"-nul ") } else { self.rng.below(256) as u8 };
                }
                3 => {
                    v.remove(i);
                }
                4 => {
                    let c = if json { *self.rng.pick(b"0123456789,[]{}:\"-nul ") } else { self.rng.below(256) as u8 };
                    v.insert(i, c);
                }
                5 => {
                    // duplicate a chunk
                    let l = 1 + self.rng.below(8.min(v.len() - i));
                    let chunk: Vec<u8> = v[i..i + l].to_vec();
                    let at = self.rng.below(v.len() + 1);
                    for (o, c) in chunk.into_iter().enumerate() {
                        v.insert((at + o).min(v.len()), c);
                    }
                }
                6 => {
                    // small value change
                    v[i] = if json && v[i].is_ascii_digit() { b'0' + self.rng.below(10) as u8 } else { v[i].wrapping_add(1) };
                }
                7 => {
                    v[i] = if json { b'9' } else { 0xff };
                }
                _ => {
                    v[i] = if json { b'0' } else { 0 };
                }
            }
        }
        v
    }
}

fn pick_target(rng: &mut Rng, base: Target, same_dir_pct: u32) -> Target {
    let kind = *rng.pick(&['G', 'S', 'S', 'G', 'M']);
    let directed = if rng.chance(same_dir_pct) { base.directed } else { !base.directed };
    let w = if kind == 'M' { 32 } else { *rng.pick(&[8u32, 8, 16, 16, 32, 32, 64]) };
    Target { kind, directed, w }
}

/// safety net: cap this process's address space at 4 GB (the box is shared; a broken petgraph under test could
/// otherwise make a loop allocate without bound)
fn limit_memory() {
    #[repr(C)]
    struct Rlimit {
        cur: u64,
        max: u64,
    }
    extern "C" {
        fn setrlimit(resource: i32, rlim: *const Rlimit) -> i32;
    }
    static ONCE: std::sync::Once = std::sync::Once::new();
    ONCE.call_once(|| {
        let lim = Rlimit { cur: 4 << 30, max: 4 << 30 };
        // RLIMIT_AS = 9 on Linux
        unsafe {
            setrlimit(9, &lim);
        }
    });
}

static PROGRESS: std::sync::atomic::AtomicU64 = std::sync::atomic::AtomicU64::new(0);

/// safety net: an operation on a structure corrupted by a broken petgraph may never return (cyclic edge list);
/// if no case finishes within 90 s the process gives up (exit 3: the check reports the run as failed, the lines
/// flushed so far are still judged)
fn watchdog() {
    static ONCE: std::sync::Once = std::sync::Once::new();
    ONCE.call_once(|| {
        std::thread::spawn(|| {
            let mut last = PROGRESS.load(std::sync::atomic::Ordering::Relaxed);
            loop {
                std::thread::sleep(std::time::Duration::from_secs(90));
                let now = PROGRESS.load(std::sync::atomic::Ordering::Relaxed);
                if now == last {
                    eprintln!("C17 harness: a call into petgraph did not return within 90 s (case #{} of this shard)", now);
                    std::process::exit(3);
                }
                last = now;
            }
        });
    });
}

pub fn run(ctx: &mut Ctx, case: u64) {
    limit_memory();
    watchdog();
    PROGRESS.fetch_add(1, std::sync::atomic::Ordering::Relaxed);
    // a panic of the harness's own code (not of petgraph: those are caught per call) must not pass silently
    if let Err(msg) = catch_msg(|| run_inner(ctx, case)) {
        eprintln!("C17 harness bug in case {}: {}", case, msg);
        ctx.line("harness-panic", &msg.replace('\n', " "));
    }
}

fn run_inner(ctx: &mut Ctx, case: u64) {
    let mut rng = Rng::for_case(ctx.seed, "C17", case);
    let thorough = ctx.tier_thorough;
    // family: 0 = ordinary history, 1 = u8 capacity, 2 = tiny / empty, 3 = hand-shaped corners (the empty graph, a
    // single node, one node with parallel self-loops, two nodes with parallel edges in both orientations, a graph
    // that is cleared and reused, one that is reversed and then loses a node), 4 = u16 at its capacity (streams only)
    let family = match rng.below(100) {
        0..=3 => 1,
        4..=9 => 2,
        10..=14 => 3,
        15 if thorough && case % 8 == 0 => 4,
        _ => 0,
    };
    let kind = if family == 1 { *rng.pick(&['G', 'S']) } else if family == 4 { 'S' } else { *rng.pick(&['S', 'S', 'S', 'G', 'G', 'M']) };
    let directed = rng.chance(55);
    let w = if kind == 'M' {
        32
    } else if family == 1 {
        8
    } else if family == 4 {
        16
    } else {
        *rng.pick(&[8u32, 8, 8, 16, 16, 32, 32, 64])
    };
    let base = Target { kind, directed, w };
    // the build profile is part of the case: `check_free_lists`, the `collect_seq_with_length` assertion and the
    // overflow checks exist in debug builds only
    let profile = if cfg!(debug_assertions) { "debug" } else { "release" };
    ctx.raw(&format!("case {} family={} {} profile={}", case, family, base.words().replace(' ', ""), profile));
    let jv_sorted = {
        let v: Value = serde_json::from_str("{\"nodes\":[],\"edges\":[]}").unwrap();
        value_order(&v) == "en"
    };
    let mut c = Case { ctx, rng, next_slot: 1, jv_sorted, stash: vec![], stat: vec![] };
    let _ = c.jv_sorted;
    let mut g = make(base);
    c.ctx.line(&format!("new 0 {}", base.words()), "ok");

    // ---- history
    match family {
        1 => {
            // fill a u8 graph to (or next to) the capacity of its index type: 255 nodes and/or 255 edges
            let nn = [254usize, 255, 255, 253][c.rng.below(4)];
            let ne = if c.rng.chance(50) { [254usize, 255, 255, 30][c.rng.below(4)] } else { 12 };
            let mut removed = 0;
            for i in 0..nn {
                let wt = c.weight();
                let a = g.op("add_node", &[wt]);
                c.ctx.line(&format!("op 0 add_node {}", wt), &a);
                if base.kind == 'S' && i > 3 && removed < 6 && c.rng.chance(3) {
                    let x = c.node_arg(g.as_ref());
                    let a = g.op("remove_node", &[x]);
                    c.ctx.line(&format!("op 0 remove_node {}", x), &a);
                    removed += 1;
                    // vacancies are reused by the adds that follow
                    let wt = c.weight();
                    let a = g.op("add_node", &[wt]);
                    c.ctx.line(&format!("op 0 add_node {}", wt), &a);
                }
                if i % 64 == 63 {
                    c.dump(0, g.as_ref());
                }
            }
            for i in 0..ne {
                let (a, b, wt) = (c.node_arg(g.as_ref()), c.node_arg(g.as_ref()), c.weight());
                let r = g.op("add_edge", &[a, b, wt]);
                c.ctx.line(&format!("op 0 add_edge {} {} {}", a, b, wt), &r);
                if i % 64 == 63 {
                    c.dump(0, g.as_ref());
                }
            }
            // one more of each: the capacity errors themselves
            if c.rng.chance(50) {
                let r = g.op("add_node", &[1]);
                c.ctx.line("op 0 add_node 1", &r);
                let (a, b) = (c.node_arg(g.as_ref()), c.node_arg(g.as_ref()));
                let r = g.op("add_edge", &[a, b, 1]);
                c.ctx.line(&format!("op 0 add_edge {} {} 1", a, b), &r);
            }
            c.dump(0, g.as_ref());
        }
        3 => {
            // hand-shaped corners; every step is an ordinary protocol line
            let shape = c.rng.below(6);
            c.stat.push(["shape:empty", "shape:single-node", "shape:parallel-self-loops", "shape:parallel-both-ways", "shape:clear-reuse", "shape:reverse-remove"][shape]);
            let op = |c: &mut Case, g: &mut dyn Obj, name: &str, args: &[i64]| {
                let a = g.op(name, args);
                c.ctx.line(&format!("op 0 {} {}", name, args.iter().map(|x| x.to_string()).collect::<Vec<_>>().join(" ")).trim_end().to_string(), &a);
                c.dump(0, g);
            };
            // node names: indices for Graph / StableGraph, keys for GraphMap (the same numbers)
            match shape {
                0 => {}
                1 => op(&mut c, g.as_mut(), "add_node", &[0]),
                2 => {
                    op(&mut c, g.as_mut(), "add_node", &[0]);
                    for x in 0..(2 + c.rng.below(3) as i64) {
                        op(&mut c, g.as_mut(), "add_edge", &[0, 0, x]);
                    }
                }
                3 => {
                    op(&mut c, g.as_mut(), "add_node", &[0]);
                    op(&mut c, g.as_mut(), "add_node", &[1]);
                    for (a, b) in [(0, 1), (1, 0), (0, 1), (1, 1), (0, 0), (1, 0)] {
                        if c.rng.chance(80) {
                            let x = c.weight();
                            op(&mut c, g.as_mut(), "add_edge", &[a, b, x]);
                        }
                    }
                }
                4 => {
                    for i in 0..4 {
                        op(&mut c, g.as_mut(), "add_node", &[i]);
                    }
                    for (a, b) in [(0, 1), (1, 2), (2, 2), (3, 0)] {
                        op(&mut c, g.as_mut(), "add_edge", &[a, b, 1]);
                    }
                    if base.kind != 'M' && c.rng.chance(50) {
                        op(&mut c, g.as_mut(), "remove_node", &[1]);
                    }
                    c.xop(0, g.as_mut(), "clear");
                    for i in 0..3 {
                        op(&mut c, g.as_mut(), "add_node", &[i + 5]);
                    }
                    let (p, q) = if base.kind == 'M' { (5, 7) } else { (0, 2) };
                    op(&mut c, g.as_mut(), "add_edge", &[p, q, 2]);
                    op(&mut c, g.as_mut(), "add_edge", &[q, q, 3]);
                }
                _ => {
                    for i in 0..4 {
                        op(&mut c, g.as_mut(), "add_node", &[i]);
                    }
                    for (a, b) in [(0, 1), (1, 2), (2, 2), (3, 0), (0, 1)] {
                        op(&mut c, g.as_mut(), "add_edge", &[a, b, a + b]);
                    }
                    if base.kind != 'M' {
                        op(&mut c, g.as_mut(), "remove_node", &[3]);
                        op(&mut c, g.as_mut(), "remove_edge", &[1]);
                        c.xop(0, g.as_mut(), "reverse");
                        op(&mut c, g.as_mut(), "remove_node", &[1]);
                        op(&mut c, g.as_mut(), "add_node", &[9]);
                        op(&mut c, g.as_mut(), "add_edge", &[0, 2, 4]);
                        c.xop(0, g.as_mut(), "reverse");
                        if c.rng.chance(50) {
                            c.xop(0, g.as_mut(), "clear_edges");
                            op(&mut c, g.as_mut(), "add_edge", &[2, 0, 5]);
                        }
                    } else {
                        op(&mut c, g.as_mut(), "remove_node", &[3]);
                        op(&mut c, g.as_mut(), "remove_edge", &[1, 0]);
                    }
                }
            }
        }
        4 => {
            // a small u16 StableGraph; the capacity streams are made from its wire value below
            for i in 0..3 {
                let a = g.op("add_node", &[i]);
                c.ctx.line(&format!("op 0 add_node {}", i), &a);
            }
            let a = g.op("add_edge", &[0, 2, 1]);
            c.ctx.line("op 0 add_edge 0 2 1", &a);
            c.dump(0, g.as_ref());
        }
        _ => {
            let nops = if family == 2 { c.rng.below(4) } else { 6 + c.rng.below(if thorough { 60 } else { 34 }) };
            let warm = if family == 2 { 0 } else { 3 + c.rng.below(5) };
            // half of the histories end in a removal-heavy tail (vacancies, also trailing ones, survive into the
            // serialization), the others keep growing so that the graph that is serialized has edges
            let heavy_tail = c.rng.chance(50);
            for i in 0..nops {
                let mix: [u32; 4] = if i < warm {
                    [75, 25, 0, 0]
                } else if i * 3 < nops * 2 {
                    [27, 45, 11, 17]
                } else if heavy_tail {
                    [12, 22, 30, 36]
                } else {
                    [22, 44, 14, 20]
                };
                c.random_op(0, g.as_mut(), &mix);
                c.dump(0, g.as_ref());
            }
            if family != 2 && c.rng.chance(35) && base.kind != 'M' {
                // trailing vacancies: remove the last node(s) / edge(s)
                for _ in 0..(1 + c.rng.below(2)) {
                    if let Some(&last) = g.nodes().last() {
                        if c.rng.chance(50) {
                            let a = g.op("remove_node", &[last]);
                            c.ctx.line(&format!("op 0 remove_node {}", last), &a);
                            c.dump(0, g.as_ref());
                        }
                    }
                    if let Some(&(last, _)) = g.edges().last() {
                        let a = g.op("remove_edge", &[last]);
                        c.ctx.line(&format!("op 0 remove_edge {}", last), &a);
                        c.dump(0, g.as_ref());
                    }
                }
            }
        }
    }
    let a = g.op("check", &[]);
    c.ctx.line("op 0 check", &a);
    if (g.bounds().0 <= 60 && g.bounds().1 <= 60) || c.rng.chance(30) {
        c.laws(0, g.as_ref());
    }
    // the serde impls of NodeIndex / EdgeIndex / Direction on their own
    {
        let vals: Vec<usize> = (0..3).map(|_| c.rng.below(70000)).collect();
        let r = law_text(catch_msg(|| inst::index_law(&vals)));
        c.ctx.line(&format!("law index-serde {}", list(vals.iter())), &r);
    }

    // ---- serialization: the wire value through three routes
    let src_w = if base.kind == 'M' { 32 } else { base.w };
    let val = g.to_value();
    let text = g.to_text();
    let bin = g.to_bin();
    let w_val = val.as_ref().and_then(|v| wire_of_value(v)).map(|x| x.0);
    let w_text = text.as_ref().and_then(|t| serde_json::from_str::<Value>(t).ok()).and_then(|v| wire_of_value(&v)).map(|x| x.0);
    let text_order_ok = text.as_ref().map(|t| key_order(t) == Some("nhpe".to_string())).unwrap_or(false);
    let w_bin = bin.as_ref().and_then(|b| wire_of_bin(b, src_w)).and_then(|(w, used)| if used == bin.as_ref().unwrap().len() { Some(w) } else { None });
    let show = |r: &Option<Wire>, produced: bool| match r {
        Some(w) => format!("ok {}", w.show()),
        None => if produced { "undecodable".to_string() } else { "panic".to_string() },
    };
    c.ctx.line("ser 0 jv", &show(&w_val, val.is_some()));
    // the JSON text and the bincode bytes themselves: the driver reads them with the modelled readers and compares them
    // with the modelled printers' output for the mirror model's wire value
    let _ = text_order_ok;
    c.ctx.line(
        "ser 0 js",
        &match &text {
            // the text, and the harness's own reading of it (used by the driver only when the text is not in the
            // canonical grammar its reader models, e.g. after a harmless change of the field order)
            Some(t) if !t.chars().any(|ch| ch.is_whitespace()) => match &w_text {
                Some(w) => format!("ok {} {}", t, w.show()),
                None => format!("ok {}", t),
            },
            Some(_) => "text-with-white-space".to_string(),
            None => "panic".to_string(),
        },
    );
    c.ctx.line(
        "ser 0 bin",
        &match &bin {
            Some(b) => format!("ok {}", hex(b)),
            None => "panic".to_string(),
        },
    );
    let wire = match w_val.or(w_text).or(w_bin) {
        Some(w) => w,
        None => return,
    };

    if family == 4 {
        // u16 at and one past its capacity: 65535 / 65536 nodes or edges (the streams only: they are refused; at exactly
        // 65535 that is the recorded finding D20)
        for (nn, ne) in [(65535usize, 1usize), (65536, 1), (3, 65535), (3, 65536)] {
            let mut m = wire.clone();
            while m.nodes.len() < nn {
                m.nodes.push((m.nodes.len() % 7) as i64);
            }
            while m.edges.len() < ne {
                m.edges.push(Some((0, 2, 1)));
            }
            let t = Target { kind: *c.rng.pick(&['S', 'G']), directed, w: 16 };
            c.stat.push("u16-capacity-stream");
            if c.rng.chance(50) {
                c.feed_wire_bin(t, &m, None, false);
            } else {
                c.feed_wire_text(t, &m, "nhpe", None, false);
            }
        }
        c.finish();
        return;
    }

    // ---- round trips into the same type and cross-loading
    let big = wire.total() > 60 || wire.edges.len() > 60;
    let same = base;
    let mut targets: Vec<(Target, usize)> = vec![(same, c.rng.below(3))];
    let extra = if big { 2 } else { 3 + c.rng.below(3) };
    for _ in 0..extra {
        let t = pick_target(&mut c.rng, base, 85);
        targets.push((t, c.rng.below(3)));
    }
    if big {
        // capacity cases: always the u8 targets of both kinds, and a wider one
        targets.push((Target { kind: 'G', directed, w: 8 }, c.rng.below(3)));
        targets.push((Target { kind: 'S', directed, w: 8 }, c.rng.below(3)));
        targets.push((Target { kind: 'S', directed, w: 16 }, 0));
    }
    for (t, route) in targets {
        match route {
            0 => {
                if let Some(v) = &val {
                    let ord = value_order(v);
                    c.feed(t, "jv", &Input::Val(v), Some((&wire, ord)), Some(0), true, 0);
                }
            }
            1 => {
                if let Some(s) = &text {
                    c.feed(t, "js", &Input::Text(s), Some((&wire, "nhpe".into())), Some(0), true, 0);
                }
            }
            _ => {
                let tw = if t.kind == 'M' { 32 } else { t.w };
                if tw == src_w {
                    if let Some(b) = &bin {
                        c.feed(t, "bin", &Input::Bin(b), Some((&wire, "nhpe".into())), Some(0), true, 0);
                    }
                } else if !c.feed_wire_bin(t, &wire, Some(0), true) {
                    c.feed_wire_text(t, &wire, "nhpe", Some(0), true);
                }
            }
        }
    }
    // ---- other shapes of the same stream: pretty-printed JSON text (white space), bincode with trailing bytes
    if !big {
        if let Some(v) = &val {
            if let Ok(pretty) = serde_json::to_string_pretty(v) {
                if let Some(ord) = key_order(&pretty) {
                    c.stat.push("pretty-json");
                    c.feed(same, "js", &Input::Text(&pretty), Some((&wire, ord)), Some(0), false, 0);
                }
            }
        }
        if let Some(b) = &bin {
            let mut b2 = b.clone();
            for _ in 0..(1 + c.rng.below(6)) {
                b2.push(c.rng.below(256) as u8);
            }
            c.stat.push("bincode-trailing-bytes");
            c.feed(same, "bin", &Input::Bin(&b2), Some((&wire, "nhpe".into())), Some(0), false, 0);
        }
    }
    if big && !thorough {
        // keep capacity cases short: a few structure-aware mutants only
        for _ in 0..2 {
            let t = Target { kind: *c.rng.pick(&['S', 'G']), directed, w: 8 };
            let m = c.mutate_wire(&wire, 8);
            if !c.feed_wire_bin(t, &m, None, false) {
                c.feed_wire_text(t, &m, "nhpe", None, false);
            }
        }
        c.finish();
        return;
    }

    // ---- structure-aware mutations of the wire value
    let nmut = 4 + c.rng.below(4);
    for _ in 0..nmut {
        let t = if c.rng.chance(55) {
            Target { kind: 'S', directed: if c.rng.chance(92) { directed } else { !directed }, w: if c.rng.chance(70) { src_w.min(if base.kind == 'M' { 8 } else { 32 }) } else { *c.rng.pick(&[8u32, 16, 32]) } }
        } else {
            pick_target(&mut c.rng, base, 92)
        };
        let tw = if t.kind == 'M' { 32 } else { t.w };
        let m = c.mutate_wire(&wire, tw);
        let order = c.random_order();
        let use_it = m.total() <= 80 && m.edges.len() <= 80;
        match c.rng.below(3) {
            0 => c.feed_wire_value(t, &m, &order, None, use_it),
            1 => c.feed_wire_text(t, &m, &order, None, use_it),
            _ => {
                if !c.feed_wire_bin(t, &m, None, use_it) {
                    c.feed_wire_text(t, &m, &order, None, use_it);
                }
            }
        }
    }

    // ---- the instantiations that are not mirrored: other weight types, usize, other hashers (laws against the i32 one)
    for round in 0..3 {
        let (m, order) = if round == 0 {
            (wire.clone(), "nhpe".to_string())
        } else {
            let tw = *c.rng.pick(&[8u32, 16, 32, 64]);
            let m = c.mutate_wire(&wire, tw);
            (m, c.random_order())
        };
        if m.total() <= 80 && m.edges.len() <= 80 {
            c.inst_laws(&m, &order);
        }
    }
    if c.rng.chance(10) {
        let n = wire.total().min(12);
        let es: Vec<(usize, usize)> = wire.edges.iter().flatten().take(16).map(|e| (e.0 as usize, e.1 as usize)).collect();
        let r = law_text(catch_msg(|| if directed { inst::float_law::<Directed>(n, &es) } else { inst::float_law::<Undirected>(n, &es) }));
        c.ctx.line(&format!("law float-weights {} {}", n, es.len()), &r);
    }

    // ---- wrong types
    if let Some(v) = &val {
        for _ in 0..2 {
            let t = pick_target(&mut c.rng, base, 95);
            let m = c.mutate_types(v);
            let s = serde_json::to_string(&m).unwrap();
            c.feed_any_text(t, &s);
        }
    }

    // ---- blind byte mutations / truncations
    if let Some(s) = &text {
        for _ in 0..4 {
            let t = pick_target(&mut c.rng, base, 95);
            let m = c.mutate_bytes(s.as_bytes(), true);
            if let Ok(ms) = String::from_utf8(m) {
                c.feed_any_text(t, &ms);
            }
        }
    }
    if let Some(b) = &bin {
        for _ in 0..5 {
            let t = if c.rng.chance(70) { Target { kind: *c.rng.pick(&['S', 'G', 'S']), directed, w: src_w } } else { pick_target(&mut c.rng, base, 95) };
            let m = c.mutate_bytes(b, false);
            c.feed_any_bin(t, &m);
        }
    }
    c.finish();
}
