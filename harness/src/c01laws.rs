//! C01 — laws checked in the harness against the implementation itself (wave 6: the corners of the API).
//!
//! Every function returns `None` when the law holds and `Some(why)` otherwise; `c01.rs` prints
//! `law <name> … => ok | VIOLATED <why>` and the driver expects `ok` (anything else is a SPECFAIL with the
//! history that led to the graph as the failing input).  The laws cover the public items of `Graph` that
//! have no state of their own in the mirror model: every iterator struct consumed in every way the
//! `Iterator` / `DoubleEndedIterator` / `ExactSizeIterator` contracts allow (fresh and mid-iteration),
//! `Clone::clone_from` onto an arbitrary prior graph, `Node`/`Edge` clones, `Default`, `Debug`/`Display`,
//! the index newtypes, the `visit`/`data` trait views of `&Graph` and `&Frozen<Graph>`, `Visitable`'s maps,
//! `GetAdjacencyMatrix`, `into_nodes_edges`, `FilterElements`, and the u16 capacity limit.
use super::{ei, ni, W};
use crate::common::catch;
use crate::iterlaws::{iter_laws, iter_laws_de, iter_laws_exact};
use crate::rng::Rng;
use petgraph::data::{DataMap, DataMapMut, Element, ElementIterator, FromElements};
use petgraph::graph::{edge_index, node_index, EdgeIndex, Frozen, Graph, GraphError, IndexType, NodeIndex};
use petgraph::visit::{
    Data, EdgeCount, EdgeIndexable, EdgeRef, GetAdjacencyMatrix, GraphBase, GraphProp, IntoEdgeReferences, IntoEdgesDirected,
    IntoNeighborsDirected, IntoNodeIdentifiers, IntoNodeReferences, NodeCount, NodeIndexable, NodeRef, VisitMap, Visitable,
};
use petgraph::Direction::{Incoming, Outgoing};
use petgraph::{Directed, EdgeType, Undirected};
use std::fmt::{Debug, Write};

macro_rules! chk {
    ($name:expr, $e:expr) => {
        if let Some(why) = $e {
            return Some(format!("{}: {}", $name, why));
        }
    };
}
macro_rules! need {
    ($c:expr, $($arg:tt)*) => {
        if !($c) {
            return Some(format!($($arg)*));
        }
    };
}

fn cut(s: &str) -> String {
    if s.len() > 400 {
        format!("{}…", &s[..400])
    } else {
        s.to_string()
    }
}

/// the complete structure of a graph as text: raw arrays (weights, endpoints, list heads and links) and the
/// three neighbour walks of every node
pub fn sig<N: Debug, E: Debug, Ty: EdgeType, Ix: IndexType>(g: &Graph<N, E, Ty, Ix>) -> String {
    let endn = EdgeIndex::<Ix>::end();
    let x = |e: EdgeIndex<Ix>| if e == endn { "x".to_string() } else { e.index().to_string() };
    let mut s = String::new();
    let _ = write!(s, "n={} m={} dir={} |", g.node_count(), g.edge_count(), g.is_directed());
    for (i, nd) in g.raw_nodes().iter().enumerate() {
        let _ = write!(s, " {}:{:?}:{}:{}", i, nd.weight, x(nd.next_edge(Outgoing)), x(nd.next_edge(Incoming)));
    }
    s.push_str(" |");
    for (i, ed) in g.raw_edges().iter().enumerate() {
        let _ = write!(
            s,
            " {}:{}>{}:{:?}:{}:{}",
            i,
            ed.source().index(),
            ed.target().index(),
            ed.weight,
            x(ed.next_edge(Outgoing)),
            x(ed.next_edge(Incoming))
        );
    }
    s.push_str(" |");
    for a in g.node_indices() {
        for mode in 0..3 {
            let it = match mode {
                0 => g.neighbors_directed(a, Outgoing),
                1 => g.neighbors_directed(a, Incoming),
                _ => g.neighbors_undirected(a),
            };
            let mut wk = it.detach();
            let _ = write!(s, " {}{}:", a.index(), ["o", "i", "u"][mode]);
            let mut guard = 0usize;
            while let Some((e, b)) = wk.next(g) {
                let _ = write!(s, "{}-{},", e.index(), b.index());
                guard += 1;
                if guard > 2 * g.edge_count() + 2 {
                    s.push_str("RUNAWAY");
                    break;
                }
            }
        }
    }
    s
}

// ---------------------------------------------------------------------------------------------- iterators

/// An iterator that can be cloned by making it again and stepping to the same position with `next`
/// (/`next_back`): gives the non-`Clone` iterators (`NodeWeights`, `EdgeWeights`) to the shared law oracle
/// and lets items be projected to plain data (addresses, index tuples) WITHOUT hiding the inner
/// iterator's own `nth`/`count`/`last`/`fold`/`size_hint` behind an adaptor: every method is forwarded.
pub struct Remake<F, I: Iterator, T> {
    mk: F,
    p: fn(I::Item) -> T,
    it: I,
    front: usize,
    done: bool,
}
impl<F: Fn() -> I + Clone, I: Iterator, T> Remake<F, I, T> {
    pub fn new(mk: F, p: fn(I::Item) -> T, skip: usize) -> Self {
        let it = mk();
        let mut r = Remake { mk, p, it, front: 0, done: false };
        for _ in 0..skip {
            r.next();
        }
        r
    }
}
impl<F: Fn() -> I + Clone, I: Iterator, T> Clone for Remake<F, I, T> {
    fn clone(&self) -> Self {
        let mut it = (self.mk)();
        if self.done {
            while it.next().is_some() {}
        } else {
            for _ in 0..self.front {
                it.next();
            }
        }
        Remake { mk: self.mk.clone(), p: self.p, it, front: self.front, done: self.done }
    }
}
impl<F: Fn() -> I + Clone, I: Iterator, T> Iterator for Remake<F, I, T> {
    type Item = T;
    fn next(&mut self) -> Option<T> {
        match self.it.next() {
            Some(x) => {
                self.front += 1;
                Some((self.p)(x))
            }
            None => {
                self.done = true;
                None
            }
        }
    }
    fn nth(&mut self, k: usize) -> Option<T> {
        match self.it.nth(k) {
            Some(x) => {
                self.front += k + 1;
                Some((self.p)(x))
            }
            None => {
                self.done = true;
                None
            }
        }
    }
    fn size_hint(&self) -> (usize, Option<usize>) {
        self.it.size_hint()
    }
    fn count(self) -> usize {
        self.it.count()
    }
    fn last(self) -> Option<T> {
        let p = self.p;
        self.it.last().map(p)
    }
    fn fold<B, G: FnMut(B, T) -> B>(self, init: B, mut f: G) -> B {
        let p = self.p;
        self.it.fold(init, move |a, x| f(a, p(x)))
    }
}

/// the double-ended, exact-size variant of `Remake`
pub struct RemakeDe<F, I: Iterator, T> {
    mk: F,
    p: fn(I::Item) -> T,
    it: I,
    front: usize,
    back: usize,
    done: bool,
}
impl<F: Fn() -> I + Clone, I: DoubleEndedIterator + ExactSizeIterator, T> RemakeDe<F, I, T> {
    pub fn new(mk: F, p: fn(I::Item) -> T, skip_front: usize, skip_back: usize) -> Self {
        let it = mk();
        let mut r = RemakeDe { mk, p, it, front: 0, back: 0, done: false };
        for _ in 0..skip_front {
            r.next();
        }
        for _ in 0..skip_back {
            r.next_back();
        }
        r
    }
}
impl<F: Fn() -> I + Clone, I: DoubleEndedIterator + ExactSizeIterator, T> Clone for RemakeDe<F, I, T> {
    fn clone(&self) -> Self {
        let mut it = (self.mk)();
        if self.done {
            while it.next().is_some() {}
        } else {
            for _ in 0..self.front {
                it.next();
            }
            for _ in 0..self.back {
                it.next_back();
            }
        }
        RemakeDe { mk: self.mk.clone(), p: self.p, it, front: self.front, back: self.back, done: self.done }
    }
}
impl<F: Fn() -> I + Clone, I: DoubleEndedIterator + ExactSizeIterator, T> Iterator for RemakeDe<F, I, T> {
    type Item = T;
    fn next(&mut self) -> Option<T> {
        match self.it.next() {
            Some(x) => {
                self.front += 1;
                Some((self.p)(x))
            }
            None => {
                self.done = true;
                None
            }
        }
    }
    fn nth(&mut self, k: usize) -> Option<T> {
        match self.it.nth(k) {
            Some(x) => {
                self.front += k + 1;
                Some((self.p)(x))
            }
            None => {
                self.done = true;
                None
            }
        }
    }
    fn size_hint(&self) -> (usize, Option<usize>) {
        self.it.size_hint()
    }
    fn count(self) -> usize {
        self.it.count()
    }
    fn last(self) -> Option<T> {
        let p = self.p;
        self.it.last().map(p)
    }
    fn fold<B, G: FnMut(B, T) -> B>(self, init: B, mut f: G) -> B {
        let p = self.p;
        self.it.fold(init, move |a, x| f(a, p(x)))
    }
}
impl<F: Fn() -> I + Clone, I: DoubleEndedIterator + ExactSizeIterator, T> DoubleEndedIterator for RemakeDe<F, I, T> {
    fn next_back(&mut self) -> Option<T> {
        match self.it.next_back() {
            Some(x) => {
                self.back += 1;
                Some((self.p)(x))
            }
            None => {
                self.done = true;
                None
            }
        }
    }
    fn nth_back(&mut self, k: usize) -> Option<T> {
        match self.it.nth_back(k) {
            Some(x) => {
                self.back += k + 1;
                Some((self.p)(x))
            }
            None => {
                self.done = true;
                None
            }
        }
    }
    fn rfold<B, G: FnMut(B, T) -> B>(self, init: B, mut f: G) -> B {
        let p = self.p;
        self.it.rfold(init, move |a, x| f(a, p(x)))
    }
}
impl<F: Fn() -> I + Clone, I: DoubleEndedIterator + ExactSizeIterator, T> ExactSizeIterator for RemakeDe<F, I, T> {
    fn len(&self) -> usize {
        self.it.len()
    }
}

fn addr(x: &W) -> usize {
    x as *const W as usize
}
fn nidx<Ix: IndexType>(x: NodeIndex<Ix>) -> usize {
    x.index()
}
fn eidx<Ix: IndexType>(x: EdgeIndex<Ix>) -> usize {
    x.index()
}
fn nref<Ix: IndexType>(x: (NodeIndex<Ix>, &W)) -> (usize, usize, W) {
    (x.0.index(), addr(x.1), *x.1)
}
fn eref<Ix: IndexType>(x: petgraph::graph::EdgeReference<'_, W, Ix>) -> (usize, usize, usize, usize, W) {
    (x.id().index(), x.source().index(), x.target().index(), addr(x.weight()), *x.weight())
}

/// a real `Clone` taken in the middle of the iteration continues with the same items as the original
fn clone_mid<I: Iterator + Clone>(mut it: I, k: usize) -> Option<String>
where
    I::Item: PartialEq + Debug,
{
    for _ in 0..k {
        it.next();
    }
    let c = it.clone();
    let a: Vec<I::Item> = it.collect();
    let b: Vec<I::Item> = c.collect();
    if a != b {
        return Some(format!("a clone taken after {} items yields {:?}, the original {:?}", k, b, a));
    }
    None
}

/// nodes the per-node iterators are examined at: all of a small graph, else a sample (with endpoints of edges),
/// always one absent index
fn sample_nodes<Ty: EdgeType, Ix: IndexType>(g: &Graph<W, W, Ty, Ix>, rng: &mut Rng) -> Vec<usize> {
    let n = g.node_count();
    let m = g.edge_count();
    let mut v: Vec<usize> = Vec::new();
    if n <= 8 {
        v.extend(0..n);
    } else {
        for _ in 0..5 {
            v.push(rng.below(n));
        }
        for _ in 0..4 {
            if m > 0 {
                let (s, t) = g.edge_endpoints(ei(rng.below(m))).unwrap();
                v.push(if rng.chance(50) { s.index() } else { t.index() });
            }
        }
        v.push(n - 1);
    }
    let kmax = <Ix as IndexType>::max().index();
    v.push(n.min(kmax));
    v.sort();
    v.dedup();
    v
}

/// every iterator of `Graph`, fresh and mid-iteration, against the shared iterator-law oracle
pub fn iter_block<Ty: EdgeType + Clone, Ix: IndexType>(g: &Graph<W, W, Ty, Ix>, rng: &mut Rng) -> Option<String> {
    let n = g.node_count();
    let m = g.edge_count();
    // ---- whole-graph iterators: k items taken from the front, j from the back
    for (k, j) in [(0usize, 0usize), (1, 0), (0, 1), (2, 1)] {
        let tag = format!("[{} from the front, {} from the back]", k, j);
        let adv = |len: usize| k + j <= len || (k, j) == (0, 0);
        if adv(n) {
            let mut it = g.node_indices();
            for _ in 0..k {
                it.next();
            }
            for _ in 0..j {
                it.next_back();
            }
            chk!(format!("node_indices{}", tag), iter_laws_de(it.clone()));
            chk!(format!("node_indices{} exact", tag), iter_laws_exact(it));
            let mut it = g.node_references();
            for _ in 0..k {
                it.next();
            }
            for _ in 0..j {
                it.next_back();
            }
            chk!(format!("node_references{}", tag), iter_laws_de(it.clone()));
            chk!(format!("node_references{} exact", tag), iter_laws_exact(it));
            let r = RemakeDe::new(|| g.node_indices(), nidx::<Ix>, k, j);
            chk!(format!("node_indices{} (by index)", tag), iter_laws_de(r.clone()));
            chk!(format!("node_indices{} (by index) exact", tag), iter_laws_exact(r));
            let r = RemakeDe::new(|| g.node_references(), nref::<Ix>, k, j);
            chk!(format!("node_references{} (by address)", tag), iter_laws_de(r.clone()));
            chk!(format!("node_references{} (by address) exact", tag), iter_laws_exact(r));
            let r = RemakeDe::new(|| IntoNodeIdentifiers::node_identifiers(g), nidx::<Ix>, k, j);
            chk!(format!("node_identifiers{}", tag), iter_laws_de(r));
        }
        if adv(m) {
            let mut it = g.edge_indices();
            for _ in 0..k {
                it.next();
            }
            for _ in 0..j {
                it.next_back();
            }
            chk!(format!("edge_indices{}", tag), iter_laws_de(it.clone()));
            chk!(format!("edge_indices{} exact", tag), iter_laws_exact(it));
            let mut it = g.edge_references();
            for _ in 0..k {
                it.next();
            }
            for _ in 0..j {
                it.next_back();
            }
            chk!(format!("edge_references{}", tag), iter_laws_de(it.clone()));
            chk!(format!("edge_references{} exact", tag), iter_laws_exact(it));
            let r = RemakeDe::new(|| g.edge_indices(), eidx::<Ix>, k, j);
            chk!(format!("edge_indices{} (by index)", tag), iter_laws_de(r.clone()));
            chk!(format!("edge_indices{} (by index) exact", tag), iter_laws_exact(r));
            let r = RemakeDe::new(|| g.edge_references(), eref::<Ix>, k, j);
            chk!(format!("edge_references{} (by address)", tag), iter_laws_de(r.clone()));
            chk!(format!("edge_references{} (by address) exact", tag), iter_laws_exact(r));
        }
        if j == 0 {
            // NodeWeights / EdgeWeights are not Clone: through Remake, items compared by address
            chk!(format!("node_weights{}", tag), iter_laws(Remake::new(|| g.node_weights(), addr, k)));
            chk!(format!("edge_weights{}", tag), iter_laws(Remake::new(|| g.edge_weights(), addr, k)));
            for dir in [Outgoing, Incoming] {
                let mut it = g.externals(dir);
                for _ in 0..k {
                    it.next();
                }
                chk!(format!("externals({:?}){}", dir, tag), iter_laws(it));
                chk!(format!("externals({:?}){} (by index)", dir, tag), iter_laws(Remake::new(|| g.externals(dir), nidx::<Ix>, k)));
                chk!(format!("externals({:?}) clone", dir), clone_mid(g.externals(dir), k));
            }
        }
    }
    // the sequences themselves: every whole-graph iterator lists the compact ranges, in order, with the right data
    let ids: Vec<usize> = g.node_indices().map(|x| x.index()).collect();
    need!(ids == (0..n).collect::<Vec<_>>(), "node_indices yields {:?} for {} nodes", ids, n);
    let ids: Vec<usize> = g.edge_indices().map(|x| x.index()).collect();
    need!(ids == (0..m).collect::<Vec<_>>(), "edge_indices yields {:?} for {} edges", ids, m);
    let wa: Vec<usize> = g.node_weights().map(addr).collect();
    let wb: Vec<usize> = (0..n).map(|i| addr(&g[ni::<Ix>(i)])).collect();
    need!(wa == wb, "node_weights does not yield the weights of nodes 0..n in order");
    let wa: Vec<usize> = g.edge_weights().map(addr).collect();
    let wb: Vec<usize> = (0..m).map(|i| addr(&g[ei::<Ix>(i)])).collect();
    need!(wa == wb, "edge_weights does not yield the weights of edges 0..m in order");
    // ---- per-node iterators
    let nodes = sample_nodes(g, rng);
    for &a in &nodes {
        let na = ni::<Ix>(a);
        for k in 0..3usize {
            for mode in 0..4 {
                let mk = move || match mode {
                    0 => g.neighbors(na),
                    1 => g.neighbors_directed(na, Outgoing),
                    2 => g.neighbors_directed(na, Incoming),
                    _ => g.neighbors_undirected(na),
                };
                let name = format!("{}({}) after {} items", ["neighbors", "neighbors_directed(Outgoing)", "neighbors_directed(Incoming)", "neighbors_undirected"][mode], a, k);
                let mut it = mk();
                for _ in 0..k {
                    it.next();
                }
                chk!(name, iter_laws(it));
                chk!(name, iter_laws(Remake::new(mk, nidx::<Ix>, k)));
                chk!(name, clone_mid(mk(), k));
                // a walker detached in the middle of the iteration continues where the iterator stands
                let mut it = mk();
                for _ in 0..k {
                    it.next();
                }
                let mut wk = it.detach();
                let rest: Vec<usize> = it.map(|x| x.index()).collect();
                let mut walked: Vec<usize> = Vec::new();
                while let Some((e, x)) = wk.next(g) {
                    let ends = g.edge_endpoints(e).map(|(s, t)| (s.index(), t.index()));
                    need!(
                        ends.map_or(false, |(s, t)| (s == a && t == x.index()) || (t == a && s == x.index())),
                        "{}: the detached walker yields edge {} with node {}, but that edge joins {:?}",
                        name,
                        e.index(),
                        x.index(),
                        ends
                    );
                    walked.push(x.index());
                    if walked.len() > 2 * m + 2 {
                        break;
                    }
                }
                need!(walked == rest, "{}: detach() then walking yields {:?}, the iterator itself {:?}", name, walked, rest);
            }
            for mode in 0..3 {
                let mk = move || match mode {
                    0 => g.edges(na),
                    1 => g.edges_directed(na, Outgoing),
                    _ => g.edges_directed(na, Incoming),
                };
                let name = format!("{}({}) after {} items", ["edges", "edges_directed(Outgoing)", "edges_directed(Incoming)"][mode], a, k);
                let mut it = mk();
                for _ in 0..k {
                    it.next();
                }
                chk!(name, iter_laws(it));
                chk!(name, iter_laws(Remake::new(mk, eref::<Ix>, k)));
                chk!(name, clone_mid(mk(), k));
                // every EdgeReference is the edge it names: PartialEq / Copy / the inherent and the trait accessors
                for r in mk() {
                    let c = r;
                    need!(c == r && r.clone() == r, "{}: an EdgeReference differs from its copy", name);
                    need!(g.edge_references().nth(r.id().index()) == Some(r), "{}: reference to edge {} differs from edge_references()", name, r.id().index());
                    need!(addr(r.weight()) == addr(&g[r.id()]) && EdgeRef::weight(&r) == r.weight(), "{}: weight of edge {} is not the graph's slot", name, r.id().index());
                    let ends = g.edge_endpoints(r.id());
                    need!(
                        ends == Some((r.source(), r.target())) || (!g.is_directed() && ends == Some((r.target(), r.source()))),
                        "{}: reference to edge {} says {}>{}, edge_endpoints says {:?}",
                        name,
                        r.id().index(),
                        r.source().index(),
                        r.target().index(),
                        ends
                    );
                }
            }
        }
    }
    // ---- edges_connecting: pairs joined by an edge (both orders), and sampled pairs
    let mut pairs: Vec<(usize, usize)> = Vec::new();
    for _ in 0..4 {
        if m > 0 {
            let (s, t) = g.edge_endpoints(ei(rng.below(m))).unwrap();
            pairs.push((s.index(), t.index()));
            pairs.push((t.index(), s.index()));
        }
        if nodes.len() > 1 {
            pairs.push((*rng.pick(&nodes), *rng.pick(&nodes)));
        }
    }
    for (a, b) in pairs {
        let (na, nb) = (ni::<Ix>(a), ni::<Ix>(b));
        for k in 0..2usize {
            let name = format!("edges_connecting({},{}) after {} items", a, b, k);
            let mut it = g.edges_connecting(na, nb);
            for _ in 0..k {
                it.next();
            }
            chk!(name, iter_laws(it));
            chk!(name, iter_laws(Remake::new(move || g.edges_connecting(na, nb), eref::<Ix>, k)));
            chk!(name, clone_mid(g.edges_connecting(na, nb), k));
        }
    }
    None
}

fn positions(len: usize) -> Vec<usize> {
    let mut v = vec![0, 1, 2, len / 2, len.saturating_sub(1), len, len + 1];
    v.sort();
    v.dedup();
    v
}

macro_rules! mut_laws {
    ($g:expr, $mk:ident, $len:expr, $at:expr, $what:expr) => {{
        let len: usize = $len;
        let want: Vec<usize> = (0..len).map($at).collect();
        let got: Vec<usize> = {
            let mut v = Vec::new();
            let mut it = $g.$mk();
            while let Some(x) = it.next() {
                v.push(x as *mut W as usize);
            }
            need!(it.next().is_none(), "{}: an item after the end", $what);
            v
        };
        need!(got == want, "{}: does not yield the weight slots 0..{} in order", $what, len);
        need!($g.$mk().count() == len, "{}: count() = {} for {} items", $what, $g.$mk().count(), len);
        need!($g.$mk().last().map(|x| x as *mut W as usize) == want.last().copied(), "{}: last() is not the last slot", $what);
        need!($g.$mk().fold(0usize, |a, _| a + 1) == len, "{}: fold visits a different number of items", $what);
        for k in positions(len) {
            let mut it = $g.$mk();
            for _ in 0..k.min(len) {
                it.next();
            }
            let rest = len - k.min(len);
            let (lo, hi) = it.size_hint();
            need!(lo <= rest && hi.map_or(true, |h| h >= rest), "{}: after {} items size_hint = ({}, {:?}) but {} remain", $what, k.min(len), lo, hi, rest);
            let mut it = $g.$mk();
            let x = it.nth(k).map(|x| x as *mut W as usize);
            need!(x == want.get(k).copied(), "{}: nth({}) is not slot {}", $what, k, k);
            let restv: Vec<usize> = it.map(|x| x as *mut W as usize).collect();
            let wantv: Vec<usize> = if k + 1 <= len { want[k + 1..].to_vec() } else { Vec::new() };
            need!(restv == wantv, "{}: after nth({}) {} items remain, expected {}", $what, k, restv.len(), wantv.len());
        }
    }};
}

/// `node_weights_mut` / `edge_weights_mut` (not `Clone`, mutable borrow): the same laws by hand, items
/// identified by the address of the weight slot; a write through the iterator is seen by `Index`
pub fn mut_iter_block<Ty: EdgeType, Ix: IndexType>(g: &mut Graph<W, W, Ty, Ix>) -> Option<String> {
    let n = g.node_count();
    let m = g.edge_count();
    let gr: &Graph<W, W, Ty, Ix> = g;
    let na: Vec<usize> = (0..n).map(|i| addr(&gr[ni::<Ix>(i)])).collect();
    let ea: Vec<usize> = (0..m).map(|i| addr(&gr[ei::<Ix>(i)])).collect();
    mut_laws!(g, node_weights_mut, n, |i| na[i], "node_weights_mut");
    mut_laws!(g, edge_weights_mut, m, |i| ea[i], "edge_weights_mut");
    // writes through the iterators / IndexMut / DataMapMut are seen by every reader (and undone again)
    let before = sig(g);
    for (i, w) in g.node_weights_mut().enumerate() {
        *w += 1000 + i as W;
    }
    for (i, w) in g.edge_weights_mut().enumerate() {
        *w += 2000 + i as W;
    }
    let mid = sig(g);
    need!(n + m == 0 || mid != before, "writes through node_weights_mut/edge_weights_mut are not visible");
    for i in 0..n {
        let v = g[ni::<Ix>(i)];
        need!(g.node_weight(ni(i)) == Some(&v) && DataMap::node_weight(&*g, ni(i)) == Some(&v), "node_weight({}) differs from Index", i);
        g[ni::<Ix>(i)] = v - 1000 - i as W;
    }
    for i in 0..m {
        let v = g[ei::<Ix>(i)];
        need!(g.edge_weight(ei(i)) == Some(&v), "edge_weight({}) differs from Index", i);
        *DataMapMut::edge_weight_mut(&mut *g, ei(i)).unwrap() = v - 2000 - i as W;
    }
    let after = sig(g);
    need!(after == before, "weights written back through IndexMut/DataMapMut: graph is [{}], was [{}]", cut(&after), cut(&before));
    None
}

// ---------------------------------------------------------------------------------------------- views

/// the graph as the `visit` traits show it (ids printed through `NodeIndexable` / `EdgeIndexable`)
fn trait_view<G>(g: G) -> String
where
    G: IntoNodeReferences
        + IntoEdgeReferences
        + IntoEdgesDirected
        + IntoNeighborsDirected
        + IntoNodeIdentifiers
        + NodeIndexable
        + EdgeIndexable
        + NodeCount
        + EdgeCount
        + GraphProp
        + Data<NodeWeight = W, EdgeWeight = W>
        + Copy,
{
    let nx = |a: G::NodeId| NodeIndexable::to_index(&g, a);
    let ex = |e: G::EdgeId| EdgeIndexable::to_index(&g, e);
    let mut s = String::new();
    let _ = write!(s, "{} {} {} bounds {} {} |", g.node_count(), g.edge_count(), g.is_directed(), g.node_bound(), g.edge_bound());
    for r in g.node_references() {
        let _ = write!(s, " {}:{}", nx(r.id()), r.weight());
    }
    s.push_str(" |");
    for a in g.node_identifiers() {
        let _ = write!(s, " {}", nx(a));
    }
    s.push_str(" |");
    for e in g.edge_references() {
        let _ = write!(s, " {}:{}>{}:{}", ex(e.id()), nx(e.source()), nx(e.target()), e.weight());
    }
    s.push_str(" |");
    for i in 0..g.node_bound() + 1 {
        let a = NodeIndexable::from_index(&g, i);
        let _ = write!(s, " [{}]", nx(a));
        for x in g.neighbors(a) {
            let _ = write!(s, " {}", nx(x));
        }
        for d in [Outgoing, Incoming] {
            s.push_str(" /");
            for x in g.neighbors_directed(a, d) {
                let _ = write!(s, " {}", nx(x));
            }
        }
        s.push_str(" / e");
        for e in g.edges(a) {
            let _ = write!(s, " {}:{}>{}:{}", ex(e.id()), nx(e.source()), nx(e.target()), e.weight());
        }
        for d in [Outgoing, Incoming] {
            s.push_str(" /");
            for e in g.edges_directed(a, d) {
                let _ = write!(s, " {}:{}>{}:{}", ex(e.id()), nx(e.source()), nx(e.target()), e.weight());
            }
        }
    }
    s
}

/// the same text from the inherent methods
fn inherent_view<Ty: EdgeType, Ix: IndexType>(g: &Graph<W, W, Ty, Ix>) -> String {
    let mut s = String::new();
    let n = g.node_count();
    let m = g.edge_count();
    let _ = write!(s, "{} {} {} bounds {} {} |", n, m, g.is_directed(), n, m);
    for i in 0..n {
        let _ = write!(s, " {}:{}", i, g[ni::<Ix>(i)]);
    }
    s.push_str(" |");
    for i in 0..n {
        let _ = write!(s, " {}", i);
    }
    s.push_str(" |");
    for e in 0..m {
        let (a, b) = g.edge_endpoints(ei(e)).unwrap();
        let _ = write!(s, " {}:{}>{}:{}", e, a.index(), b.index(), g[ei::<Ix>(e)]);
    }
    s.push_str(" |");
    for i in 0..n + 1 {
        let a = ni::<Ix>(i);
        let _ = write!(s, " [{}]", i);
        for x in g.neighbors(a) {
            let _ = write!(s, " {}", x.index());
        }
        for d in [Outgoing, Incoming] {
            s.push_str(" /");
            for x in g.neighbors_directed(a, d) {
                let _ = write!(s, " {}", x.index());
            }
        }
        s.push_str(" / e");
        for e in g.edges(a) {
            let _ = write!(s, " {}:{}>{}:{}", e.id().index(), e.source().index(), e.target().index(), e.weight());
        }
        for d in [Outgoing, Incoming] {
            s.push_str(" /");
            for e in g.edges_directed(a, d) {
                let _ = write!(s, " {}:{}>{}:{}", e.id().index(), e.source().index(), e.target().index(), e.weight());
            }
        }
    }
    s
}

/// `GetAdjacencyMatrix` describes `contains_edge`; `Visitable`'s maps work for every node, also a map
/// made for another (smaller / larger) graph after `reset_map`
fn matrix_and_maps<G, Ty: EdgeType, Ix: IndexType>(v: &G, g: &Graph<W, W, Ty, Ix>, what: &str) -> Option<String>
where
    G: GraphBase<NodeId = NodeIndex<Ix>> + GetAdjacencyMatrix + Visitable,
    G::Map: VisitMap<NodeIndex<Ix>>,
{
    let n = g.node_count();
    if n <= 24 {
        let mat = v.adjacency_matrix();
        for a in 0..n {
            for b in 0..n {
                let adj = v.is_adjacent(&mat, ni(a), ni(b));
                let want = g.contains_edge(ni(a), ni(b));
                need!(adj == want, "{}: is_adjacent({},{}) = {} but contains_edge = {}", what, a, b, adj, want);
            }
        }
    }
    let mut map = v.visit_map();
    for i in 0..n {
        need!(!map.is_visited(&ni(i)), "{}: a fresh visit_map has node {} visited", what, i);
    }
    for i in (0..n).rev() {
        need!(map.visit(ni(i)), "{}: first visit({}) returned false", what, i);
        need!(!map.visit(ni(i)), "{}: second visit({}) returned true", what, i);
        need!(map.is_visited(&ni(i)), "{}: node {} not visited after visit", what, i);
    }
    if n > 0 {
        let a = n / 2;
        need!(map.unvisit(ni(a)), "{}: unvisit({}) of a visited node returned false", what, a);
        need!(!map.is_visited(&ni(a)), "{}: node {} still visited after unvisit", what, a);
        need!(!map.unvisit(ni(a)), "{}: unvisit({}) of an unvisited node returned true", what, a);
        for i in 0..n {
            need!(map.is_visited(&ni(i)) == (i != a), "{}: unvisit({}) changed node {}", what, a, i);
        }
    }
    v.reset_map(&mut map);
    for i in 0..n {
        need!(!map.is_visited(&ni(i)), "{}: node {} visited after reset_map", what, i);
    }
    None
}

/// a map made for a smaller / larger graph, with marks, is usable for this graph after `reset_map`
fn foreign_map<Ty: EdgeType, Ix: IndexType>(g: &Graph<W, W, Ty, Ix>, foreign: &Graph<W, W, Ty, Ix>) -> Option<String> {
    let n = g.node_count();
    let fnn = foreign.node_count();
    let mut map = foreign.visit_map();
    for i in 0..fnn {
        map.visit(ni::<Ix>(i));
    }
    g.reset_map(&mut map);
    for i in 0..n.max(fnn) {
        need!(!map.is_visited(&ni::<Ix>(i)), "reset_map of a map made for {} nodes leaves node {} visited ({} nodes now)", fnn, i, n);
    }
    let r = catch(|| {
        for i in 0..n {
            if !map.visit(ni::<Ix>(i)) {
                return Some(i);
            }
        }
        None
    });
    match r {
        None => Some(format!("after reset_map of a map made for {} nodes, visit panics for a node of the {}-node graph", fnn, n)),
        Some(Some(i)) => Some(format!("after reset_map visit({}) returned false", i)),
        Some(None) => None,
    }
}

pub fn views_block<Ty: EdgeType, Ix: IndexType>(g: &mut Graph<W, W, Ty, Ix>, foreign: &Graph<W, W, Ty, Ix>) -> Option<String> {
    let want = inherent_view(g);
    let got = trait_view(&*g);
    need!(got == want, "visit traits of &Graph show [{}], the inherent methods [{}]", cut(&got), cut(&want));
    chk!("Graph", matrix_and_maps(&*g, &*g, "Graph"));
    chk!("Visitable", foreign_map(&*g, foreign));
    need!(Ty::is_directed() == g.is_directed(), "EdgeType::is_directed differs from Graph::is_directed");
    let n = g.node_count();
    let m = g.edge_count();
    let kmax = <Ix as IndexType>::max().index();
    for i in 0..(n + 2).min(kmax.saturating_add(1)) {
        need!(DataMap::node_weight(&*g, ni(i)) == g.node_weight(ni(i)), "DataMap::node_weight({}) differs", i);
        need!(NodeIndexable::to_index(&*g, NodeIndexable::from_index(&*g, i)) == i, "NodeIndexable round trip of {}", i);
    }
    for e in 0..(m + 2).min(kmax.saturating_add(1)) {
        need!(DataMap::edge_weight(&*g, ei(e)) == g.edge_weight(ei(e)), "DataMap::edge_weight({}) differs", e);
        need!(EdgeIndexable::to_index(&*g, EdgeIndexable::from_index(&*g, e)) == e, "EdgeIndexable round trip of {}", e);
    }
    // ---- the same graph through Frozen
    let copy = g.clone();
    {
        // the Into* traits are delegated for `&Frozen<G>` where G itself has them, i.e. G = &Graph
        {
            let mut shared: &Graph<W, W, Ty, Ix> = &*g;
            let fzr = Frozen::new(&mut shared);
            let got = trait_view(&fzr);
            need!(got == want, "visit traits of &Frozen<&Graph> show [{}], the inherent methods [{}]", cut(&got), cut(&want));
        }
        let mut fz = Frozen::new(&mut *g);
        chk!("Frozen", matrix_and_maps(&fz, &copy, "Frozen"));
        need!(fz.node_count() == n && fz.edge_count() == m, "Frozen derefs to other counts");
        need!(NodeCount::node_count(&fz) == n && EdgeCount::edge_count(&fz) == m, "NodeCount/EdgeCount of Frozen differ");
        need!(NodeIndexable::node_bound(&fz) == n && EdgeIndexable::edge_bound(&fz) == m, "bounds of Frozen differ");
        for i in 0..n {
            need!(fz[ni::<Ix>(i)] == copy[ni::<Ix>(i)], "Frozen[node {}] differs", i);
            need!(DataMap::node_weight(&fz, ni(i)) == copy.node_weight(ni(i)), "DataMap on Frozen: node {}", i);
        }
        for e in 0..m {
            need!(fz[ei::<Ix>(e)] == copy[ei::<Ix>(e)], "Frozen[edge {}] differs", e);
            need!(DataMap::edge_weight(&fz, ei(e)) == copy.edge_weight(ei(e)), "DataMap on Frozen: edge {}", e);
        }
        need!(DataMap::node_weight(&fz, ni(n)).is_none() && DataMap::edge_weight(&fz, ei(m)).is_none(), "DataMap on Frozen: absent index");
        // writes through Frozen reach the graph
        if n > 0 {
            fz[ni::<Ix>(n - 1)] += 5;
            *DataMapMut::node_weight_mut(&mut fz, ni(n - 1)).unwrap() -= 5;
        }
        if m > 0 {
            fz[ei::<Ix>(0)] += 7;
            *DataMapMut::edge_weight_mut(&mut fz, ei(0)).unwrap() -= 7;
        }
        if n > 0 && m > 0 {
            let (a, b) = fz.index_twice_mut(ni::<Ix>(0), ei::<Ix>(m - 1));
            *a += 1;
            *b += 1;
            let (a, b) = fz.index_twice_mut(ei::<Ix>(m - 1), ni::<Ix>(0));
            *a -= 1;
            *b -= 1;
        }
        need!(DataMapMut::node_weight_mut(&mut fz, ni(n)).is_none(), "DataMapMut on Frozen: absent node is Some");
    }
    need!(sig(g) == sig(&copy), "reading and writing back through Frozen changed the graph");
    None
}

// ---------------------------------------------------------------------------------------------- fmt

fn expected_debug<N: Debug, E: Debug, Ty: EdgeType, Ix: IndexType>(g: &Graph<N, E, Ty, Ix>, weights: bool) -> String {
    let mut e = format!(
        "Graph {{ Ty: {:?}, node_count: {}, edge_count: {}",
        if g.is_directed() { "Directed" } else { "Undirected" },
        g.node_count(),
        g.edge_count()
    );
    if g.edge_count() > 0 {
        let v: Vec<String> = g.raw_edges().iter().map(|x| format!("({}, {})", x.source().index(), x.target().index())).collect();
        e += &format!(", edges: {}", v.join(", "));
    }
    if weights {
        let v: Vec<String> = g.raw_nodes().iter().enumerate().map(|(i, x)| format!("{}: {:?}", i, x.weight)).collect();
        e += &format!(", node weights: {{{}}}", v.join(", "));
        let v: Vec<String> = g.raw_edges().iter().enumerate().map(|(i, x)| format!("{}: {:?}", i, x.weight)).collect();
        e += &format!(", edge weights: {{{}}}", v.join(", "));
    }
    e + " }"
}

/// `Debug` of the graph shows the same graph as the accessors; `{:#?}`, width/precision flags and the
/// `Debug`/`Display` impls of the helper types never panic
pub fn fmt_block<Ty: EdgeType + Debug, Ix: IndexType>(g: &mut Graph<W, W, Ty, Ix>) -> Option<String> {
    let r = catch(|| format!("{:?}", g));
    let want = expected_debug(g, true);
    match r {
        None => return Some("Debug of the graph panics".to_string()),
        Some(s) => need!(s == want, "Debug prints [{}], the accessors describe [{}]", cut(&s), cut(&want)),
    }
    let n = g.node_count();
    let r = catch(|| (format!("{:#?}", g), format!("{:10.3?}", g), format!("{:<#5?}", g)));
    match r {
        None => return Some("pretty / padded Debug of the graph panics".to_string()),
        Some((p, _, _)) => need!(p.contains(&format!("node_count: {}", n)), "pretty Debug lacks node_count: {}", n),
    }
    // zero-sized weights: the documented branch that skips the weights
    let r = catch(|| {
        let u = g.map(|_, _| (), |_, _| ());
        (format!("{:?}", u), expected_debug(&u, false), sig(&u).replace("()", ""), u.node_count(), u.edge_count())
    });
    match r {
        None => return Some("map to () weights or its Debug panics".to_string()),
        Some((s, want, _, un, um)) => {
            need!(s == want, "Debug of the unit-weight graph prints [{}], expected [{}]", cut(&s), cut(&want));
            need!(un == n && um == g.edge_count(), "map to () weights changed the counts");
        }
    }
    let m = g.edge_count();
    let r = catch(|| {
        let mut t = String::new();
        let a = ni::<Ix>(if n > 0 { n - 1 } else { 0 });
        let _ = write!(t, "{:?}{:?}{:?}", g.neighbors(a), g.edges(a), g.edges_connecting(a, a));
        let _ = write!(t, "{:?}{:?}{:?}{:?}", g.node_indices(), g.edge_indices(), g.externals(Outgoing), g.edge_references());
        let _ = write!(t, "{:?}", g.node_references());
        let _ = write!(t, "{:?}{:?}", g.raw_nodes().first(), g.raw_edges().last());
        let _ = write!(t, "{:?}", g.edge_references().next());
        let _ = write!(t, "{:?}", g.node_weights_mut());
        let _ = write!(t, "{:?}", g.edge_weights_mut());
        t
    });
    need!(r.map_or(false, |t| !t.is_empty()), "Debug of an iterator / Node / Edge / EdgeReference panics");
    need!(format!("{:?}", ni::<Ix>(n)) == format!("NodeIndex({})", n), "Debug of NodeIndex({}) is {:?}", n, ni::<Ix>(n));
    need!(format!("{:?}", ei::<Ix>(m)) == format!("EdgeIndex({})", m), "Debug of EdgeIndex({}) is {:?}", m, ei::<Ix>(m));
    None
}

// ---------------------------------------------------------------------------------------------- clone

fn strings<Ty: EdgeType, Ix: IndexType>(g: &Graph<W, W, Ty, Ix>) -> Graph<String, String, Ty, Ix> {
    g.map(|i, w| format!("n{}w{}", i.index(), w), |e, w| format!("e{}w{}", e.index(), w))
}

/// `a.clone_from(&b)` observably equals `a = b.clone()` for an arbitrary prior `a`; clones are independent;
/// `Node`/`Edge` clones and `clone_from` copy every field
pub fn clone_block<Ty: EdgeType, Ix: IndexType>(g: &Graph<W, W, Ty, Ix>, prior: &Graph<W, W, Ty, Ix>) -> Option<String> {
    let want = sig(g);
    let c = g.clone();
    need!(sig(&c) == want, "clone() is [{}], the original [{}]", cut(&sig(&c)), cut(&want));
    for (which, p) in [("the prior graph", prior.clone()), ("an empty graph", Graph::default()), ("itself", g.clone())] {
        let mut a = p;
        let before = sig(&a);
        a.clone_from(g);
        let got = sig(&a);
        need!(got == want, "clone_from onto {} [{}] gives [{}], clone() gives [{}]", which, cut(&before), cut(&got), cut(&want));
        // independent afterwards
        if a.node_count() > 0 {
            a.remove_node(ni(0));
            a.reverse();
        }
        a.add_node(99);
        need!(sig(g) == want, "mutating the clone_from copy changed its source");
    }
    // the other way round, and with heap weights (Vec::clone_from reuses the destination's elements)
    let mut b = g.clone();
    b.clone_from(prior);
    need!(sig(&b) == sig(prior), "clone_from of the prior graph onto this one gives [{}], expected [{}]", cut(&sig(&b)), cut(&sig(prior)));
    let gs = strings(g);
    let ps = strings(prior);
    let mut a = ps.clone();
    a.clone_from(&gs);
    need!(sig(&a) == sig(&gs), "clone_from with String weights gives [{}], clone() gives [{}]", cut(&sig(&a)), cut(&sig(&gs)));
    let mut b = gs.clone();
    b.clone_from(&ps);
    need!(sig(&b) == sig(&ps), "clone_from with String weights (other direction) gives [{}], expected [{}]", cut(&sig(&b)), cut(&sig(&ps)));
    // Node / Edge
    let nodes = g.raw_nodes().to_vec();
    let edges = g.raw_edges().to_vec();
    for (i, (x, y)) in nodes.iter().zip(g.raw_nodes()).enumerate() {
        need!(
            x.weight == y.weight && x.next_edge(Outgoing) == y.next_edge(Outgoing) && x.next_edge(Incoming) == y.next_edge(Incoming),
            "clone of raw node {} differs",
            i
        );
    }
    for (i, (x, y)) in edges.iter().zip(g.raw_edges()).enumerate() {
        need!(
            x.weight == y.weight
                && x.source() == y.source()
                && x.target() == y.target()
                && x.next_edge(Outgoing) == y.next_edge(Outgoing)
                && x.next_edge(Incoming) == y.next_edge(Incoming),
            "clone of raw edge {} differs",
            i
        );
    }
    for (i, y) in g.raw_nodes().iter().enumerate() {
        for x in prior.raw_nodes().iter().take(3) {
            let mut x = x.clone();
            x.clone_from(y);
            need!(
                x.weight == y.weight && x.next_edge(Outgoing) == y.next_edge(Outgoing) && x.next_edge(Incoming) == y.next_edge(Incoming),
                "Node::clone_from of raw node {} differs from it",
                i
            );
        }
    }
    for (i, y) in g.raw_edges().iter().enumerate() {
        for x in prior.raw_edges().iter().take(3) {
            let mut x = x.clone();
            x.clone_from(y);
            need!(
                x.weight == y.weight
                    && x.source() == y.source()
                    && x.target() == y.target()
                    && x.next_edge(Outgoing) == y.next_edge(Outgoing)
                    && x.next_edge(Incoming) == y.next_edge(Incoming),
                "Edge::clone_from of raw edge {} differs from it: {}>{} instead of {}>{}",
                i,
                x.source().index(),
                x.target().index(),
                y.source().index(),
                y.target().index()
            );
        }
    }
    // into_nodes_edges hands out exactly the raw arrays
    let (nv, ev) = g.clone().into_nodes_edges();
    need!(nv.len() == nodes.len() && ev.len() == edges.len(), "into_nodes_edges: other lengths than raw_nodes/raw_edges");
    for (x, y) in nv.iter().zip(&nodes) {
        need!(x.weight == y.weight && x.next_edge(Outgoing) == y.next_edge(Outgoing) && x.next_edge(Incoming) == y.next_edge(Incoming), "into_nodes_edges: a node differs from raw_nodes");
    }
    for (x, y) in ev.iter().zip(&edges) {
        need!(
            x.weight == y.weight && x.source() == y.source() && x.target() == y.target() && x.next_edge(Outgoing) == y.next_edge(Outgoing) && x.next_edge(Incoming) == y.next_edge(Incoming),
            "into_nodes_edges: an edge differs from raw_edges"
        );
    }
    None
}

// ---------------------------------------------------------------------------------------------- once per case

/// the index newtypes, `Direction`, `GraphError`
pub fn index_block<Ix: IndexType>() -> Option<String> {
    let kmax = <Ix as IndexType>::max().index();
    for x in [0usize, 1, 2, kmax / 2, kmax - 1, kmax] {
        let a = NodeIndex::<Ix>::new(x);
        let e = EdgeIndex::<Ix>::new(x);
        need!(a.index() == x && e.index() == x, "new({}).index() = {} / {}", x, a.index(), e.index());
        need!(node_index::<Ix>(x) == a && edge_index::<Ix>(x) == e, "node_index/edge_index({}) differ from new", x);
        need!(NodeIndex::from(<Ix as IndexType>::new(x)) == a && EdgeIndex::from(<Ix as IndexType>::new(x)) == e, "From<Ix>({}) differs from new", x);
        let via: NodeIndex<Ix> = <Ix as IndexType>::new(x).into();
        need!(via == a, "Ix::into({}) differs from new", x);
        need!(<NodeIndex<Ix> as IndexType>::new(x) == a && IndexType::index(&a) == x, "IndexType for NodeIndex at {}", x);
        need!(<Ix as IndexType>::new(x).index() == x, "IndexType::new({}).index()", x);
    }
    need!(NodeIndex::<Ix>::end().index() == kmax && EdgeIndex::<Ix>::end().index() == kmax, "end() is not Ix::max()");
    need!(<NodeIndex<Ix> as IndexType>::max() == NodeIndex::<Ix>::end(), "IndexType::max for NodeIndex is not end()");
    need!(NodeIndex::<Ix>::default() == NodeIndex::new(0) && EdgeIndex::<Ix>::default() == EdgeIndex::new(0), "Default index is not 0");
    need!(NodeIndex::<Ix>::new(1) < NodeIndex::new(2) && EdgeIndex::<Ix>::new(0) < EdgeIndex::end(), "Ord of indices");
    need!(NodeIndex::<Ix>::new(3).max(NodeIndex::new(2)).index() == 3, "max of two indices");
    need!(Outgoing.index() == 0 && Incoming.index() == 1, "Direction::index");
    need!(Outgoing.opposite() == Incoming && Incoming.opposite() == Outgoing, "Direction::opposite");
    need!(Directed::is_directed() && !Undirected::is_directed(), "EdgeType::is_directed");
    for e in [GraphError::NodeIxLimit, GraphError::EdgeIxLimit, GraphError::NodeMissed(3), GraphError::NodeOutBounds] {
        let r = catch(|| (format!("{}", e), format!("{:?}", e), format!("{:>40}", e), format!("{:#?}", e)));
        need!(r.map_or(false, |t| !t.0.is_empty() && !t.1.is_empty()), "Display/Debug of {:?} panics or is empty", e);
        let c = e;
        need!(c == e && c.clone() == e, "GraphError Clone/PartialEq");
        let _: &dyn std::error::Error = &e;
    }
    need!(GraphError::NodeMissed(3) != GraphError::NodeMissed(4) && GraphError::NodeIxLimit != GraphError::EdgeIxLimit, "GraphError PartialEq");
    need!(format!("{}", GraphError::NodeMissed(7)).contains('7'), "Display of NodeMissed(7) does not name the node");
    None
}

/// `Default::default()` is `with_capacity(0, 0)` is `new()`: an empty graph that behaves like one
pub fn default_block<Ty: EdgeType, Ix: IndexType>() -> Option<String> {
    let d: Graph<W, W, Ty, Ix> = Graph::default();
    let w: Graph<W, W, Ty, Ix> = Graph::with_capacity(0, 0);
    let c: Graph<W, W, Ty, Ix> = Graph::with_capacity(7, 3);
    need!(sig(&d) == sig(&w) && sig(&d) == sig(&c), "Default differs from with_capacity");
    need!(format!("{:?}", d) == format!("{:?}", c), "Debug of Default differs from with_capacity");
    need!(d.node_count() == 0 && d.edge_count() == 0 && d.is_directed() == Ty::is_directed(), "Default is not the empty graph");
    need!(c.capacity().0 >= 7 && c.capacity().1 >= 3, "with_capacity(7,3) has capacity {:?}", c.capacity());
    let nd = Graph::<W, W>::new();
    let nu = Graph::<W, W, Undirected>::new_undirected();
    need!(sig(&nd) == sig(&Graph::<W, W, Directed, u32>::default()), "new() differs from Default");
    need!(sig(&nu) == sig(&Graph::<W, W, Undirected, u32>::default()), "new_undirected() differs from Default");
    need!(nd.is_directed() && !nu.is_directed(), "new()/new_undirected() edge type");
    // the empty graph answers every query with None / empty and does not panic
    let r = catch(|| {
        let a = ni::<Ix>(0);
        let e = ei::<Ix>(0);
        d.node_weight(a).is_none()
            && d.edge_weight(e).is_none()
            && d.edge_endpoints(e).is_none()
            && d.find_edge(a, a).is_none()
            && d.find_edge_undirected(a, a).is_none()
            && !d.contains_edge(a, a)
            && d.neighbors(a).next().is_none()
            && d.neighbors_undirected(a).next().is_none()
            && d.edges(a).next().is_none()
            && d.edges_directed(a, Incoming).next().is_none()
            && d.edges_connecting(a, a).next().is_none()
            && d.externals(Outgoing).next().is_none()
            && d.first_edge(a, Outgoing).is_none()
            && d.next_edge(e, Incoming).is_none()
            && d.node_indices().next().is_none()
            && d.edge_references().next().is_none()
            && d.neighbors(a).detach().next(&d).is_none()
    });
    need!(r == Some(true), "a query on the empty graph panics or finds something");
    let mut d = d;
    need!(d.remove_node(ni(0)).is_none() && d.remove_edge(ei(0)).is_none(), "removal from the empty graph returns Some");
    d.reverse();
    d.clear();
    d.clear_edges();
    d.retain_nodes(|_, _| false);
    d.retain_edges(|_, _| true);
    need!(sig(&d) == sig(&w), "no-op calls changed the empty graph");
    None
}

/// the capacity limit of `u16` (the u8 limit is reached inside the modelled histories): `from_edges` /
/// `extend_with_edges` create nodes exactly as repeated `add_node` would and stop — panic, as `add_node`
/// documents — at `u16::MAX` nodes; `NodeIndex::end()` is never a live node; edges likewise
pub fn capacity_u16_block<Ty: EdgeType>(rng: &mut Rng) -> Option<String> {
    let max = u16::MAX as usize;
    let w = rng.below(5) as W;
    let a0 = rng.below(3);
    // one below / at the node limit
    let r = catch(|| Graph::<W, W, Ty, u16>::from_edges([(ni::<u16>(a0), ni::<u16>(max - 1), w)]));
    let mut g = match r {
        None => return Some(format!("from_edges([({}, {})]) panics although {} nodes fit", a0, max - 1, max)),
        Some(g) => g,
    };
    need!(g.node_count() == max && g.edge_count() == 1, "from_edges([({}, {})]) built {} nodes, {} edges", a0, max - 1, g.node_count(), g.edge_count());
    need!(g.node_indices().last() == Some(ni(max - 1)), "last node index is not {}", max - 1);
    need!(g.neighbors(ni(a0)).map(|x| x.index()).collect::<Vec<_>>() == vec![max - 1], "neighbors after from_edges at the limit");
    need!(g.try_add_node(1) == Err(GraphError::NodeIxLimit), "try_add_node at {} nodes is not Err(NodeIxLimit)", max);
    need!(catch(|| g.add_node(1)).is_none(), "add_node at {} nodes does not panic", max);
    need!(g.node_count() == max, "a failed add_node changed node_count to {}", g.node_count());
    let r = catch(|| g.extend_with_edges([(ni::<u16>(1), ni::<u16>(max), w)]));
    need!(r.is_none(), "extend_with_edges naming node {} (= NodeIndex::end()) does not panic; node_count = {}", max, g.node_count());
    need!(g.node_count() == max && g.edge_count() == 1, "after the failed extend_with_edges: {} nodes, {} edges", g.node_count(), g.edge_count());
    need!(g.remove_node(ni(max - 1)) == Some(0) && g.edge_count() == 0, "remove_node({}) at the limit", max - 1);
    need!(g.try_add_node(5).map(|x| x.index()) == Ok(max - 1), "try_add_node one below the limit");
    // from scratch, past the limit
    let r = catch(|| Graph::<W, W, Ty, u16>::from_edges([(ni::<u16>(0), ni::<u16>(1), w), (ni::<u16>(max), ni::<u16>(a0), w)]));
    match r {
        None => {}
        Some(h) => return Some(format!("from_edges naming node {} (= NodeIndex::end()) built a graph with {} nodes", max, h.node_count())),
    }
    let mut h = Graph::<W, W, Ty, u16>::with_capacity(0, 0);
    h.add_node(7);
    let r = catch(|| h.extend_with_edges([(ni::<u16>(0), ni::<u16>(0), w), (ni::<u16>(max), ni::<u16>(0), w)]));
    need!(r.is_none(), "extend_with_edges past the u16 node capacity does not panic; node_count = {}", h.node_count());
    need!(h.node_count() == max && h.edge_count() == 1 && h[ni::<u16>(0)] == 7, "after the failed extend_with_edges: {} nodes, {} edges", h.node_count(), h.edge_count());
    need!(h.node_indices().all(|x| x != NodeIndex::end()), "NodeIndex::end() is a live node");
    // edges
    let mut e = Graph::<W, W, Ty, u16>::with_capacity(2, 0);
    let a = e.add_node(0);
    let b = e.add_node(1);
    let r = catch(|| e.extend_with_edges((0..max).map(|i| (a, if i % 7 == 0 { a } else { b }, (i % 3) as W))));
    need!(r.is_some() && e.edge_count() == max, "{} edges do not fit: edge_count = {}", max, e.edge_count());
    need!(e.try_add_edge(a, b, 1) == Err(GraphError::EdgeIxLimit), "try_add_edge at {} edges is not Err(EdgeIxLimit)", max);
    need!(catch(|| e.add_edge(b, a, 1)).is_none(), "add_edge at {} edges does not panic", max);
    need!(catch(|| e.extend_with_edges([(a, b, 1)])).is_none(), "extend_with_edges at {} edges does not panic", max);
    need!(e.try_update_edge(b, b, 1) == Err(GraphError::EdgeIxLimit), "try_update_edge (new edge) at {} edges is not Err(EdgeIxLimit)", max);
    let last_ab = (0..max).rev().find(|i| i % 7 != 0).unwrap();
    need!(e.try_update_edge(a, b, 9).map(|x| x.index()) == Ok(last_ab), "try_update_edge (existing edge) at the edge limit");
    need!(e.edge_count() == max && e.node_count() == 2, "failed additions changed the counts: {} {}", e.node_count(), e.edge_count());
    need!(e.find_edge(a, b) == Some(ei(last_ab)), "find_edge at the limit is not the most recent edge");
    need!(e.edges(a).count() == max && e.edge_indices().last() == Some(ei(max - 1)), "edges(a) at the limit");
    need!(e.edge_references().all(|r| r.id() != EdgeIndex::end()), "EdgeIndex::end() is a live edge");
    need!(e.remove_edge(ei(0)) == Some(0) && e.edge_count() == max - 1, "remove_edge(0) at the limit");
    need!(e.try_add_edge(b, a, 4).map(|x| x.index()) == Ok(max - 1), "try_add_edge one below the limit");
    None
}

/// `ElementIterator::filter_elements` drops the rejected nodes, every edge touching one, the rejected edges,
/// and renumbers the endpoints; `from_elements` of the result is the graph built by hand
pub fn elements_block<Ty: EdgeType, Ix: IndexType>(rng: &mut Rng) -> Option<String> {
    let cnt = rng.below(12);
    let mut els: Vec<Element<W, W>> = Vec::new();
    let mut keep: Vec<bool> = Vec::new();
    let mut nn = 0usize;
    for _ in 0..cnt {
        if nn == 0 || rng.chance(45) {
            els.push(Element::Node { weight: rng.below(5) as W });
            nn += 1;
        } else {
            els.push(Element::Edge { source: rng.below(nn), target: rng.below(nn), weight: rng.below(5) as W });
        }
        keep.push(rng.chance(70));
    }
    // reference
    let mut newix: Vec<Option<usize>> = Vec::new();
    let mut kept = 0usize;
    let mut want: Vec<Element<W, W>> = Vec::new();
    for (el, &k) in els.iter().zip(&keep) {
        match el {
            Element::Node { weight } => {
                if k {
                    newix.push(Some(kept));
                    kept += 1;
                    want.push(Element::Node { weight: *weight + 1 });
                } else {
                    newix.push(None);
                }
            }
            Element::Edge { source, target, weight } => {
                if let (true, Some(a), Some(b)) = (k, newix[*source], newix[*target]) {
                    want.push(Element::Edge { source: a, target: b, weight: *weight + 1 });
                }
            }
        }
    }
    let mk = || {
        let keep = keep.clone();
        let mut i = 0usize;
        els.clone().into_iter().filter_elements(move |el| {
            i += 1;
            match el {
                Element::Node { weight } => *weight += 1,
                Element::Edge { weight, .. } => *weight += 1,
            }
            keep[i - 1]
        })
    };
    let got: Vec<Element<W, W>> = match catch(|| mk().collect()) {
        None => return Some(format!("filter_elements panics on {:?} with mask {:?}", els, keep)),
        Some(v) => v,
    };
    need!(format!("{:?}", got) == format!("{:?}", want), "filter_elements of {:?} with mask {:?} yields {:?}, expected {:?}", els, keep, got, want);
    let (lo, hi) = mk().size_hint();
    need!(lo <= got.len() && hi.map_or(true, |h| h >= got.len()), "filter_elements: size_hint ({}, {:?}) but {} items", lo, hi, got.len());
    need!(mk().count() == got.len(), "filter_elements: count differs from the number of items");
    let _ = format!("{:?}", got.first());
    let g = Graph::<W, W, Ty, Ix>::from_elements(mk());
    let mut h = Graph::<W, W, Ty, Ix>::with_capacity(0, 0);
    for el in &want {
        match el {
            Element::Node { weight } => {
                h.add_node(*weight);
            }
            Element::Edge { source, target, weight } => {
                h.add_edge(ni(*source), ni(*target), *weight);
            }
        }
    }
    need!(sig(&g) == sig(&h), "from_elements(filter_elements(..)) is [{}], built by hand [{}]", cut(&sig(&g)), cut(&sig(&h)));
    None
}

/// an arbitrary small graph (self-loops, parallel edges, a removal so that links are not in index order)
pub fn prior_graph<Ty: EdgeType, Ix: IndexType>(rng: &mut Rng) -> Graph<W, W, Ty, Ix> {
    let mut g = Graph::<W, W, Ty, Ix>::with_capacity(0, 0);
    let n = *rng.pick(&[0usize, 1, 2, 3, 5, 9]);
    for i in 0..n {
        g.add_node(10 + i as W);
    }
    if n > 0 {
        let m = *rng.pick(&[0usize, 1, 2, 4, 7, 12]);
        for j in 0..m {
            let a = rng.below(n);
            let b = if rng.chance(20) { a } else { rng.below(n) };
            g.add_edge(ni(a), ni(b), 20 + j as W);
        }
        if rng.chance(40) && g.edge_count() > 1 {
            g.remove_edge(ei(0));
        }
        if rng.chance(25) {
            g.remove_node(ni(0));
        }
    }
    g
}
