//! C04 — `MatrixGraph` histories: both edge types, `Option`/`NotZero<i32>` null elements,
//! `u8`/`u16`/`u32`/`usize` indices, exact initial capacities 0..=40, node counts that cross the
//! 4/8/16/32/64(/128) capacity steps with edges in place, removals, id reuse, ~10 % invalid arguments, the
//! `u8` node limit, `from_edges`/`extend_with_edges` across capacity steps.
//!
//! Protocol (see lean/PetgraphModel/Driver/C04.lean): one line per call; after every mutating call a
//! dump = `counts`, `nodes`, `erefs` and `row a` lines (all live nodes, or — in big graphs — the
//! nodes the call touched, with a full dump at intervals and at the end).  Every list is printed in the
//! ITERATION ORDER of the implementation (the driver judges the order).
//! `capscan lo hi` reads the matrix capacity (not observable otherwise) off `try_update_edge(x, x, 1)` on ids
//! beyond the bound (`Ok` iff `x` is below the capacity; undone by `try_remove_edge`).
//! `zprobe a b` (last line of some `NotZero` cases) records what a zero written through `edge_weight_mut`
//! does: outside the documented use of `NotZero`, compared with the model only.
use crate::common::*;
use crate::iterlaws::{iter_laws, law_verdict};
use crate::rng::Rng;
use petgraph::data::Build;
use petgraph::graph::{Frozen, IndexType};
use petgraph::matrix_graph::{MatrixError, MatrixGraph, NodeIndex, NotZero, Nullable};
use petgraph::visit::{
    EdgeCount, EdgeFiltered, GetAdjacencyMatrix, GraphProp, IntoEdgeReferences, IntoEdges, IntoEdgesDirected,
    IntoNeighbors, IntoNeighborsDirected, IntoNodeIdentifiers, IntoNodeReferences, NodeCount, NodeFiltered,
    NodeIndexable, Reversed, UndirectedAdaptor, VisitMap, Visitable,
};
use std::fmt::Debug;
use petgraph::{Directed, Direction, EdgeType, Undirected};
use std::collections::hash_map::RandomState;

type MG<Ty, Null, Ix> = MatrixGraph<i32, i32, RandomState, Ty, Null, Ix>;

/// the observers that only exist on directed matrices
trait DirObs {
    fn nbd(&self, a: usize, d: Direction) -> Option<Vec<usize>>;
    fn edd(&self, a: usize, d: Direction) -> Option<Vec<(usize, usize, i32)>>;
    /// iterator laws of `neighbors_directed` / `edges_directed` (fresh and after `k` items), `Debug` of them,
    /// and the adaptor views that need the directed traits; `None` on undirected matrices
    fn dir_laws(&self, a: usize, k: usize) -> Option<Option<String>>;
}
/// An iterator that can be made again: `clone()` = make it afresh and skip what had been skipped at
/// construction.  (`#[derive(Clone)]` on the matrix iterators demands `Null: Clone`, which `NotZero` is not,
/// so the laws — which consume one iterator in several ways — go through this wrapper; `iterlaws` only ever
/// clones the iterator it was handed, never a partly consumed copy.)  Every overridable method is forwarded.
struct Re<'f, I> {
    mk: &'f dyn Fn() -> I,
    skip: usize,
    it: I,
}
impl<'f, I: Iterator> Re<'f, I> {
    fn new(mk: &'f dyn Fn() -> I, skip: usize) -> Self {
        let mut it = mk();
        for _ in 0..skip {
            it.next();
        }
        Re { mk, skip, it }
    }
}
impl<'f, I: Iterator> Clone for Re<'f, I> {
    fn clone(&self) -> Self {
        Re::new(self.mk, self.skip)
    }
}
impl<'f, I: Iterator> Iterator for Re<'f, I> {
    type Item = I::Item;
    fn next(&mut self) -> Option<I::Item> {
        self.it.next()
    }
    fn size_hint(&self) -> (usize, Option<usize>) {
        self.it.size_hint()
    }
    fn nth(&mut self, n: usize) -> Option<I::Item> {
        self.it.nth(n)
    }
    fn count(self) -> usize {
        self.it.count()
    }
    fn last(self) -> Option<I::Item> {
        self.it.last()
    }
    fn fold<B, F: FnMut(B, I::Item) -> B>(self, init: B, f: F) -> B {
        self.it.fold(init, f)
    }
}
/// the laws of the iterator `mk()` as handed out, and of it after `k` items have been taken
fn laws_fresh_mid<I>(what: &str, mk: &dyn Fn() -> I, k: usize) -> Option<String>
where
    I: Iterator,
    I::Item: PartialEq + Debug,
{
    if let Some(e) = iter_laws(Re::new(mk, 0)) {
        return Some(format!("{} (fresh): {}", what, e));
    }
    iter_laws(Re::new(mk, k)).map(|e| format!("{} (after {} x next): {}", what, k, e))
}
/// `Debug` and `Clone` of the iterator structs (they exist when the null element is `Debug` / `Clone`:
/// `Option<E>`, not `NotZero<E>`): `{:?}` / `{:#?}` never panic; a clone taken mid-iteration goes on alike
trait DbgObs {
    fn dbg_iters(&self, a: usize, k: usize) -> Option<String>;
    /// `None`: the graph type is not `Clone`
    fn clone_law(&self, seed: u64, prior_cap: usize, prior_nodes: usize) -> Option<Option<String>>;
}
fn dbg_clone<I: Iterator + Clone + Debug>(what: &str, mut it: I, k: usize) -> Option<String>
where
    I::Item: PartialEq + Debug,
{
    let _ = format!("{:?} {:#?}", it, it);
    for _ in 0..k {
        it.next();
    }
    let _ = format!("{:?} {:#?}", it, it);
    let c = it.clone();
    same(&format!("{}: a clone taken after {} items", what, k), c.collect::<Vec<_>>(), it.collect::<Vec<_>>())
}
impl<Ix: IndexType> DbgObs for MG<Directed, Option<i32>, Ix> {
    fn clone_law(&self, seed: u64, prior_cap: usize, prior_nodes: usize) -> Option<Option<String>> {
        Some(clone_law_opt(self, seed, prior_cap, prior_nodes))
    }
    fn dbg_iters(&self, a: usize, k: usize) -> Option<String> {
        let ia = NodeIndex::<Ix>::new(a);
        first_some(vec![
            dbg_clone("node_identifiers", self.node_identifiers(), k),
            dbg_clone("node_references", self.node_references(), k),
            dbg_clone("edge_references", self.edge_references(), k),
            dbg_clone("neighbors", self.neighbors(ia), k),
            dbg_clone("edges", self.edges(ia), k),
            dbg_clone("neighbors_directed in", self.neighbors_directed(ia, Direction::Incoming), k),
            dbg_clone("edges_directed in", self.edges_directed(ia, Direction::Incoming), k),
            dbg_clone("edges_directed out", self.edges_directed(ia, Direction::Outgoing), k),
        ])
    }
}
impl<Ix: IndexType> DbgObs for MG<Undirected, Option<i32>, Ix> {
    fn clone_law(&self, seed: u64, prior_cap: usize, prior_nodes: usize) -> Option<Option<String>> {
        Some(clone_law_opt(self, seed, prior_cap, prior_nodes))
    }
    fn dbg_iters(&self, a: usize, k: usize) -> Option<String> {
        let ia = NodeIndex::<Ix>::new(a);
        first_some(vec![
            dbg_clone("node_identifiers", self.node_identifiers(), k),
            dbg_clone("node_references", self.node_references(), k),
            dbg_clone("edge_references", self.edge_references(), k),
            dbg_clone("neighbors", self.neighbors(ia), k),
            dbg_clone("edges", self.edges(ia), k),
        ])
    }
}
impl<Ty: EdgeType, Ix: IndexType> DbgObs for MG<Ty, NotZero<i32>, Ix> {
    fn clone_law(&self, _: u64, _: usize, _: usize) -> Option<Option<String>> {
        None
    }
    fn dbg_iters(&self, a: usize, k: usize) -> Option<String> {
        // `NotZero` is neither `Debug` nor `Clone`: only the node iterators have the impls
        let _ = a;
        first_some(vec![
            dbg_clone("node_identifiers", self.node_identifiers(), k),
            dbg_clone("node_references", self.node_references(), k),
        ])
    }
}
fn first_some(v: Vec<Option<String>>) -> Option<String> {
    v.into_iter().flatten().next()
}
fn same<T: PartialEq + Debug>(what: &str, a: T, b: T) -> Option<String> {
    if a == b {
        None
    } else {
        Some(format!("{}: {:?} vs {:?}", what, a, b))
    }
}
impl<Null: Nullable<Wrapped = i32>, Ix: IndexType> DirObs for MG<Directed, Null, Ix> {
    fn nbd(&self, a: usize, d: Direction) -> Option<Vec<usize>> {
        // alternate between the inherent method and the visit trait (same code path, both public)
        Some(if a % 2 == 0 {
            self.neighbors_directed(NodeIndex::new(a), d).map(|n| n.index()).collect()
        } else {
            IntoNeighborsDirected::neighbors_directed(self, NodeIndex::new(a), d).map(|n| n.index()).collect()
        })
    }
    fn edd(&self, a: usize, d: Direction) -> Option<Vec<(usize, usize, i32)>> {
        Some(if a % 2 == 0 {
            self.edges_directed(NodeIndex::new(a), d).map(|(s, t, w)| (s.index(), t.index(), *w)).collect()
        } else {
            IntoEdgesDirected::edges_directed(self, NodeIndex::new(a), d)
                .map(|(s, t, w)| (s.index(), t.index(), *w))
                .collect()
        })
    }
    fn dir_laws(&self, a: usize, k: usize) -> Option<Option<String>> {
        let g = self;
        let ia = NodeIndex::<Ix>::new(a);
        let ids = |it: &mut dyn Iterator<Item = NodeIndex<Ix>>| -> Vec<usize> { it.map(|n| n.index()).collect() };
        let mut v = vec![];
        for d in [Direction::Outgoing, Direction::Incoming] {
            v.push(laws_fresh_mid(&format!("neighbors_directed {:?}", d), &|| g.neighbors_directed(ia, d), k));
            v.push(laws_fresh_mid(&format!("edges_directed {:?}", d), &|| g.edges_directed(ia, d), k));
            v.push(laws_fresh_mid(
                &format!("IntoNeighborsDirected {:?}", d),
                &|| IntoNeighborsDirected::neighbors_directed(g, ia, d),
                k,
            ));
            v.push(laws_fresh_mid(&format!("IntoEdgesDirected {:?}", d), &|| IntoEdgesDirected::edges_directed(g, ia, d), k));
            // adaptors with an all-pass filter describe the same graph (neighbours; the orientation of the
            // pairs `edges_directed(_, Incoming)` yields is open finding D6 and not looked at)
            let want = ids(&mut g.neighbors_directed(ia, d));
            let ef = EdgeFiltered::from_fn(g, |_| true);
            v.push(same(&format!("EdgeFiltered(all).neighbors_directed {:?}", d), ids(&mut (&ef).neighbors_directed(ia, d)), want.clone()));
            let nf = NodeFiltered::from_fn(g, |_| true);
            v.push(same(&format!("NodeFiltered(all).neighbors_directed {:?}", d), ids(&mut (&nf).neighbors_directed(ia, d)), want.clone()));
            v.push(same(&format!("Reversed.neighbors_directed {:?}", d.opposite()), ids(&mut Reversed(g).neighbors_directed(ia, d.opposite())), want.clone()));
            // the edges route: the far ends of `edges_directed` are the neighbours (either orientation of the pair)
            let far: Vec<usize> = g
                .edges_directed(ia, d)
                .map(|(s, t, _)| if s.index() != a { s.index() } else { t.index() })
                .collect();
            v.push(same(&format!("far ends of edges_directed {:?}", d), far, want));
        }
        let mut und = ids(&mut UndirectedAdaptor(g).neighbors(ia));
        und.sort();
        let mut both = ids(&mut g.neighbors_directed(ia, Direction::Outgoing));
        both.extend(ids(&mut g.neighbors_directed(ia, Direction::Incoming)));
        both.sort();
        v.push(same("UndirectedAdaptor.neighbors = out ++ in", und, both));
        v.push(same("Reversed.neighbors = in", ids(&mut Reversed(g).neighbors(ia)), ids(&mut g.neighbors_directed(ia, Direction::Incoming))));
        Some(first_some(v))
    }
}
impl<Null: Nullable<Wrapped = i32>, Ix: IndexType> DirObs for MG<Undirected, Null, Ix> {
    fn nbd(&self, _: usize, _: Direction) -> Option<Vec<usize>> {
        None
    }
    fn edd(&self, _: usize, _: Direction) -> Option<Vec<(usize, usize, i32)>> {
        None
    }
    fn dir_laws(&self, _: usize, _: usize) -> Option<Option<String>> {
        None
    }
}

/// everything the public API shows of `g` (used to compare two graphs that must be indistinguishable)
fn full_dump<Ty: EdgeType, Null: Nullable<Wrapped = i32>, Ix: IndexType>(g: &MG<Ty, Null, Ix>) -> String
where
    MG<Ty, Null, Ix>: DirObs + DbgObs,
{
    let ix = |a: usize| NodeIndex::<Ix>::new(a);
    let kmax = <Ix as IndexType>::max().index();
    let b = g.node_bound();
    let mut s = format!(
        "n={} e={} b={} dir={} ids={} refs={} erefs={}",
        g.node_count(),
        g.edge_count(),
        b,
        g.is_directed(),
        list(g.node_identifiers().map(|n| n.index())),
        list(g.node_references().map(|(n, w)| format!("{}:{}", n.index(), w))),
        triples(g.edge_references().map(|(s, t, w)| (s.index(), t.index(), *w)))
    );
    let top = (b + 2).min(kmax);
    for a in 0..=top {
        let ed = triples(g.edges(ix(a)).map(|(s, t, w)| (s.index(), t.index(), *w)));
        let nb = list(g.neighbors(ix(a)).map(|n| n.index()));
        let nw = opt(g.get_node_weight(ix(a)).copied());
        if ed != "-" || nb != "-" || nw != "none" {
            s += &format!(" [{} w={} nb={} ed={}", a, nw, nb, ed);
            if let Some(v) = g.nbd(a, Direction::Incoming) {
                s += &format!(" nbi={} edi={}", list(v), triples(g.edd(a, Direction::Incoming).unwrap()));
            }
            s += "]";
        }
    }
    if b <= 48 {
        s += " he=";
        for a in 0..b {
            for c in 0..b {
                s.push(if g.has_edge(ix(a), ix(c)) { '1' } else { '0' });
            }
        }
    }
    s
}

/// the private capacity as read off `try_update_edge` beyond the bound (each write undone at once)
fn capbits_mut<Ty: EdgeType, Null: Nullable<Wrapped = i32>, Ix: IndexType>(c: &mut MG<Ty, Null, Ix>) -> String {
    let ix = |a: usize| NodeIndex::<Ix>::new(a);
    let kmax = <Ix as IndexType>::max().index();
    let b = c.node_bound();
    let mut s = String::from(" cap=");
    for x in b..(b + 70).min(kmax.saturating_add(1)) {
        let ok = c.try_update_edge(ix(x), ix(x), 1).is_ok();
        let _ = c.try_remove_edge(ix(x), ix(x));
        s.push(if ok { '1' } else { '0' });
    }
    s
}

/// a short deterministic script of calls applied to a graph (used to compare graphs that must behave alike)
fn script<Ty: EdgeType, Null: Nullable<Wrapped = i32>, Ix: IndexType>(g: &mut MG<Ty, Null, Ix>, seed: u64) -> String
where
    MG<Ty, Null, Ix>: DirObs + DbgObs,
{
    let mut r = Rng::for_case(seed, "C04-script", 0);
    let mut out = String::new();
    let ix = |a: usize| NodeIndex::<Ix>::new(a);
    for step in 0..(4 + r.below(6)) {
        let live: Vec<usize> = g.node_identifiers().map(|n| n.index()).collect();
        match r.below(5) {
            0 | 1 => out += &format!(" add={:?}", g.try_add_node(1000 + step as i32).map(|n| n.index())),
            2 | 3 if !live.is_empty() => {
                let (a, b) = (live[r.below(live.len())], live[r.below(live.len())]);
                out += &format!(" upd({},{})={:?}", a, b, g.try_update_edge(ix(a), ix(b), 5 + step as i32));
            }
            4 if !live.is_empty() => {
                let a = live[r.below(live.len())];
                out += &format!(" rm({})={}", a, g.remove_node(ix(a)));
            }
            _ => {}
        }
    }
    out += " :: ";
    out += &full_dump(g);
    out += &capbits_mut(g);
    out
}

/// `clone`, `clone_from` over an arbitrary prior graph, independence of the copies, `&Frozen` view
/// (`MatrixGraph: Clone` needs `Null: Clone`: `Option<E>` graphs only)
fn clone_law_opt<Ty: EdgeType + Clone, Ix: IndexType>(
    g: &MG<Ty, Option<i32>, Ix>,
    seed: u64,
    prior_cap: usize,
    prior_nodes: usize,
) -> Option<String>
where
    MG<Ty, Option<i32>, Ix>: DirObs + DbgObs,
{
    let ix = |a: usize| NodeIndex::<Ix>::new(a);
    let kmax = <Ix as IndexType>::max().index();
    let before = full_dump(g);
    let mut c = g.clone();
    if full_dump(&c) != before {
        return Some(format!("clone differs: {} vs {}", full_dump(&c), before));
    }
    // an arbitrary prior graph (own capacity, nodes, edges, a vacancy)
    let mut a: MG<Ty, Option<i32>, Ix> = MatrixGraph::with_capacity(prior_cap);
    for i in 0..prior_nodes.min(kmax) {
        a.add_node(-(i as i32) - 1);
    }
    for i in 1..prior_nodes.min(kmax) {
        a.update_edge(ix(i), ix(i / 2), 9);
    }
    if prior_nodes > 2 {
        a.remove_node(ix(1));
    }
    a.clone_from(g);
    if full_dump(&a) != before {
        return Some(format!("clone_from differs from clone: {} vs {}", full_dump(&a), before));
    }
    // the same calls on both copies give the same answers (id reuse order, growth, capacity) …
    let (sa, sc) = (script(&mut a, seed), script(&mut c, seed));
    if sa != sc {
        return Some(format!("after clone_from / clone the same calls answer differently: {} vs {}", sa, sc));
    }
    // … and the original has not moved
    if full_dump(g) != before {
        return Some("mutating a clone changed the original".to_string());
    }
    // `&Frozen` describes the same graph
    let mut f0 = g.clone();
    let f = Frozen::new(&mut f0);
    let fr = &f;
    let e1: Vec<(usize, usize, i32)> = fr.edge_references().map(|(s, t, w)| (s.index(), t.index(), *w)).collect();
    let e2: Vec<(usize, usize, i32)> = g.edge_references().map(|(s, t, w)| (s.index(), t.index(), *w)).collect();
    let n1: Vec<usize> = fr.node_identifiers().map(|n| n.index()).collect();
    let n2: Vec<usize> = g.node_identifiers().map(|n| n.index()).collect();
    first_some(vec![same("&Frozen edge_references", e1, e2), same("&Frozen node_identifiers", n1, n2)])
}

fn triples(v: impl IntoIterator<Item = (usize, usize, i32)>) -> String {
    list(v.into_iter().map(|(a, b, w)| format!("{}:{}:{}", a, b, w)))
}
fn p_or<T>(r: Option<T>, f: impl FnOnce(T) -> String) -> String {
    match r {
        Some(v) => f(v),
        None => "panic".to_string(),
    }
}
fn res_str(r: Result<Option<i32>, MatrixError>) -> String {
    match r {
        Ok(o) => format!("ok {}", opt(o)),
        Err(MatrixError::NodeIxLimit) => "err NodeIxLimit".to_string(),
        Err(MatrixError::NodeMissed(i)) => format!("err NodeMissed {}", i),
    }
}

struct Run<'a, Ty: EdgeType, Null: Nullable<Wrapped = i32>, Ix: IndexType> {
    g: MG<Ty, Null, Ix>,
    ctx: &'a mut Ctx,
    live: Vec<usize>,
    serial: i32,
    nz: bool,
    kmax: usize,
    big: usize, // above this many live nodes dumps are partial
    since_full: usize,
}

impl<'a, Ty: EdgeType, Null: Nullable<Wrapped = i32>, Ix: IndexType> Run<'a, Ty, Null, Ix>
where
    MG<Ty, Null, Ix>: DirObs + DbgObs,
{
    fn ix(a: usize) -> NodeIndex<Ix> {
        NodeIndex::new(a)
    }
    fn refresh(&mut self) {
        self.live = self.g.node_identifiers().map(|n| n.index()).collect();
        self.live.sort();
    }
    fn next_serial(&mut self) -> i32 {
        self.serial += 1;
        self.serial
    }
    fn row(&mut self, a: usize) {
        let g = &self.g;
        let r = catch(|| {
            let mut s = format!(
                "nb={} ed={}",
                list(g.neighbors(Self::ix(a)).map(|n| n.index())),
                triples(IntoEdges::edges(g, Self::ix(a)).map(|(s, t, w)| (s.index(), t.index(), *w)))
            );
            if let Some(v) = g.nbd(a, Direction::Outgoing) {
                s += &format!(
                    " nbo={} nbi={} edo={} edi={}",
                    list(v),
                    list(g.nbd(a, Direction::Incoming).unwrap()),
                    triples(g.edd(a, Direction::Outgoing).unwrap()),
                    triples(g.edd(a, Direction::Incoming).unwrap())
                );
            }
            let bits = |f: &dyn Fn(usize) -> bool| -> String {
                if self.live.is_empty() {
                    "-".to_string()
                } else {
                    self.live.iter().map(|&x| if f(x) { '1' } else { '0' }).collect()
                }
            };
            s += &format!(
                " he={} hr={} gw={}",
                bits(&|x| g.has_edge(Self::ix(a), Self::ix(x))),
                bits(&|x| g.has_edge(Self::ix(x), Self::ix(a))),
                list(self.live.iter().map(|&x| match g.get_edge_weight(Self::ix(a), Self::ix(x)) {
                    Some(w) => w.to_string(),
                    None => "_".to_string(),
                }))
            );
            s
        });
        self.ctx.line(&format!("row {}", a), &r.unwrap_or_else(|| "panic".into()));
    }
    /// observation after a mutating call
    fn dump(&mut self, touched: &[usize], force_full: bool) {
        let g = &self.g;
        let r = catch(|| format!("n={} e={} b={}", g.node_count(), g.edge_count(), g.node_bound()));
        self.ctx.line("counts", &r.unwrap_or_else(|| "panic".into()));
        let r = catch(|| {
            format!(
                "ids={} refs={}",
                list(g.node_identifiers().map(|n| n.index())),
                list(g.node_references().map(|(n, w)| format!("{}:{}", n.index(), w)))
            )
        });
        self.ctx.line("nodes", &r.unwrap_or_else(|| "panic".into()));
        let r = catch(|| triples(g.edge_references().map(|(s, t, w)| (s.index(), t.index(), *w))));
        self.ctx.line("erefs", &r.unwrap_or_else(|| "panic".into()));
        self.refresh();
        let full = force_full || self.live.len() <= self.big || self.since_full >= 24;
        if full {
            self.since_full = 0;
            for a in self.live.clone() {
                self.row(a);
            }
        } else {
            self.since_full += 1;
            let mut t: Vec<usize> = touched.to_vec();
            t.sort();
            t.dedup();
            for a in t {
                self.row(a);
            }
        }
    }
    /// read the matrix capacity off `try_update_edge` on ids that are not nodes (all ids >= node_bound)
    fn capscan(&mut self) {
        let lo = self.g.node_bound();
        let hi = (2 * lo.max(20) + 6).min(lo + 300).min(self.kmax.saturating_add(1));
        if lo >= hi {
            return;
        }
        let g = &mut self.g;
        let r = catch(|| {
            (lo..hi)
                .map(|x| {
                    let ok = g.try_update_edge(Self::ix(x), Self::ix(x), 1).is_ok();
                    let _ = g.try_remove_edge(Self::ix(x), Self::ix(x));
                    if ok {
                        '1'
                    } else {
                        '0'
                    }
                })
                .collect::<String>()
        });
        self.ctx.line(&format!("capscan {} {}", lo, hi), &r.unwrap_or_else(|| "panic".into()));
    }
    /// the sentinel written through `edge_weight_mut` of a `NotZero` graph (ends the case)
    fn zprobe(&mut self, rng: &mut Rng) {
        let es: Vec<(usize, usize)> = self.g.edge_references().map(|(s, t, _)| (s.index(), t.index())).collect();
        if !self.nz || es.is_empty() {
            return;
        }
        let (mut a, mut b) = es[rng.below(es.len())];
        if !Ty::is_directed() && rng.chance(50) {
            std::mem::swap(&mut a, &mut b);
        }
        let (ia, ib) = (Self::ix(a), Self::ix(b));
        let r = catch(|| if a % 2 == 0 { *self.g.edge_weight_mut(ia, ib) = 0 } else { self.g[(ia, ib)] = 0 });
        let g = &self.g;
        let obs = catch(|| {
            format!(
                "he={} gw={} ec={} er={}",
                g.has_edge(ia, ib),
                opt(g.get_edge_weight(ia, ib).copied()),
                g.edge_count(),
                g.edge_references().count()
            )
        });
        self.ctx.line(
            &format!("zprobe {} {}", a, b),
            &format!("{} {}", p_or(r, |_| "ok".into()), obs.unwrap_or_else(|| "panic".into())),
        );
    }
    fn emit_law(&mut self, name: &str, r: Option<Option<String>>) {
        let v = match r {
            Some(x) => law_verdict(x),
            None => "VIOLATED the check panicked".to_string(),
        };
        self.ctx.line(&format!("law {}", name), &v);
    }
    /// the nodes whose row iterators are put under the laws: lowest, highest, two random live ids, one id
    /// that is not a node (vacant or beyond the bound)
    fn law_nodes(&self, rng: &mut Rng) -> Vec<usize> {
        let mut v = vec![];
        if !self.live.is_empty() {
            v.push(self.live[0]);
            v.push(*self.live.last().unwrap());
            v.push(self.live[rng.below(self.live.len())]);
            v.push(self.live[rng.below(self.live.len())]);
        }
        if let Some(d) = self.pick_dead(rng) {
            v.push(d);
        }
        v.sort();
        v.dedup();
        v
    }
    /// LAWS checked against the implementation itself (no state change): the `Iterator` contract of every
    /// iterator the matrix hands out (fresh and mid-iteration), `Debug` of the iterators, trait views.
    fn laws(&mut self, rng: &mut Rng) {
        self.refresh();
        let k = rng.below(4);
        let r = catch(|| laws_fresh_mid("node_identifiers", &|| self.g.node_identifiers(), k));
        self.emit_law("iter node_identifiers", r);
        let r = catch(|| laws_fresh_mid("node_references", &|| self.g.node_references(), k));
        self.emit_law("iter node_references", r);
        let ke = rng.below(6);
        let r = catch(|| laws_fresh_mid("edge_references", &|| self.g.edge_references(), ke));
        self.emit_law("iter edge_references", r);
        for a in self.law_nodes(rng) {
            let k = rng.below(3);
            let ia = Self::ix(a);
            let r = catch(|| {
                let g = &self.g;
                first_some(vec![
                    laws_fresh_mid("neighbors", &|| g.neighbors(ia), k),
                    laws_fresh_mid("IntoNeighbors::neighbors", &|| IntoNeighbors::neighbors(g, ia), k),
                    laws_fresh_mid("edges", &|| g.edges(ia), k),
                    laws_fresh_mid("IntoEdges::edges", &|| IntoEdges::edges(g, ia), k),
                    // the all-pass adaptors describe the same row
                    same(
                        "EdgeFiltered(all).neighbors",
                        (&EdgeFiltered::from_fn(g, |_| true)).neighbors(ia).map(|n| n.index()).collect::<Vec<_>>(),
                        g.neighbors(ia).map(|n| n.index()).collect::<Vec<_>>(),
                    ),
                    same(
                        "NodeFiltered(all).neighbors",
                        (&NodeFiltered::from_fn(g, |_| true)).neighbors(ia).map(|n| n.index()).collect::<Vec<_>>(),
                        g.neighbors(ia).map(|n| n.index()).collect::<Vec<_>>(),
                    ),
                    g.dbg_iters(a, k),
                    same(
                        "targets of edges = neighbors",
                        g.edges(ia).map(|(_, t, _)| t.index()).collect::<Vec<_>>(),
                        g.neighbors(ia).map(|n| n.index()).collect::<Vec<_>>(),
                    ),
                ])
            });
            self.emit_law(&format!("iter row {}", a), r);
            if let Some(r) = catch(|| self.g.dir_laws(a, k)).map_or(Some(None), |x| x.map(Some)) {
                self.emit_law(&format!("iter row_directed {}", a), r);
            }
        }
        // trait views of the same graph
        let r = catch(|| {
            let g = &self.g;
            let er: Vec<(usize, usize, i32)> = g.edge_references().map(|(s, t, w)| (s.index(), t.index(), *w)).collect();
            let ef = EdgeFiltered::from_fn(g, |_| true);
            let nf = NodeFiltered::from_fn(g, |_| true);
            let ids: Vec<usize> = g.node_identifiers().map(|n| n.index()).collect();
            first_some(vec![
                same("NodeCount::node_count", NodeCount::node_count(g), g.node_count()),
                same("node_identifiers().count()", g.node_identifiers().count(), g.node_count()),
                same("node_references().count()", g.node_references().count(), g.node_count()),
                same("EdgeCount::edge_count", EdgeCount::edge_count(g), g.edge_count()),
                same("edge_references().count()", g.edge_references().count(), g.edge_count()),
                same("is_directed", g.is_directed(), Ty::is_directed()),
                same("GraphProp::is_directed", GraphProp::is_directed(g), Ty::is_directed()),
                same(
                    "EdgeFiltered(all).edge_references",
                    (&ef).edge_references().map(|(s, t, w)| (s.index(), t.index(), *w)).collect::<Vec<_>>(),
                    er.clone(),
                ),
                same("NodeFiltered(all).node_identifiers", (&nf).node_identifiers().map(|n| n.index()).collect::<Vec<_>>(), ids.clone()),
                same(
                    "node_references ids",
                    g.node_references().map(|(n, _)| n.index()).collect::<Vec<_>>(),
                    ids.clone(),
                ),
                ids.iter().find_map(|&i| {
                    let n = Self::ix(i);
                    if g.to_index(n) != i || g.from_index(i) != n || i >= g.node_bound() {
                        Some(format!("NodeIndexable: id {} to_index {} bound {}", i, g.to_index(n), g.node_bound()))
                    } else if g.get_node_weight(n) != Some(&g[n]) || g.node_weight(n) != &g[n] {
                        Some(format!("node weight routes differ at {}", i))
                    } else {
                        None
                    }
                }),
                er.iter().find_map(|&(a, b, w)| {
                    let (ia, ib) = (Self::ix(a), Self::ix(b));
                    if !g.has_edge(ia, ib) || !g.is_adjacent(&g.adjacency_matrix(), ia, ib) {
                        Some(format!("edge_references yields {}:{} but has_edge/is_adjacent deny it", a, b))
                    } else if g.get_edge_weight(ia, ib) != Some(&w) || g[(ia, ib)] != w || *g.edge_weight(ia, ib) != w {
                        Some(format!("edge weight routes differ at {}:{}", a, b))
                    } else {
                        None
                    }
                }),
            ])
        });
        self.emit_law("views", r);
        // Visitable / VisitMap (FixedBitSet): a fresh map, and a map made for another graph after reset_map
        let other = rng.below(2 * self.g.node_bound() + 3);
        let r = catch(|| {
            let g = &self.g;
            let b = g.node_bound();
            let check = |m: &mut <MG<Ty, Null, Ix> as Visitable>::Map, what: &str| -> Option<String> {
                for &i in &self.live {
                    let n = Self::ix(i);
                    if m.is_visited(&n) {
                        return Some(format!("{}: node {} is visited in a clean map", what, i));
                    }
                    if m.unvisit(n) || m.is_visited(&n) {
                        return Some(format!("{}: unvisit of the unvisited node {} answers true / marks it", what, i));
                    }
                    if !m.visit(n) || !m.is_visited(&n) || m.visit(n) {
                        return Some(format!("{}: visit({}) does not mark exactly once", what, i));
                    }
                    if i % 2 == 0 && (!m.unvisit(n) || m.is_visited(&n)) {
                        return Some(format!("{}: unvisit({}) of a visited node", what, i));
                    }
                }
                None
            };
            let mut m = g.visit_map();
            if m.len() < b {
                return Some(format!("visit_map has {} bits for node_bound {}", m.len(), b));
            }
            if let Some(e) = check(&mut m, "visit_map") {
                return Some(e);
            }
            // a workspace made for a smaller / larger graph, dirty
            let mut h: MG<Ty, Null, Ix> = MatrixGraph::with_capacity(0);
            for _ in 0..other.min(self.kmax) {
                let _ = h.try_add_node(0);
            }
            let mut m2 = h.visit_map();
            for i in 0..m2.len() {
                if i % 3 != 1 {
                    m2.visit(Self::ix(i));
                }
            }
            g.reset_map(&mut m2);
            if m2.len() < b {
                return Some(format!("reset_map leaves {} bits for node_bound {}", m2.len(), b));
            }
            check(&mut m2, &format!("reset_map of a map for {} nodes", other))
        });
        self.emit_law("visit_map", r);
    }
    /// `clone`, `clone_from`, independence of the copies, `&Frozen` (graphs that are `Clone`)
    fn clone_laws(&mut self, rng: &mut Rng) {
        let (seed, prior_cap, prior_nodes) = (rng.next(), rng.below(12), rng.below(9));
        match catch(|| self.g.clone_law(seed, prior_cap, prior_nodes)) {
            Some(None) => {}
            Some(Some(r)) => self.emit_law("clone_from", Some(r)),
            None => self.emit_law("clone_from", None),
        }
    }
    fn pick_live(&self, rng: &mut Rng) -> usize {
        if self.live.is_empty() {
            return 0;
        }
        if rng.chance(30) {
            // one of the highest ids: this is what makes the matrix grow
            let k = self.live.len().min(3);
            self.live[self.live.len() - 1 - rng.below(k)]
        } else {
            self.live[rng.below(self.live.len())]
        }
    }
    /// an id that is not a live node (vacant, or beyond the bound), representable in `Ix`
    fn pick_dead(&self, rng: &mut Rng) -> Option<usize> {
        let bound = self.g.node_bound();
        let hi = (bound + 3).min(self.kmax);
        let cands: Vec<usize> = (0..=hi).filter(|i| self.live.binary_search(i).is_err()).collect();
        if cands.is_empty() {
            None
        } else {
            Some(cands[rng.below(cands.len())])
        }
    }
    /// mostly live, sometimes not
    fn pick_any(&self, rng: &mut Rng, bad_pct: u32) -> usize {
        if rng.chance(bad_pct) {
            if let Some(d) = self.pick_dead(rng) {
                return d;
            }
        }
        self.pick_live(rng)
    }
    fn weight(&self, rng: &mut Rng) -> i32 {
        if self.nz {
            if rng.chance(4) {
                0
            } else {
                let w = rng.range(-3, 5) as i32;
                if w >= 0 {
                    w + 1
                } else {
                    w
                }
            }
        } else {
            rng.range(-2, 6) as i32
        }
    }
    fn add_node(&mut self, rng: &mut Rng) {
        let w = self.next_serial();
        if rng.chance(35) {
            let r = self.g.try_add_node(w);
            let s = match r {
                Ok(i) => format!("ok {}", i.index()),
                Err(MatrixError::NodeIxLimit) => "err NodeIxLimit".into(),
                Err(MatrixError::NodeMissed(i)) => format!("err NodeMissed {}", i),
            };
            self.ctx.line(&format!("try_add_node {}", w), &s);
        } else if rng.chance(20) {
            let r = catch(|| Build::add_node(&mut self.g, w).index());
            self.ctx.line(&format!("add_node {}", w), &p_or(r, |v| v.to_string()));
        } else {
            let r = catch(|| self.g.add_node(w).index());
            self.ctx.line(&format!("add_node {}", w), &p_or(r, |v| v.to_string()));
        }
    }
    /// an edge-writing call between `a` and `b`; `probe` = followed by `try_remove_edge` on one line
    fn edge_write(&mut self, kind: usize, a: usize, b: usize, w: i32, probe: bool) {
        let (ia, ib) = (Self::ix(a), Self::ix(b));
        let g = &mut self.g;
        let (name, ans) = match kind {
            0 => ("add_edge", p_or(catch(|| g.add_edge(ia, ib, w)), |_| "ok".into())),
            1 => ("update_edge", p_or(catch(|| g.update_edge(ia, ib, w)), |o| if probe { opt(o) } else { opt(o) })),
            2 => ("try_update_edge", p_or(catch(|| g.try_update_edge(ia, ib, w)), res_str)),
            3 => ("add_or_update_edge", p_or(catch(|| g.add_or_update_edge(ia, ib, w)), res_str)),
            4 => ("build_add_edge", p_or(catch(|| Build::add_edge(g, ia, ib, w)), |o| o.is_some().to_string())),
            _ => ("build_update_edge", p_or(catch(|| Build::update_edge(g, ia, ib, w)), |_| "ok".into())),
        };
        if probe {
            let undo = opt(self.g.try_remove_edge(ia, ib));
            self.ctx.line(&format!("probe {} {} {} {}", name, a, b, w), &format!("{} / {}", ans, undo));
        } else {
            self.ctx.line(&format!("{} {} {} {}", name, a, b, w), &ans);
        }
    }
    fn query(&mut self, rng: &mut Rng) {
        let g = &self.g;
        let a = self.pick_any(rng, 15);
        let b = self.pick_any(rng, 10);
        let (ia, ib) = (Self::ix(a), Self::ix(b));
        match rng.below(13) {
            0 => self.ctx.line(&format!("has_edge {} {}", a, b), &g.has_edge(ia, ib).to_string()),
            1 => self.ctx.line(&format!("is_adjacent {} {}", a, b), &g.is_adjacent(&g.adjacency_matrix(), ia, ib).to_string()),
            2 => {
                let r = catch(|| if a % 2 == 0 { *g.edge_weight(ia, ib) } else { g[(ia, ib)] });
                self.ctx.line(&format!("edge_weight {} {}", a, b), &p_or(r, |v| v.to_string()));
            }
            3 => self.ctx.line(&format!("get_edge_weight {} {}", a, b), &opt(g.get_edge_weight(ia, ib).copied())),
            4 => {
                let r = catch(|| if a % 2 == 0 { *g.node_weight(ia) } else { g[ia] });
                self.ctx.line(&format!("node_weight {}", a), &p_or(r, |v| v.to_string()));
            }
            5 => self.ctx.line(&format!("get_node_weight {}", a), &opt(g.get_node_weight(ia).copied())),
            6 => {
                let r = catch(|| list(IntoNeighbors::neighbors(g, ia).map(|n| n.index())));
                self.ctx.line(&format!("neighbors {}", a), &r.unwrap_or_else(|| "panic".into()));
            }
            7 => {
                let r = catch(|| triples(g.edges(ia).map(|(s, t, w)| (s.index(), t.index(), *w))));
                self.ctx.line(&format!("edges {}", a), &r.unwrap_or_else(|| "panic".into()));
            }
            8 | 9 => {
                let d = if rng.chance(50) { Direction::Outgoing } else { Direction::Incoming };
                let dn = if d == Direction::Outgoing { "out" } else { "in" };
                let r = catch(|| g.nbd(a, d).map(list));
                match r {
                    Some(Some(s)) => self.ctx.line(&format!("neighbors_directed {} {}", a, dn), &s),
                    Some(None) => {}
                    None => self.ctx.line(&format!("neighbors_directed {} {}", a, dn), "panic"),
                }
                let r = catch(|| g.edd(a, d).map(triples));
                match r {
                    Some(Some(s)) => self.ctx.line(&format!("edges_directed {} {}", a, dn), &s),
                    Some(None) => {}
                    None => self.ctx.line(&format!("edges_directed {} {}", a, dn), "panic"),
                }
            }
            10 => self.ctx.line("node_count", &g.node_count().to_string()),
            11 => self.ctx.line("edge_count", &g.edge_count().to_string()),
            _ => {
                let r = catch(|| format!("n={} e={} b={}", g.node_count(), g.edge_count(), g.node_bound()));
                self.ctx.line("counts", &r.unwrap_or_else(|| "panic".into()));
            }
        }
    }
    /// one random call; `grow` = the phase that adds more than it removes
    fn op(&mut self, rng: &mut Rng, grow: bool, want_nodes: usize) {
        let n = self.live.len();
        let ws: [u32; 13] = if grow && n < want_nodes {
            //  add  edge+ edge-  node-  query wmut clear extend probe badrm capscan laws clone
            [30, 40, 5, 3, 9, 4, 0, 3, 4, 3, 2, 1, 0]
        } else if grow {
            [6, 40, 12, 8, 14, 6, 1, 3, 6, 5, 2, 2, 1]
        } else {
            [10, 26, 18, 16, 12, 5, 1, 2, 5, 5, 2, 3, 1]
        };
        let k = if n == 0 { 0 } else { rng.weighted(&ws) };
        match k {
            0 => {
                self.add_node(rng);
                self.refresh();
                let newest: Vec<usize> = self.live.clone();
                // the new node's row is the interesting one ("a reused id starts with no incident edges")
                let g = &self.g;
                let fresh: Vec<usize> = newest.into_iter().filter(|&i| g.get_node_weight(Self::ix(i)) == Some(&self.serial)).collect();
                self.dump(&fresh, false);
            }
            1 => {
                let a = self.pick_live(rng);
                let b = if rng.chance(8) { a } else { self.pick_live(rng) };
                let w = self.weight(rng);
                let exists = self.g.has_edge(Self::ix(a), Self::ix(b));
                let mut kind = rng.weighted(&[35, 25, 15, 10, 8, 7]);
                if kind == 0 && exists && !rng.chance(12) {
                    kind = 1; // add_edge on an existing edge panics: keep that to a few deliberate calls
                }
                self.edge_write(kind, a, b, w, false);
                self.dump(&[a, b], false);
            }
            2 => {
                // remove an edge: mostly an existing one
                let mut a = self.pick_live(rng);
                let mut b = self.pick_live(rng);
                if rng.chance(88) {
                    let es: Vec<(usize, usize)> = self.g.edge_references().map(|(s, t, _)| (s.index(), t.index())).collect();
                    if !es.is_empty() {
                        let e = es[rng.below(es.len())];
                        if rng.chance(50) || Ty::is_directed() {
                            a = e.0;
                            b = e.1;
                        } else {
                            a = e.1;
                            b = e.0;
                        }
                    }
                }
                let (ia, ib) = (Self::ix(a), Self::ix(b));
                if rng.chance(50) {
                    let r = catch(|| self.g.remove_edge(ia, ib));
                    self.ctx.line(&format!("remove_edge {} {}", a, b), &p_or(r, |v| v.to_string()));
                } else {
                    let r = self.g.try_remove_edge(ia, ib);
                    self.ctx.line(&format!("try_remove_edge {} {}", a, b), &opt(r));
                }
                self.dump(&[a, b], false);
            }
            3 => {
                let a = self.pick_live(rng);
                let nbrs: Vec<usize> = self.g.neighbors(Self::ix(a)).map(|n| n.index()).collect();
                let r = catch(|| self.g.remove_node(Self::ix(a)));
                self.ctx.line(&format!("remove_node {}", a), &p_or(r, |v| v.to_string()));
                self.dump(&nbrs, false);
            }
            4 => self.query(rng),
            5 => {
                if rng.chance(50) {
                    let a = self.pick_any(rng, 12);
                    let w = self.next_serial();
                    let route = rng.below(3);
                    let r = catch(|| match route {
                        0 => *self.g.node_weight_mut(Self::ix(a)) = w,
                        1 => self.g[Self::ix(a)] = w,
                        // `None` exactly where `node_weight_mut` panics
                        _ => *self.g.get_node_weight_mut(Self::ix(a)).expect("no such node") = w,
                    });
                    self.ctx.line(&format!("node_weight_mut {} {}", a, w), &p_or(r, |_| "ok".into()));
                    self.dump(&[], false);
                } else {
                    let mut a = self.pick_any(rng, 8);
                    let mut b = self.pick_any(rng, 8);
                    if rng.chance(80) {
                        let es: Vec<(usize, usize)> = self.g.edge_references().map(|(s, t, _)| (s.index(), t.index())).collect();
                        if !es.is_empty() {
                            let e = es[rng.below(es.len())];
                            if rng.chance(50) || Ty::is_directed() {
                                a = e.0;
                                b = e.1;
                            } else {
                                a = e.1;
                                b = e.0;
                            }
                        }
                    }
                    let mut w = self.weight(rng);
                    if self.nz && w == 0 {
                        w = 7; // writing the sentinel through `&mut E` is outside the documented use
                    }
                    let (ia, ib) = (Self::ix(a), Self::ix(b));
                    let route = rng.below(3);
                    let r = catch(|| match route {
                        0 => *self.g.edge_weight_mut(ia, ib) = w,
                        1 => self.g[(ia, ib)] = w,
                        // `None` exactly where `edge_weight_mut` panics
                        _ => *self.g.get_edge_weight_mut(ia, ib).expect("no such edge") = w,
                    });
                    self.ctx.line(&format!("edge_weight_mut {} {} {}", a, b, w), &p_or(r, |_| "ok".into()));
                    self.dump(&[a, b], false);
                }
            }
            6 => {
                self.g.clear();
                self.ctx.line("clear", "ok");
                self.dump(&[], true);
            }
            7 => {
                // extend_with_edges: only when the live ids are 0..n (then the nodes it adds are n, n+1, …)
                let contiguous = self.live.iter().enumerate().all(|(i, &x)| i == x) && self.g.node_bound() == n;
                if contiguous && n + 12 < self.kmax && n < 60 {
                    let m = 1 + rng.below(4);
                    // sometimes a jump of several nodes at once (crosses a capacity step inside one call)
                    let jump = if rng.chance(25) { 2 + rng.below(9) } else { 2 };
                    let mut es: Vec<(usize, usize, i32)> = vec![];
                    let mut top = n; // number of nodes after the elements so far
                    for _ in 0..m {
                        let a = rng.below(top + jump);
                        let b = rng.below(top + 2);
                        let dup = es.iter().any(|&(x, y, _)| (x, y) == (a, b) || (!Ty::is_directed() && (x, y) == (b, a)))
                            || (a < n && b < n && self.g.has_edge(Self::ix(a), Self::ix(b)));
                        if dup && !rng.chance(10) {
                            continue;
                        }
                        es.push((a, b, self.weight(rng)));
                        top = top.max(a.max(b) + 1);
                    }
                    if !es.is_empty() {
                        let items: Vec<(NodeIndex<Ix>, NodeIndex<Ix>, i32)> = es.iter().map(|&(a, b, w)| (Self::ix(a), Self::ix(b), w)).collect();
                        let r = catch(|| self.g.extend_with_edges(items));
                        self.ctx.line(&format!("extend_with_edges {}", triples(es.clone())), &p_or(r, |_| "ok".into()));
                        let t: Vec<usize> = es.iter().flat_map(|&(a, b, _)| [a, b]).collect();
                        self.dump(&t, false);
                    }
                }
            }
            10 => {
                self.capscan();
                self.dump(&[], false);
            }
            11 => self.laws(rng),
            12 => self.clone_laws(rng),
            8 => {
                // edge-writing call with an endpoint that does not exist (outside the property: exact only)
                if let Some(dead) = self.pick_dead(rng) {
                    let l = self.pick_live(rng);
                    let (a, b) = match rng.below(5) {
                        0 => (dead, l),
                        1 => (dead, dead),
                        _ => (l, dead),
                    };
                    let w = self.weight(rng);
                    self.edge_write(rng.below(6), a, b, w, true);
                    self.dump(&[l], false);
                }
            }
            _ => {
                // documented panics / None on arguments that do not exist
                if let Some(dead) = self.pick_dead(rng) {
                    let l = self.pick_live(rng);
                    match rng.below(4) {
                        0 => {
                            let r = catch(|| self.g.remove_node(Self::ix(dead)));
                            self.ctx.line(&format!("remove_node {}", dead), &p_or(r, |v| v.to_string()));
                        }
                        1 => {
                            let (a, b) = if rng.chance(50) { (dead, l) } else { (l, dead) };
                            let r = catch(|| self.g.remove_edge(Self::ix(a), Self::ix(b)));
                            self.ctx.line(&format!("remove_edge {} {}", a, b), &p_or(r, |v| v.to_string()));
                        }
                        2 => {
                            let (a, b) = if rng.chance(50) { (dead, l) } else { (l, dead) };
                            let r = self.g.try_remove_edge(Self::ix(a), Self::ix(b));
                            self.ctx.line(&format!("try_remove_edge {} {}", a, b), &opt(r));
                        }
                        _ => {
                            self.row(dead);
                        }
                    }
                    self.dump(&[l], false);
                }
            }
        }
    }
}

/// `Default::default()` ≡ `with_capacity(0)` ≡ `with_capacity_and_hasher(0, _)` (≡ `new()` /
/// `new_undirected()` where they exist); `with_capacity(k)` ≡ `with_capacity_and_hasher(k, _)`: the same dump,
/// and the same answers to the same calls afterwards.  `MatrixError`: `Display`/`Debug`/`==`/`Clone`.
fn ctor_laws<Ty: EdgeType, Null: Nullable<Wrapped = i32>, Ix: IndexType>(
    seed: u64,
    k: usize,
    special: Option<fn() -> MG<Ty, Null, Ix>>,
) -> Option<String>
where
    MG<Ty, Null, Ix>: DirObs + DbgObs,
{
    let mut zero: Vec<(&str, MG<Ty, Null, Ix>)> = vec![
        ("default", Default::default()),
        ("with_capacity(0)", MatrixGraph::with_capacity(0)),
        ("with_capacity_and_hasher(0)", MatrixGraph::with_capacity_and_hasher(0, RandomState::new())),
    ];
    if let Some(f) = special {
        zero.push(("new", f()));
    }
    let mut first: Option<String> = None;
    for (name, g) in zero.iter_mut() {
        if g.node_count() != 0 || g.edge_count() != 0 || g.node_bound() != 0 || g.is_directed() != Ty::is_directed() {
            return Some(format!("{} is not the empty graph", name));
        }
        let d = format!("{} || {}", full_dump(g), script(g, seed));
        match &first {
            None => first = Some(d),
            Some(f) => {
                if *f != d {
                    return Some(format!("{} and default() differ: {} vs {}", name, d, f));
                }
            }
        }
    }
    let mut a: MG<Ty, Null, Ix> = MatrixGraph::with_capacity(k);
    let mut b: MG<Ty, Null, Ix> = MatrixGraph::with_capacity_and_hasher(k, RandomState::new());
    let (da, db) = (format!("{} || {}", full_dump(&a), script(&mut a, seed)), format!("{} || {}", full_dump(&b), script(&mut b, seed)));
    if da != db {
        return Some(format!("with_capacity({}) and with_capacity_and_hasher({}, _) differ: {} vs {}", k, k, da, db));
    }
    if petgraph::matrix_graph::node_index(k) != NodeIndex::new(k) || petgraph::matrix_graph::node_index(k).index() != k {
        return Some(format!("node_index({})", k));
    }
    let errs = [MatrixError::NodeIxLimit, MatrixError::NodeMissed(k), MatrixError::NodeMissed(k + 1)];
    for (i, e) in errs.iter().enumerate() {
        let shown = format!("{} {:?} {:#?} {:>30} {:.3}", e, e, e, e, e);
        if shown.is_empty() || *e != e.clone() {
            return Some(format!("MatrixError {:?}: Display/Clone/==", e));
        }
        for (j, f) in errs.iter().enumerate() {
            if (e == f) != (i == j) {
                return Some(format!("MatrixError: {:?} == {:?} is {}", e, f, e == f));
            }
        }
    }
    None
}

fn run_case<Ty: EdgeType, Null: Nullable<Wrapped = i32>, Ix: IndexType>(
    ctx: &mut Ctx,
    rng: &mut Rng,
    case: u64,
    nz: bool,
    w: u32,
    special: Option<fn() -> MG<Ty, Null, Ix>>,
) where
    MG<Ty, Null, Ix>: DirObs + DbgObs,
{
    let dir = Ty::is_directed();
    ctx.raw(&format!("case {} {} {} w={}", case, if dir { "dir" } else { "undir" }, if nz { "nz" } else { "opt" }, w));
    let thorough = ctx.tier_thorough;
    let kmax = <Ix as IndexType>::max().index();
    // family: 0 small, 1 medium, 2 large (crosses 64; thorough: 128), 3 the u8 node limit
    let family = match rng.weighted(&[52, 26, 16, 6]) {
        3 if w != 8 => 2,
        f => f,
    };
    let want_nodes = match family {
        0 => 2 + rng.below(10),
        1 => 12 + rng.below(if thorough { 40 } else { 28 }),
        2 => {
            if thorough && rng.chance(40) {
                129 + rng.below(6)
            } else {
                65 + rng.below(6)
            }
        }
        _ => 255,
    };
    // constructor
    let mut from_edges: Option<Vec<(usize, usize, i32)>> = None;
    let g: MG<Ty, Null, Ix> = match rng.weighted(&[58, 14, 12, 16]) {
        1 => {
            ctx.line("new default", "ok");
            Default::default()
        }
        2 if special.is_some() => {
            ctx.line(if dir { "new new" } else { "new new_undirected" }, "ok");
            (special.unwrap())()
        }
        3 => {
            let n = if rng.chance(25) { 10 + rng.below(30) } else { 2 + rng.below(9) };
            let m = 1 + rng.below(2 * n);
            let mut es: Vec<(usize, usize, i32)> = vec![];
            for _ in 0..m {
                let (a, b) = (rng.below(n), rng.below(n));
                if es.iter().any(|&(x, y, _)| (x, y) == (a, b) || (!dir && (x, y) == (b, a))) {
                    continue;
                }
                let mut wt = rng.range(-2, 6) as i32;
                if nz && wt == 0 {
                    wt = 3;
                }
                es.push((a, b, wt));
            }
            from_edges = Some(es);
            Default::default() // replaced below
        }
        _ => {
            let k = if rng.chance(20) { 10 + rng.below(31) } else { rng.below(10) };
            ctx.line(&format!("new with_capacity {}", k), "ok");
            MatrixGraph::with_capacity(k)
        }
    };
    let mut run = Run { g, ctx, live: vec![], serial: 0, nz, kmax, big: 12, since_full: 0 };
    if let Some(es) = from_edges {
        let items: Vec<(NodeIndex<Ix>, NodeIndex<Ix>, i32)> =
            es.iter().map(|&(a, b, wt)| (NodeIndex::new(a), NodeIndex::new(b), wt)).collect();
        let r = catch(|| MG::<Ty, Null, Ix>::from_edges(items));
        run.ctx.line(&format!("from_edges {}", triples(es)), if r.is_some() { "ok" } else { "panic" });
        if let Some(g) = r {
            run.g = g;
        }
    }
    run.dump(&[], true);
    if rng.chance(50) {
        run.capscan();
    }
    // corners: the laws on the graph as constructed (mostly the EMPTY graph), the constructors among themselves
    if rng.chance(30) {
        run.laws(rng);
    }
    if rng.chance(20) {
        let (seed, k) = (rng.next(), rng.below(34));
        let r = catch(|| ctor_laws::<Ty, Null, Ix>(seed, k, special));
        run.emit_law("constructors", r);
    }

    if family == 3 {
        // the u8 node limit: 255 nodes (ids 0..=254), then the documented panic / Err
        let sprinkle = 6 + rng.below(10);
        let mut tries = 0;
        while run.live.len() < 255 && tries < 300 {
            tries += 1;
            run.add_node(rng);
            run.refresh();
            if run.live.is_empty() {
                break; // (a broken add_node must not hang or crash the harness)
            }
            if run.live.len() % 40 == 3 || run.live.len() + sprinkle >= 255 {
                let a = run.pick_live(rng).min(if thorough && rng.chance(30) { 254 } else { 40 });
                let b = run.live[rng.below(run.live.len().min(12))];
                let wt = run.weight(rng);
                run.edge_write(rng.below(6), a, b, wt, false);
                run.dump(&[a, b], false);
            }
        }
        run.dump(&[], false);
        for _ in 0..(12 + rng.below(12)) {
            if run.live.is_empty() {
                break;
            }
            match rng.below(5) {
                0 | 1 => {
                    run.add_node(rng);
                    run.dump(&[], false);
                }
                2 => {
                    let a = run.pick_live(rng);
                    let r = catch(|| run.g.remove_node(NodeIndex::new(a)));
                    run.ctx.line(&format!("remove_node {}", a), &p_or(r, |v| v.to_string()));
                    run.dump(&[], false);
                }
                3 => {
                    let a = run.live[rng.below(run.live.len().min(20))];
                    let b = run.live[rng.below(run.live.len().min(20))];
                    let wt = run.weight(rng);
                    run.edge_write(1 + rng.below(3), a, b, wt, false);
                    run.dump(&[a, b], false);
                }
                _ => run.query(rng),
            }
        }
        run.dump(&[], false);
        run.capscan();
        run.laws(rng);
        if rng.chance(40) {
            run.clone_laws(rng);
        }
        if rng.chance(50) {
            run.zprobe(rng);
        }
        return;
    }

    let nops = match family {
        0 => 20 + rng.below(80),
        1 => 50 + rng.below(100),
        _ => 60 + rng.below(100),
    };
    // phase A: grow until the wanted node count is reached (edges are added on the way, so every
    // capacity step is crossed with edges in place); phase B: churn; phase C: shrink
    let mut budget = 8 * want_nodes + 40;
    while run.live.len() < want_nodes && budget > 0 {
        run.op(rng, true, want_nodes);
        budget -= 1;
    }
    let grow_ops = nops / 2;
    for i in 0..nops {
        run.op(rng, i < grow_ops, want_nodes);
    }
    run.dump(&[], true);
    run.capscan();
    run.laws(rng);
    if rng.chance(40) {
        run.clone_laws(rng);
    }
    if rng.chance(50) {
        run.zprobe(rng);
    }
}

pub fn run(ctx: &mut Ctx, case: u64) {
    // a panic outside the per-call `catch`es (an observer that must not panic) ends this case only
    if catch(|| run_inner(ctx, case)).is_none() {
        ctx.line("abort", "panic");
    }
}

fn run_inner(ctx: &mut Ctx, case: u64) {
    let mut rng = Rng::for_case(ctx.seed, "C04", case);
    let dir = rng.chance(55);
    let nz = rng.chance(40);
    // index width: u8 (the only one whose node limit is reachable), u16 (the default), u32, usize
    let w = [8u32, 16, 32, 64][rng.weighted(&[34, 30, 18, 18])];
    macro_rules! go {
        ($ty:ty, $null:ty, $ix:ty, $special:expr) => {
            run_case::<$ty, $null, $ix>(ctx, &mut rng, case, nz, w, $special)
        };
    }
    match (dir, nz, w) {
        (true, false, 8) => go!(Directed, Option<i32>, u8, None),
        (true, false, 16) => go!(Directed, Option<i32>, u16, Some(MatrixGraph::new)),
        (true, false, 32) => go!(Directed, Option<i32>, u32, None),
        (true, false, _) => go!(Directed, Option<i32>, usize, None),
        (true, true, 8) => go!(Directed, NotZero<i32>, u8, None),
        (true, true, 16) => go!(Directed, NotZero<i32>, u16, None),
        (true, true, 32) => go!(Directed, NotZero<i32>, u32, None),
        (true, true, _) => go!(Directed, NotZero<i32>, usize, None),
        (false, false, 8) => go!(Undirected, Option<i32>, u8, None),
        (false, false, 16) => go!(Undirected, Option<i32>, u16, Some(MatrixGraph::new_undirected)),
        (false, false, 32) => go!(Undirected, Option<i32>, u32, None),
        (false, false, _) => go!(Undirected, Option<i32>, usize, None),
        (false, true, 8) => go!(Undirected, NotZero<i32>, u8, None),
        (false, true, 16) => go!(Undirected, NotZero<i32>, u16, None),
        (false, true, 32) => go!(Undirected, NotZero<i32>, u32, None),
        (false, true, _) => go!(Undirected, NotZero<i32>, usize, None),
    }
}
