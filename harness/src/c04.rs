//! C04 — `MatrixGraph` histories: both edge types, `Option`/`NotZero<i32>` null elements,
//! `u8`/`u16`/`u32`/`usize` indices, exact initial capacities 0..=40, node counts that cross the
//! 4/8/16/32/64(/128) capacity steps with edges in place, removals, id reuse, ~10 % invalid arguments, the
//! `u8` node limit, `from_edges`/`extend_with_edges` across capacity steps.
//!
//! Protocol (see lean/PetgraphModel/Driver/C04.lean): one line per call; after every mutating call a
//! dump = `counts`, `nodes`, `erefs` and `row a` lines (all live nodes, or — in big graphs — the
//! nodes the call touched, with a full dump at intervals and at the end).  Every list is printed in the
//! ITERATION ORDER of the implementation (the driver judges the order).
//! `capscan lo hi` reads the matrix capacity (not observable otherwise) off `try_update_edge(x, x, 1)` on ids
//! beyond the bound (`Ok` iff `x` is below the capacity; undone by `try_remove_edge`).
//! `zprobe a b` (last line of some `NotZero` cases) records what a zero written through `edge_weight_mut`
//! does: outside the documented use of `NotZero`, compared with the model only.
use crate::common::*;
use crate::rng::Rng;
use petgraph::data::Build;
use petgraph::graph::IndexType;
use petgraph::matrix_graph::{MatrixError, MatrixGraph, NodeIndex, NotZero, Nullable};
use petgraph::visit::{
    GetAdjacencyMatrix, IntoEdgeReferences, IntoEdges, IntoEdgesDirected, IntoNeighbors,
    IntoNeighborsDirected, IntoNodeIdentifiers, IntoNodeReferences, NodeIndexable,
};
use petgraph::{Directed, Direction, EdgeType, Undirected};
use std::collections::hash_map::RandomState;

type MG<Ty, Null, Ix> = MatrixGraph<i32, i32, RandomState, Ty, Null, Ix>;

/// the observers that only exist on directed matrices
trait DirObs {
    fn nbd(&self, a: usize, d: Direction) -> Option<Vec<usize>>;
    fn edd(&self, a: usize, d: Direction) -> Option<Vec<(usize, usize, i32)>>;
}
impl<Null: Nullable<Wrapped = i32>, Ix: IndexType> DirObs for MG<Directed, Null, Ix> {
    fn nbd(&self, a: usize, d: Direction) -> Option<Vec<usize>> {
        // alternate between the inherent method and the visit trait (same code path, both public)
        Some(if a % 2 == 0 {
            self.neighbors_directed(NodeIndex::new(a), d).map(|n| n.index()).collect()
        } else {
            IntoNeighborsDirected::neighbors_directed(self, NodeIndex::new(a), d).map(|n| n.index()).collect()
        })
    }
    fn edd(&self, a: usize, d: Direction) -> Option<Vec<(usize, usize, i32)>> {
        Some(if a % 2 == 0 {
            self.edges_directed(NodeIndex::new(a), d).map(|(s, t, w)| (s.index(), t.index(), *w)).collect()
        } else {
            IntoEdgesDirected::edges_directed(self, NodeIndex::new(a), d)
                .map(|(s, t, w)| (s.index(), t.index(), *w))
                .collect()
        })
    }
}
impl<Null: Nullable<Wrapped = i32>, Ix: IndexType> DirObs for MG<Undirected, Null, Ix> {
    fn nbd(&self, _: usize, _: Direction) -> Option<Vec<usize>> {
        None
    }
    fn edd(&self, _: usize, _: Direction) -> Option<Vec<(usize, usize, i32)>> {
        None
    }
}

fn triples(v: impl IntoIterator<Item = (usize, usize, i32)>) -> String {
    list(v.into_iter().map(|(a, b, w)| format!("{}:{}:{}", a, b, w)))
}
fn p_or<T>(r: Option<T>, f: impl FnOnce(T) -> String) -> String {
    match r {
        Some(v) => f(v),
        None => "panic".to_string(),
    }
}
fn res_str(r: Result<Option<i32>, MatrixError>) -> String {
    match r {
        Ok(o) => format!("ok {}", opt(o)),
        Err(MatrixError::NodeIxLimit) => "err NodeIxLimit".to_string(),
        Err(MatrixError::NodeMissed(i)) => format!("err NodeMissed {}", i),
    }
}

struct Run<'a, Ty: EdgeType, Null: Nullable<Wrapped = i32>, Ix: IndexType> {
    g: MG<Ty, Null, Ix>,
    ctx: &'a mut Ctx,
    live: Vec<usize>,
    serial: i32,
    nz: bool,
    kmax: usize,
    big: usize, // above this many live nodes dumps are partial
    since_full: usize,
}

impl<'a, Ty: EdgeType, Null: Nullable<Wrapped = i32>, Ix: IndexType> Run<'a, Ty, Null, Ix>
where
    MG<Ty, Null, Ix>: DirObs,
{
    fn ix(a: usize) -> NodeIndex<Ix> {
        NodeIndex::new(a)
    }
    fn refresh(&mut self) {
        self.live = self.g.node_identifiers().map(|n| n.index()).collect();
        self.live.sort();
    }
    fn next_serial(&mut self) -> i32 {
        self.serial += 1;
        self.serial
    }
    fn row(&mut self, a: usize) {
        let g = &self.g;
        let r = catch(|| {
            let mut s = format!(
                "nb={} ed={}",
                list(g.neighbors(Self::ix(a)).map(|n| n.index())),
                triples(IntoEdges::edges(g, Self::ix(a)).map(|(s, t, w)| (s.index(), t.index(), *w)))
            );
            if let Some(v) = g.nbd(a, Direction::Outgoing) {
                s += &format!(
                    " nbo={} nbi={} edo={} edi={}",
                    list(v),
                    list(g.nbd(a, Direction::Incoming).unwrap()),
                    triples(g.edd(a, Direction::Outgoing).unwrap()),
                    triples(g.edd(a, Direction::Incoming).unwrap())
                );
            }
            let bits = |f: &dyn Fn(usize) -> bool| -> String {
                if self.live.is_empty() {
                    "-".to_string()
                } else {
                    self.live.iter().map(|&x| if f(x) { '1' } else { '0' }).collect()
                }
            };
            s += &format!(
                " he={} hr={} gw={}",
                bits(&|x| g.has_edge(Self::ix(a), Self::ix(x))),
                bits(&|x| g.has_edge(Self::ix(x), Self::ix(a))),
                list(self.live.iter().map(|&x| match g.get_edge_weight(Self::ix(a), Self::ix(x)) {
                    Some(w) => w.to_string(),
                    None => "_".to_string(),
                }))
            );
            s
        });
        self.ctx.line(&format!("row {}", a), &r.unwrap_or_else(|| "panic".into()));
    }
    /// observation after a mutating call
    fn dump(&mut self, touched: &[usize], force_full: bool) {
        let g = &self.g;
        let r = catch(|| format!("n={} e={} b={}", g.node_count(), g.edge_count(), g.node_bound()));
        self.ctx.line("counts", &r.unwrap_or_else(|| "panic".into()));
        let r = catch(|| {
            format!(
                "ids={} refs={}",
                list(g.node_identifiers().map(|n| n.index())),
                list(g.node_references().map(|(n, w)| format!("{}:{}", n.index(), w)))
            )
        });
        self.ctx.line("nodes", &r.unwrap_or_else(|| "panic".into()));
        let r = catch(|| triples(g.edge_references().map(|(s, t, w)| (s.index(), t.index(), *w))));
        self.ctx.line("erefs", &r.unwrap_or_else(|| "panic".into()));
        self.refresh();
        let full = force_full || self.live.len() <= self.big || self.since_full >= 24;
        if full {
            self.since_full = 0;
            for a in self.live.clone() {
                self.row(a);
            }
        } else {
            self.since_full += 1;
            let mut t: Vec<usize> = touched.to_vec();
            t.sort();
            t.dedup();
            for a in t {
                self.row(a);
            }
        }
    }
    /// read the matrix capacity off `try_update_edge` on ids that are not nodes (all ids >= node_bound)
    fn capscan(&mut self) {
        let lo = self.g.node_bound();
        let hi = (2 * lo.max(20) + 6).min(lo + 300).min(self.kmax.saturating_add(1));
        if lo >= hi {
            return;
        }
        let g = &mut self.g;
        let r = catch(|| {
            (lo..hi)
                .map(|x| {
                    let ok = g.try_update_edge(Self::ix(x), Self::ix(x), 1).is_ok();
                    let _ = g.try_remove_edge(Self::ix(x), Self::ix(x));
                    if ok {
                        '1'
                    } else {
                        '0'
                    }
                })
                .collect::<String>()
        });
        self.ctx.line(&format!("capscan {} {}", lo, hi), &r.unwrap_or_else(|| "panic".into()));
    }
    /// the sentinel written through `edge_weight_mut` of a `NotZero` graph (ends the case)
    fn zprobe(&mut self, rng: &mut Rng) {
        let es: Vec<(usize, usize)> = self.g.edge_references().map(|(s, t, _)| (s.index(), t.index())).collect();
        if !self.nz || es.is_empty() {
            return;
        }
        let (mut a, mut b) = es[rng.below(es.len())];
        if !Ty::is_directed() && rng.chance(50) {
            std::mem::swap(&mut a, &mut b);
        }
        let (ia, ib) = (Self::ix(a), Self::ix(b));
        let r = catch(|| if a % 2 == 0 { *self.g.edge_weight_mut(ia, ib) = 0 } else { self.g[(ia, ib)] = 0 });
        let g = &self.g;
        let obs = catch(|| {
            format!(
                "he={} gw={} ec={} er={}",
                g.has_edge(ia, ib),
                opt(g.get_edge_weight(ia, ib).copied()),
                g.edge_count(),
                g.edge_references().count()
            )
        });
        self.ctx.line(
            &format!("zprobe {} {}", a, b),
            &format!("{} {}", p_or(r, |_| "ok".into()), obs.unwrap_or_else(|| "panic".into())),
        );
    }
    fn pick_live(&self, rng: &mut Rng) -> usize {
        if self.live.is_empty() {
            return 0;
        }
        if rng.chance(30) {
            // one of the highest ids: this is what makes the matrix grow
            let k = self.live.len().min(3);
            self.live[self.live.len() - 1 - rng.below(k)]
        } else {
            self.live[rng.below(self.live.len())]
        }
    }
    /// an id that is not a live node (vacant, or beyond the bound), representable in `Ix`
    fn pick_dead(&self, rng: &mut Rng) -> Option<usize> {
        let bound = self.g.node_bound();
        let hi = (bound + 3).min(self.kmax);
        let cands: Vec<usize> = (0..=hi).filter(|i| self.live.binary_search(i).is_err()).collect();
        if cands.is_empty() {
            None
        } else {
            Some(cands[rng.below(cands.len())])
        }
    }
    /// mostly live, sometimes not
    fn pick_any(&self, rng: &mut Rng, bad_pct: u32) -> usize {
        if rng.chance(bad_pct) {
            if let Some(d) = self.pick_dead(rng) {
                return d;
            }
        }
        self.pick_live(rng)
    }
    fn weight(&self, rng: &mut Rng) -> i32 {
        if self.nz {
            if rng.chance(4) {
                0
            } else {
                let w = rng.range(-3, 5) as i32;
                if w >= 0 {
                    w + 1
                } else {
                    w
                }
            }
        } else {
            rng.range(-2, 6) as i32
        }
    }
    fn add_node(&mut self, rng: &mut Rng) {
        let w = self.next_serial();
        if rng.chance(35) {
            let r = self.g.try_add_node(w);
            let s = match r {
                Ok(i) => format!("ok {}", i.index()),
                Err(MatrixError::NodeIxLimit) => "err NodeIxLimit".into(),
                Err(MatrixError::NodeMissed(i)) => format!("err NodeMissed {}", i),
            };
            self.ctx.line(&format!("try_add_node {}", w), &s);
        } else if rng.chance(20) {
            let r = catch(|| Build::add_node(&mut self.g, w).index());
            self.ctx.line(&format!("add_node {}", w), &p_or(r, |v| v.to_string()));
        } else {
            let r = catch(|| self.g.add_node(w).index());
            self.ctx.line(&format!("add_node {}", w), &p_or(r, |v| v.to_string()));
        }
    }
    /// an edge-writing call between `a` and `b`; `probe` = followed by `try_remove_edge` on one line
    fn edge_write(&mut self, kind: usize, a: usize, b: usize, w: i32, probe: bool) {
        let (ia, ib) = (Self::ix(a), Self::ix(b));
        let g = &mut self.g;
        let (name, ans) = match kind {
            0 => ("add_edge", p_or(catch(|| g.add_edge(ia, ib, w)), |_| "ok".into())),
            1 => ("update_edge", p_or(catch(|| g.update_edge(ia, ib, w)), |o| if probe { opt(o) } else { opt(o) })),
            2 => ("try_update_edge", p_or(catch(|| g.try_update_edge(ia, ib, w)), res_str)),
            3 => ("add_or_update_edge", p_or(catch(|| g.add_or_update_edge(ia, ib, w)), res_str)),
            4 => ("build_add_edge", p_or(catch(|| Build::add_edge(g, ia, ib, w)), |o| o.is_some().to_string())),
            _ => ("build_update_edge", p_or(catch(|| Build::update_edge(g, ia, ib, w)), |_| "ok".into())),
        };
        if probe {
            let undo = opt(self.g.try_remove_edge(ia, ib));
            self.ctx.line(&format!("probe {} {} {} {}", name, a, b, w), &format!("{} / {}", ans, undo));
        } else {
            self.ctx.line(&format!("{} {} {} {}", name, a, b, w), &ans);
        }
    }
    fn query(&mut self, rng: &mut Rng) {
        let g = &self.g;
        let a = self.pick_any(rng, 15);
        let b = self.pick_any(rng, 10);
        let (ia, ib) = (Self::ix(a), Self::ix(b));
        match rng.below(13) {
            0 => self.ctx.line(&format!("has_edge {} {}", a, b), &g.has_edge(ia, ib).to_string()),
            1 => self.ctx.line(&format!("is_adjacent {} {}", a, b), &g.is_adjacent(&g.adjacency_matrix(), ia, ib).to_string()),
            2 => {
                let r = catch(|| if a % 2 == 0 { *g.edge_weight(ia, ib) } else { g[(ia, ib)] });
                self.ctx.line(&format!("edge_weight {} {}", a, b), &p_or(r, |v| v.to_string()));
            }
            3 => self.ctx.line(&format!("get_edge_weight {} {}", a, b), &opt(g.get_edge_weight(ia, ib).copied())),
            4 => {
                let r = catch(|| if a % 2 == 0 { *g.node_weight(ia) } else { g[ia] });
                self.ctx.line(&format!("node_weight {}", a), &p_or(r, |v| v.to_string()));
            }
            5 => self.ctx.line(&format!("get_node_weight {}", a), &opt(g.get_node_weight(ia).copied())),
            6 => {
                let r = catch(|| list(IntoNeighbors::neighbors(g, ia).map(|n| n.index())));
                self.ctx.line(&format!("neighbors {}", a), &r.unwrap_or_else(|| "panic".into()));
            }
            7 => {
                let r = catch(|| triples(g.edges(ia).map(|(s, t, w)| (s.index(), t.index(), *w))));
                self.ctx.line(&format!("edges {}", a), &r.unwrap_or_else(|| "panic".into()));
            }
            8 | 9 => {
                let d = if rng.chance(50) { Direction::Outgoing } else { Direction::Incoming };
                let dn = if d == Direction::Outgoing { "out" } else { "in" };
                let r = catch(|| g.nbd(a, d).map(list));
                match r {
                    Some(Some(s)) => self.ctx.line(&format!("neighbors_directed {} {}", a, dn), &s),
                    Some(None) => {}
                    None => self.ctx.line(&format!("neighbors_directed {} {}", a, dn), "panic"),
                }
                let r = catch(|| g.edd(a, d).map(triples));
                match r {
                    Some(Some(s)) => self.ctx.line(&format!("edges_directed {} {}", a, dn), &s),
                    Some(None) => {}
                    None => self.ctx.line(&format!("edges_directed {} {}", a, dn), "panic"),
                }
            }
            10 => self.ctx.line("node_count", &g.node_count().to_string()),
            11 => self.ctx.line("edge_count", &g.edge_count().to_string()),
            _ => {
                let r = catch(|| format!("n={} e={} b={}", g.node_count(), g.edge_count(), g.node_bound()));
                self.ctx.line("counts", &r.unwrap_or_else(|| "panic".into()));
            }
        }
    }
    /// one random call; `grow` = the phase that adds more than it removes
    fn op(&mut self, rng: &mut Rng, grow: bool, want_nodes: usize) {
        let n = self.live.len();
        let ws: [u32; 11] = if grow && n < want_nodes {
            //  add  edge+ edge-  node-  query wmut clear extend probe badrm capscan
            [30, 40, 5, 3, 9, 4, 0, 3, 4, 3, 2]
        } else if grow {
            [6, 40, 12, 8, 14, 6, 1, 3, 6, 5, 2]
        } else {
            [10, 26, 18, 16, 12, 5, 1, 2, 5, 5, 2]
        };
        let k = if n == 0 { 0 } else { rng.weighted(&ws) };
        match k {
            0 => {
                self.add_node(rng);
                self.refresh();
                let newest: Vec<usize> = self.live.clone();
                // the new node's row is the interesting one ("a reused id starts with no incident edges")
                let g = &self.g;
                let fresh: Vec<usize> = newest.into_iter().filter(|&i| g.get_node_weight(Self::ix(i)) == Some(&self.serial)).collect();
                self.dump(&fresh, false);
            }
            1 => {
                let a = self.pick_live(rng);
                let b = if rng.chance(8) { a } else { self.pick_live(rng) };
                let w = self.weight(rng);
                let exists = self.g.has_edge(Self::ix(a), Self::ix(b));
                let mut kind = rng.weighted(&[35, 25, 15, 10, 8, 7]);
                if kind == 0 && exists && !rng.chance(12) {
                    kind = 1; // add_edge on an existing edge panics: keep that to a few deliberate calls
                }
                self.edge_write(kind, a, b, w, false);
                self.dump(&[a, b], false);
            }
            2 => {
                // remove an edge: mostly an existing one
                let mut a = self.pick_live(rng);
                let mut b = self.pick_live(rng);
                if rng.chance(88) {
                    let es: Vec<(usize, usize)> = self.g.edge_references().map(|(s, t, _)| (s.index(), t.index())).collect();
                    if !es.is_empty() {
                        let e = es[rng.below(es.len())];
                        if rng.chance(50) || Ty::is_directed() {
                            a = e.0;
                            b = e.1;
                        } else {
                            a = e.1;
                            b = e.0;
                        }
                    }
                }
                let (ia, ib) = (Self::ix(a), Self::ix(b));
                if rng.chance(50) {
                    let r = catch(|| self.g.remove_edge(ia, ib));
                    self.ctx.line(&format!("remove_edge {} {}", a, b), &p_or(r, |v| v.to_string()));
                } else {
                    let r = self.g.try_remove_edge(ia, ib);
                    self.ctx.line(&format!("try_remove_edge {} {}", a, b), &opt(r));
                }
                self.dump(&[a, b], false);
            }
            3 => {
                let a = self.pick_live(rng);
                let nbrs: Vec<usize> = self.g.neighbors(Self::ix(a)).map(|n| n.index()).collect();
                let r = catch(|| self.g.remove_node(Self::ix(a)));
                self.ctx.line(&format!("remove_node {}", a), &p_or(r, |v| v.to_string()));
                self.dump(&nbrs, false);
            }
            4 => self.query(rng),
            5 => {
                if rng.chance(50) {
                    let a = self.pick_any(rng, 12);
                    let w = self.next_serial();
                    let r = catch(|| if a % 2 == 0 { *self.g.node_weight_mut(Self::ix(a)) = w } else { self.g[Self::ix(a)] = w });
                    self.ctx.line(&format!("node_weight_mut {} {}", a, w), &p_or(r, |_| "ok".into()));
                    self.dump(&[], false);
                } else {
                    let mut a = self.pick_any(rng, 8);
                    let mut b = self.pick_any(rng, 8);
                    if rng.chance(80) {
                        let es: Vec<(usize, usize)> = self.g.edge_references().map(|(s, t, _)| (s.index(), t.index())).collect();
                        if !es.is_empty() {
                            let e = es[rng.below(es.len())];
                            if rng.chance(50) || Ty::is_directed() {
                                a = e.0;
                                b = e.1;
                            } else {
                                a = e.1;
                                b = e.0;
                            }
                        }
                    }
                    let mut w = self.weight(rng);
                    if self.nz && w == 0 {
                        w = 7; // writing the sentinel through `&mut E` is outside the documented use
                    }
                    let (ia, ib) = (Self::ix(a), Self::ix(b));
                    let r = catch(|| if a % 2 == 0 { *self.g.edge_weight_mut(ia, ib) = w } else { self.g[(ia, ib)] = w });
                    self.ctx.line(&format!("edge_weight_mut {} {} {}", a, b, w), &p_or(r, |_| "ok".into()));
                    self.dump(&[a, b], false);
                }
            }
            6 => {
                self.g.clear();
                self.ctx.line("clear", "ok");
                self.dump(&[], true);
            }
            7 => {
                // extend_with_edges: only when the live ids are 0..n (then the nodes it adds are n, n+1, …)
                let contiguous = self.live.iter().enumerate().all(|(i, &x)| i == x) && self.g.node_bound() == n;
                if contiguous && n + 12 < self.kmax && n < 60 {
                    let m = 1 + rng.below(4);
                    // sometimes a jump of several nodes at once (crosses a capacity step inside one call)
                    let jump = if rng.chance(25) { 2 + rng.below(9) } else { 2 };
                    let mut es: Vec<(usize, usize, i32)> = vec![];
                    let mut top = n; // number of nodes after the elements so far
                    for _ in 0..m {
                        let a = rng.below(top + jump);
                        let b = rng.below(top + 2);
                        let dup = es.iter().any(|&(x, y, _)| (x, y) == (a, b) || (!Ty::is_directed() && (x, y) == (b, a)))
                            || (a < n && b < n && self.g.has_edge(Self::ix(a), Self::ix(b)));
                        if dup && !rng.chance(10) {
                            continue;
                        }
                        es.push((a, b, self.weight(rng)));
                        top = top.max(a.max(b) + 1);
                    }
                    if !es.is_empty() {
                        let items: Vec<(NodeIndex<Ix>, NodeIndex<Ix>, i32)> = es.iter().map(|&(a, b, w)| (Self::ix(a), Self::ix(b), w)).collect();
                        let r = catch(|| self.g.extend_with_edges(items));
                        self.ctx.line(&format!("extend_with_edges {}", triples(es.clone())), &p_or(r, |_| "ok".into()));
                        let t: Vec<usize> = es.iter().flat_map(|&(a, b, _)| [a, b]).collect();
                        self.dump(&t, false);
                    }
                }
            }
            10 => {
                self.capscan();
                self.dump(&[], false);
            }
            8 => {
                // edge-writing call with an endpoint that does not exist (outside the property: exact only)
                if let Some(dead) = self.pick_dead(rng) {
                    let l = self.pick_live(rng);
                    let (a, b) = match rng.below(5) {
                        0 => (dead, l),
                        1 => (dead, dead),
                        _ => (l, dead),
                    };
                    let w = self.weight(rng);
                    self.edge_write(rng.below(6), a, b, w, true);
                    self.dump(&[l], false);
                }
            }
            _ => {
                // documented panics / None on arguments that do not exist
                if let Some(dead) = self.pick_dead(rng) {
                    let l = self.pick_live(rng);
                    match rng.below(4) {
                        0 => {
                            let r = catch(|| self.g.remove_node(Self::ix(dead)));
                            self.ctx.line(&format!("remove_node {}", dead), &p_or(r, |v| v.to_string()));
                        }
                        1 => {
                            let (a, b) = if rng.chance(50) { (dead, l) } else { (l, dead) };
                            let r = catch(|| self.g.remove_edge(Self::ix(a), Self::ix(b)));
                            self.ctx.line(&format!("remove_edge {} {}", a, b), &p_or(r, |v| v.to_string()));
                        }
                        2 => {
                            let (a, b) = if rng.chance(50) { (dead, l) } else { (l, dead) };
                            let r = self.g.try_remove_edge(Self::ix(a), Self::ix(b));
                            self.ctx.line(&format!("try_remove_edge {} {}", a, b), &opt(r));
                        }
                        _ => {
                            self.row(dead);
                        }
                    }
                    self.dump(&[l], false);
                }
            }
        }
    }
}

fn run_case<Ty: EdgeType, Null: Nullable<Wrapped = i32>, Ix: IndexType>(
    ctx: &mut Ctx,
    rng: &mut Rng,
    case: u64,
    nz: bool,
    w: u32,
    special: Option<fn() -> MG<Ty, Null, Ix>>,
) where
    MG<Ty, Null, Ix>: DirObs,
{
    let dir = Ty::is_directed();
    ctx.raw(&format!("case {} {} {} w={}", case, if dir { "dir" } else { "undir" }, if nz { "nz" } else { "opt" }, w));
    let thorough = ctx.tier_thorough;
    let kmax = <Ix as IndexType>::max().index();
    // family: 0 small, 1 medium, 2 large (crosses 64; thorough: 128), 3 the u8 node limit
    let family = match rng.weighted(&[52, 26, 16, 6]) {
        3 if w != 8 => 2,
        f => f,
    };
    let want_nodes = match family {
        0 => 2 + rng.below(10),
        1 => 12 + rng.below(if thorough { 40 } else { 28 }),
        2 => {
            if thorough && rng.chance(40) {
                129 + rng.below(6)
            } else {
                65 + rng.below(6)
            }
        }
        _ => 255,
    };
    // constructor
    let mut from_edges: Option<Vec<(usize, usize, i32)>> = None;
    let g: MG<Ty, Null, Ix> = match rng.weighted(&[58, 14, 12, 16]) {
        1 => {
            ctx.line("new default", "ok");
            Default::default()
        }
        2 if special.is_some() => {
            ctx.line(if dir { "new new" } else { "new new_undirected" }, "ok");
            (special.unwrap())()
        }
        3 => {
            let n = if rng.chance(25) { 10 + rng.below(30) } else { 2 + rng.below(9) };
            let m = 1 + rng.below(2 * n);
            let mut es: Vec<(usize, usize, i32)> = vec![];
            for _ in 0..m {
                let (a, b) = (rng.below(n), rng.below(n));
                if es.iter().any(|&(x, y, _)| (x, y) == (a, b) || (!dir && (x, y) == (b, a))) {
                    continue;
                }
                let mut wt = rng.range(-2, 6) as i32;
                if nz && wt == 0 {
                    wt = 3;
                }
                es.push((a, b, wt));
            }
            from_edges = Some(es);
            Default::default() // replaced below
        }
        _ => {
            let k = if rng.chance(20) { 10 + rng.below(31) } else { rng.below(10) };
            ctx.line(&format!("new with_capacity {}", k), "ok");
            MatrixGraph::with_capacity(k)
        }
    };
    let mut run = Run { g, ctx, live: vec![], serial: 0, nz, kmax, big: 12, since_full: 0 };
    if let Some(es) = from_edges {
        let items: Vec<(NodeIndex<Ix>, NodeIndex<Ix>, i32)> =
            es.iter().map(|&(a, b, wt)| (NodeIndex::new(a), NodeIndex::new(b), wt)).collect();
        let r = catch(|| MG::<Ty, Null, Ix>::from_edges(items));
        run.ctx.line(&format!("from_edges {}", triples(es)), if r.is_some() { "ok" } else { "panic" });
        if let Some(g) = r {
            run.g = g;
        }
    }
    run.dump(&[], true);
    if rng.chance(50) {
        run.capscan();
    }

    if family == 3 {
        // the u8 node limit: 255 nodes (ids 0..=254), then the documented panic / Err
        let sprinkle = 6 + rng.below(10);
        let mut tries = 0;
        while run.live.len() < 255 && tries < 300 {
            tries += 1;
            run.add_node(rng);
            run.refresh();
            if run.live.is_empty() {
                break; // (a broken add_node must not hang or crash the harness)
            }
            if run.live.len() % 40 == 3 || run.live.len() + sprinkle >= 255 {
                let a = run.pick_live(rng).min(if thorough && rng.chance(30) { 254 } else { 40 });
                let b = run.live[rng.below(run.live.len().min(12))];
                let wt = run.weight(rng);
                run.edge_write(rng.below(6), a, b, wt, false);
                run.dump(&[a, b], false);
            }
        }
        run.dump(&[], false);
        for _ in 0..(12 + rng.below(12)) {
            if run.live.is_empty() {
                break;
            }
            match rng.below(5) {
                0 | 1 => {
                    run.add_node(rng);
                    run.dump(&[], false);
                }
                2 => {
                    let a = run.pick_live(rng);
                    let r = catch(|| run.g.remove_node(NodeIndex::new(a)));
                    run.ctx.line(&format!("remove_node {}", a), &p_or(r, |v| v.to_string()));
                    run.dump(&[], false);
                }
                3 => {
                    let a = run.live[rng.below(run.live.len().min(20))];
                    let b = run.live[rng.below(run.live.len().min(20))];
                    let wt = run.weight(rng);
                    run.edge_write(1 + rng.below(3), a, b, wt, false);
                    run.dump(&[a, b], false);
                }
                _ => run.query(rng),
            }
        }
        run.dump(&[], false);
        run.capscan();
        if rng.chance(50) {
            run.zprobe(rng);
        }
        return;
    }

    let nops = match family {
        0 => 20 + rng.below(80),
        1 => 50 + rng.below(100),
        _ => 60 + rng.below(100),
    };
    // phase A: grow until the wanted node count is reached (edges are added on the way, so every
    // capacity step is crossed with edges in place); phase B: churn; phase C: shrink
    let mut budget = 8 * want_nodes + 40;
    while run.live.len() < want_nodes && budget > 0 {
        run.op(rng, true, want_nodes);
        budget -= 1;
    }
    let grow_ops = nops / 2;
    for i in 0..nops {
        run.op(rng, i < grow_ops, want_nodes);
    }
    run.dump(&[], true);
    run.capscan();
    if rng.chance(50) {
        run.zprobe(rng);
    }
}

pub fn run(ctx: &mut Ctx, case: u64) {
    // a panic outside the per-call `catch`es (an observer that must not panic) ends this case only
    if catch(|| run_inner(ctx, case)).is_none() {
        ctx.line("abort", "panic");
    }
}

fn run_inner(ctx: &mut Ctx, case: u64) {
    let mut rng = Rng::for_case(ctx.seed, "C04", case);
    let dir = rng.chance(55);
    let nz = rng.chance(40);
    // index width: u8 (the only one whose node limit is reachable), u16 (the default), u32, usize
    let w = [8u32, 16, 32, 64][rng.weighted(&[34, 30, 18, 18])];
    macro_rules! go {
        ($ty:ty, $null:ty, $ix:ty, $special:expr) => {
            run_case::<$ty, $null, $ix>(ctx, &mut rng, case, nz, w, $special)
        };
    }
    match (dir, nz, w) {
        (true, false, 8) => go!(Directed, Option<i32>, u8, None),
        (true, false, 16) => go!(Directed, Option<i32>, u16, Some(MatrixGraph::new)),
        (true, false, 32) => go!(Directed, Option<i32>, u32, None),
        (true, false, _) => go!(Directed, Option<i32>, usize, None),
        (true, true, 8) => go!(Directed, NotZero<i32>, u8, None),
        (true, true, 16) => go!(Directed, NotZero<i32>, u16, None),
        (true, true, 32) => go!(Directed, NotZero<i32>, u32, None),
        (true, true, _) => go!(Directed, NotZero<i32>, usize, None),
        (false, false, 8) => go!(Undirected, Option<i32>, u8, None),
        (false, false, 16) => go!(Undirected, Option<i32>, u16, Some(MatrixGraph::new_undirected)),
        (false, false, 32) => go!(Undirected, Option<i32>, u32, None),
        (false, false, _) => go!(Undirected, Option<i32>, usize, None),
        (false, true, 8) => go!(Undirected, NotZero<i32>, u8, None),
        (false, true, 16) => go!(Undirected, NotZero<i32>, u16, None),
        (false, true, 32) => go!(Undirected, NotZero<i32>, u32, None),
        (false, true, _) => go!(Undirected, NotZero<i32>, usize, None),
    }
}
