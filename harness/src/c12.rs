//! C12 — min_spanning_tree (Kruskal) and min_spanning_tree_prim on every storage type that meets the
//! bounds: Graph (u32/u8, directed and undirected storage), StableGraph with vacancies, GraphMap,
//! MatrixGraph with removed ids, Csr; i64 and integer-valued f64 weights.
//!
//! Lines per case:
//!   graph …                                                 (one encoding's view, abstract ids)
//!   kruskal <wt> fe=<g|s|d> er=<s:t:eid;…>  => <stream>|<fe nodes>|<fe edges>
//!   prim <wt> fe=<g|s|d>                   => <stream>|<fe nodes>|<fe edges>
//! `er` = `edge_references()` order as (source, target, abstract edge id) in abstract node ids;
//! stream = `N<weight>` / `E<source>:<target>:<weight>` tokens exactly as the iterator yields them
//! (edge endpoints are positions in the node part of the stream); fe = the graph built by
//! `from_elements` from that stream: node weights in index order, edges in index order as
//! `<weight of source>:<weight of target>:<w>`.
//!
//! Heap cases (no graph line): a direct differential test of the `BinaryHeap` mirror against
//! `std::collections::BinaryHeap<MinScored<K, (usize, usize)>>` (the very type the two iterators use),
//! `K` = i64 or f64 (NaN, infinities, -0.0 included):
//!   heap <i64|f64> ops=<p<key>:<id>|o|c;…> => one token per call: push `=<vec>`, pop `<key>:<id>=<vec>`
//!                                             or `none=<vec>`, clear `c`
//! `<vec>` = payload ids in the order of the heap's internal vector (`BinaryHeap::iter`), `.`-separated.
use crate::common::*;
use crate::graphs::*;
use crate::rng::Rng;
use petgraph::algo::{min_spanning_tree, min_spanning_tree_prim};
use petgraph::data::{Element, FromElements};
use petgraph::graph::Graph;
use petgraph::stable_graph::StableGraph;
use petgraph::visit::{
    Data, EdgeRef, IntoEdgeReferences, IntoEdges, IntoNodeReferences, NodeIndexable,
};
use petgraph::{Directed, EdgeType, Undirected};
use std::collections::BinaryHeap;

#[allow(dead_code)]
#[path = "/repo/src/scored.rs"]
mod scored_src;
use scored_src::MinScored;

trait HKey: Copy + PartialOrd {
    fn show(self) -> String;
}
impl HKey for i64 {
    fn show(self) -> String {
        self.to_string()
    }
}
impl HKey for f64 {
    fn show(self) -> String {
        if self.is_nan() {
            "nan".into()
        } else if self == f64::INFINITY {
            "inf".into()
        } else if self == f64::NEG_INFINITY {
            "-inf".into()
        } else {
            // integer-valued by construction; -0.0 prints as 0 (it compares equal to 0.0)
            (self as i64).to_string()
        }
    }
}

fn heap_vec<K: HKey>(h: &BinaryHeap<MinScored<K, (usize, usize)>>) -> String {
    let ids: Vec<String> = h.iter().map(|m| (m.1).0.to_string()).collect();
    if ids.is_empty() { "-".into() } else { ids.join(".") }
}

/// one random push/pop/clear script on the heap type of the MST iterators; keys are drawn from a
/// small pool (1..4 distinct values, so most keys are equal to some other key)
fn heap_script<K: HKey>(ctx: &mut Ctx, rng: &mut Rng, kt: &str, base: &[K]) -> (usize, usize) {
    let pool: Vec<K> = if rng.chance(15) { base.to_vec() } else { (0..1 + rng.below(4)).map(|_| *rng.pick(base)).collect() };
    let long: i64 = if ctx.tier_thorough { 160 } else { 90 };
    let len = (if rng.chance(20) { rng.range(40, long) } else { rng.range(3, 30) }) as usize;
    let p_push = *rng.pick(&[85u32, 65, 55, 45]);
    let p_clear = if rng.chance(30) { 3 } else { 0 };
    // the script does not depend on the heap's answers
    let mut script: Vec<Option<K>> = Vec::new(); // Some(k) = push, None = pop
    let mut clears: Vec<bool> = Vec::new();
    for _ in 0..len {
        if rng.chance(p_push) {
            script.push(Some(*rng.pick(&pool)));
            clears.push(false);
        } else {
            script.push(None);
            clears.push(rng.chance(p_clear));
        }
    }
    // drain (and one pop on the empty heap) at the end
    let pushes = script.iter().filter(|x| x.is_some()).count();
    let drain = if rng.chance(80) { pushes + 1 } else { rng.below(pushes + 1) };
    for _ in 0..drain {
        script.push(None);
        clears.push(false);
    }
    let mut ops: Vec<String> = Vec::new();
    let mut id = 0usize;
    for (x, &c) in script.iter().zip(clears.iter()) {
        match x {
            Some(k) => {
                ops.push(format!("p{}:{}", k.show(), id));
                id += 1;
            }
            None => ops.push(if c { "c".into() } else { "o".into() }),
        }
    }
    let cap = if rng.chance(50) { Some(rng.below(8)) } else { None };
    let r = catch(|| {
        let mut h: BinaryHeap<MinScored<K, (usize, usize)>> = match cap { Some(c) => BinaryHeap::with_capacity(c), None => BinaryHeap::new() };
        let mut ans: Vec<String> = Vec::new();
        let mut id = 0usize;
        for (x, &c) in script.iter().zip(clears.iter()) {
            match x {
                Some(k) => {
                    h.push(MinScored(*k, (id, 0)));
                    id += 1;
                    ans.push(format!("={}", heap_vec(&h)));
                }
                None if c => {
                    h.clear();
                    ans.push("c".into());
                }
                None => match h.pop() {
                    Some(MinScored(k, (i, _))) => ans.push(format!("{}:{}={}", k.show(), i, heap_vec(&h))),
                    None => ans.push(format!("none={}", heap_vec(&h))),
                },
            }
        }
        ans.join(";")
    });
    ctx.line(&format!("heap {} ops={}", kt, ops.join(";")), &r.unwrap_or("panic".into()));
    (pushes, pool.len())
}

fn heap_case(ctx: &mut Ctx, rng: &mut Rng, case: u64) {
    ctx.raw(&format!("case {} heap", case));
    if rng.chance(50) {
        let base = [-2i64, -1, 0, 0, 1, 1, 2, 3, 7, 100, i64::MIN, i64::MAX];
        heap_script::<i64>(ctx, rng, "i64", &base);
    } else {
        let base = [f64::NAN, f64::NAN, f64::NEG_INFINITY, -2.0, -1.0, -0.0, 0.0, 1.0, 1.0, 2.0, 3.0, 1.0e9, f64::INFINITY];
        heap_script::<f64>(ctx, rng, "f64", &base);
    }
}

trait Wt: Copy + PartialOrd {
    fn to_i(self) -> i64;
}
impl Wt for i64 {
    fn to_i(self) -> i64 {
        self
    }
}
impl Wt for f64 {
    fn to_i(self) -> i64 {
        if self.fract() != 0.0 || !self.is_finite() {
            i64::MIN
        } else {
            self as i64
        }
    }
}

fn show_stream<W: Wt>(els: &[Element<usize, W>]) -> String {
    list(els.iter().map(|e| match e {
        Element::Node { weight } => format!("N{}", weight),
        Element::Edge { source, target, weight } => format!("E{}:{}:{}", source, target, weight.to_i()),
    }))
}

fn show_fe<W: Wt>(els: &[Element<usize, W>], kind: char) -> String {
    let els: Vec<Element<usize, W>> = els.to_vec();
    let r = catch(move || match kind {
        's' => {
            let g = StableGraph::<usize, W, Undirected>::from_elements(els);
            let nodes = list(g.node_indices().map(|n| g[n]));
            let edges: Vec<String> = g.edge_indices().map(|e| { let (a, b) = g.edge_endpoints(e).unwrap(); format!("{}:{}:{}", g[a], g[b], g[e].to_i()) }).collect();
            format!("{}|{}", nodes, if edges.is_empty() { "-".to_string() } else { edges.join(";") })
        }
        'd' => {
            let g = Graph::<usize, W, Directed>::from_elements(els);
            let nodes = list(g.node_indices().map(|n| g[n]));
            let edges: Vec<String> = g.edge_indices().map(|e| { let (a, b) = g.edge_endpoints(e).unwrap(); format!("{}:{}:{}", g[a], g[b], g[e].to_i()) }).collect();
            format!("{}|{}", nodes, if edges.is_empty() { "-".to_string() } else { edges.join(";") })
        }
        _ => {
            let g = Graph::<usize, W, Undirected>::from_elements(els);
            let nodes = list(g.node_indices().map(|n| g[n]));
            let edges: Vec<String> = g.edge_indices().map(|e| { let (a, b) = g.edge_endpoints(e).unwrap(); format!("{}:{}:{}", g[a], g[b], g[e].to_i()) }).collect();
            format!("{}|{}", nodes, if edges.is_empty() { "-".to_string() } else { edges.join(";") })
        }
    });
    r.unwrap_or("panic|panic".into())
}

/// node elements carry the abstract id: the node weight itself, or (adj::List has unit node weights)
/// the id of the node at that position of the stream
fn relabel<N, W: Wt>(els: Vec<Element<N, W>>, nodew: &dyn Fn(usize, &N) -> usize) -> Vec<Element<usize, W>> {
    let mut pos = 0usize;
    els.into_iter()
        .map(|e| match e {
            Element::Node { weight } => {
                let w = nodew(pos, &weight);
                pos += 1;
                Element::Node { weight: w }
            }
            Element::Edge { source, target, weight } => Element::Edge { source, target, weight },
        })
        .collect()
}

/// run both algorithms on one encoding
fn run_mst<G, W>(ctx: &mut Ctx, rng: &mut Rng, g: G, wt: &str, abs: &dyn Fn(G::NodeId) -> usize, er_eid: &dyn Fn(G::EdgeRef) -> usize, nodew: &dyn Fn(usize, &G::NodeWeight) -> usize)
where
    W: Wt,
    G: IntoNodeReferences + IntoEdgeReferences + IntoEdges + NodeIndexable + Data<EdgeWeight = W>,
    G::NodeWeight: Clone,
{
    let er: Vec<String> = g.edge_references().map(|e| format!("{}:{}:{}", abs(e.source()), abs(e.target()), er_eid(e))).collect();
    let er = if er.is_empty() { "-".to_string() } else { er.join(";") };
    let kinds = ['g', 's', 'd'];
    let fk = kinds[rng.below(3)];
    let r = catch(|| relabel(min_spanning_tree(g).collect::<Vec<Element<G::NodeWeight, W>>>(), nodew));
    let ans = match r {
        Some(els) => format!("{}|{}", show_stream(&els), show_fe(&els, fk)),
        None => "panic".to_string(),
    };
    ctx.line(&format!("kruskal {} fe={} er={}", wt, fk, er), &ans);
    let fk = kinds[rng.below(3)];
    let r = catch(|| relabel(min_spanning_tree_prim(g).collect::<Vec<Element<G::NodeWeight, W>>>(), nodew));
    let ans = match r {
        Some(els) => format!("{}|{}", show_stream(&els), show_fe(&els, fk)),
        None => "panic".to_string(),
    };
    ctx.line(&format!("prim {} fe={}", wt, fk), &ans);
}

fn case_ty<Ty: EdgeType>(ctx: &mut Ctx, rng: &mut Rng, ag: &AG) -> &'static str {
    let n = ag.n;
    let node_order = random_perm(rng, n);
    let edge_order = random_perm(rng, ag.edges.len());
    let simple = ag.is_simple();
    let pm = pair_map(ag);
    let mut choices = vec![0, 1, 2, 2, 6, 7, 9];
    if simple {
        choices.extend([3, 4, 5]);
        if ag.directed {
            choices.push(8);
        }
    }
    match *rng.pick(&choices) {
        0 => {
            let e = enc_graph::<Ty, u32>(ag, &node_order, &edge_order);
            let g = &e.g;
            let abs = |x: petgraph::graph::NodeIndex<u32>| g[x];
            ctx.line(&format!("{} enc=graph-u32", view_line(ag, g, &abs, &|er, _| e.eid[EdgeRef::id(&er).index()])), "ok");
            run_mst(ctx, rng, g, "i64", &abs, &|er| e.eid[EdgeRef::id(&er).index()], &|_, w| *w);
            "graph-u32"
        }
        1 => {
            let e = enc_graph::<Ty, u8>(ag, &node_order, &edge_order);
            let g = &e.g;
            let abs = |x: petgraph::graph::NodeIndex<u8>| g[x];
            ctx.line(&format!("{} enc=graph-u8", view_line(ag, g, &abs, &|er, _| e.eid[EdgeRef::id(&er).index()])), "ok");
            run_mst(ctx, rng, g, "i64", &abs, &|er| e.eid[EdgeRef::id(&er).index()], &|_, w| *w);
            "graph-u8"
        }
        2 => {
            let e = enc_stable::<Ty, u32>(rng, ag, &node_order, &edge_order, true);
            let g = &e.g;
            let abs = |x: petgraph::graph::NodeIndex<u32>| g[x];
            ctx.line(&format!("{} enc=stable-holes", view_line(ag, g, &abs, &|er, _| e.eid[EdgeRef::id(&er).index()])), "ok");
            run_mst(ctx, rng, g, "i64", &abs, &|er| e.eid[EdgeRef::id(&er).index()], &|_, w| *w);
            "stable-holes"
        }
        3 => {
            let g0 = enc_matrix::<Ty>(rng, ag, &node_order, &edge_order, true);
            let g = &g0;
            let abs = |x: petgraph::matrix_graph::NodeIndex| *g.node_weight(x);
            let look = |er: (petgraph::matrix_graph::NodeIndex, petgraph::matrix_graph::NodeIndex, &i64)| *pm.get(&(abs(er.0), abs(er.1))).unwrap_or(&usize::MAX);
            ctx.line(&format!("{} enc=matrix-holes", view_line_out_only(ag, g, &abs, &|er, _| look(er))), "ok");
            run_mst(ctx, rng, g, "i64", &abs, &look, &|_, w| *w);
            "matrix-holes"
        }
        4 => {
            let g0 = enc_map::<Ty>(ag, &node_order, &edge_order);
            let g = &g0;
            let abs = |x: usize| x;
            let look = |er: (usize, usize, &i64)| *pm.get(&(er.0, er.1)).unwrap_or(&usize::MAX);
            ctx.line(&format!("{} enc=graphmap", view_line(ag, g, &abs, &|er, _| look(er))), "ok");
            run_mst(ctx, rng, g, "i64", &abs, &look, &|_, w| *w);
            "graphmap"
        }
        5 => {
            let g0 = enc_csr::<Ty>(ag, &node_order, &edge_order);
            let g = &g0;
            let abs = |x: u32| g[x];
            let look = |er: petgraph::csr::EdgeReference<'_, i64, Ty>| *pm.get(&(abs(er.source()), abs(er.target()))).unwrap_or(&usize::MAX);
            ctx.line(&format!("{} enc=csr", view_line_out_only(ag, g, &abs, &|er, _| look(er))), "ok");
            run_mst(ctx, rng, g, "i64", &abs, &look, &|_, w| *w);
            "csr"
        }
        6 => {
            // integer-valued float weights on Graph
            let e = enc_graph::<Ty, u32>(ag, &node_order, &edge_order);
            let gf: Graph<usize, f64, Ty, u32> = e.g.map(|_, n| *n, |_, w| *w as f64);
            let g = &gf;
            let abs = |x: petgraph::graph::NodeIndex<u32>| g[x];
            ctx.line(&format!("{} enc=graph-f64", view_line(ag, &e.g, &abs, &|er, _| e.eid[EdgeRef::id(&er).index()])), "ok");
            run_mst(ctx, rng, g, "f64", &abs, &|er| e.eid[EdgeRef::id(&er).index()], &|_, w| *w);
            "graph-f64"
        }
        8 => {
            // adj::List (directed, unit node weights): node i of the stream is abstract node node_order[i]
            let g0 = enc_list(ag, &node_order, &edge_order);
            let g = &g0;
            let abs = |x: u32| node_order[x as usize];
            let look = |er: petgraph::adj::EdgeReference<'_, i64, u32>| *pm.get(&(abs(er.source()), abs(er.target()))).unwrap_or(&usize::MAX);
            ctx.line(&format!("{} enc=adj-list", view_line_out_only(ag, g, &abs, &|er, _| look(er))), "ok");
            run_mst(ctx, rng, g, "i64", &abs, &look, &|i, _| node_order[i]);
            "adj-list"
        }
        9 => {
            // Reversed(&Graph): the abstract graph is the reverse (direction is ignored by the property)
            let e = enc_graph::<Ty, u32>(ag, &node_order, &edge_order);
            let rag = AG { directed: ag.directed, n: ag.n, edges: ag.edges.iter().map(|&(a, b, w)| (b, a, w)).collect() };
            let g = petgraph::visit::Reversed(&e.g);
            let abs = |x: petgraph::graph::NodeIndex<u32>| e.g[x];
            ctx.line(&format!("{} enc=reversed", view_line(&rag, g, &abs, &|er, _| e.eid[EdgeRef::id(&er).index()])), "ok");
            run_mst(ctx, rng, g, "i64", &abs, &|er| e.eid[EdgeRef::id(&er).index()], &|_, w| *w);
            "reversed"
        }
        _ => {
            // integer-valued float weights on StableGraph with vacancies (map keeps the indices)
            let e = enc_stable::<Ty, u32>(rng, ag, &node_order, &edge_order, true);
            let gf: StableGraph<usize, f64, Ty, u32> = e.g.map(|_, n| *n, |_, w| *w as f64);
            let g = &gf;
            let abs = |x: petgraph::graph::NodeIndex<u32>| g[x];
            ctx.line(&format!("{} enc=stable-f64", view_line(ag, &e.g, &abs, &|er, _| e.eid[EdgeRef::id(&er).index()])), "ok");
            run_mst(ctx, rng, g, "f64", &abs, &|er| e.eid[EdgeRef::id(&er).index()], &|_, w| *w);
            "stable-f64"
        }
    }
}

/// weight modes: what the suite never generates — ties, all-equal, mixed sign, all distinct
fn reweigh(rng: &mut Rng, ag: &mut AG) -> &'static str {
    let m = ag.edges.len();
    match rng.below(6) {
        0 => {
            let (lo, hi) = if rng.chance(50) { (1, 3) } else { (-2, 2) };
            for e in ag.edges.iter_mut() { e.2 = rng.range(lo, hi); }
            "ties"
        }
        1 | 2 => {
            // all distinct (the minimum spanning forest is unique), mixed sign, random scale
            let scale = 1 + rng.below(4) as i64;
            let off = if rng.chance(60) { (m as i64) / 2 } else { 0 };
            let mut ws: Vec<i64> = (0..m as i64).map(|i| (i - off) * scale).collect();
            rng.shuffle(&mut ws);
            for (e, w) in ag.edges.iter_mut().zip(ws) { e.2 = w; }
            "distinct"
        }
        3 => {
            let c = *rng.pick(&[1i64, 0, -1, 7]);
            for e in ag.edges.iter_mut() { e.2 = c; }
            "equal"
        }
        4 => {
            for e in ag.edges.iter_mut() { e.2 = rng.range(-50, 50); }
            "wide"
        }
        _ => {
            for e in ag.edges.iter_mut() { e.2 = if rng.chance(50) { 1 } else { 100 }; }
            "two-level"
        }
    }
}

pub fn run(ctx: &mut Ctx, case: u64) {
    let mut rng = Rng::for_case(ctx.seed, "C12", case);
    // every 8th case is a script on the heap type itself
    if case % 8 == 7 {
        heap_case(ctx, &mut rng, case);
        return;
    }
    let directed = rng.chance(35);
    let big = if ctx.tier_thorough { 10 } else { 8 };
    // small graphs (brute-force minimality applies) and larger ones (certificate only); trivial graphs
    // (fewer than 3 nodes or 2 edges) are mostly redrawn
    let (mut ag, mut fam) = (AG { directed, n: 0, edges: vec![] }, 12);
    for attempt in 0..4 {
        let max_n = *rng.pick(&[4, 5, 5, 6, big, big]);
        let opts = if rng.chance(60) { GenOpts::multi(max_n, 1, 3) } else { GenOpts { loops: rng.chance(40), ..GenOpts::simple(max_n) } };
        let (a, f) = gen_graph(&mut rng, directed, opts);
        ag = a;
        fam = f;
        if (ag.n >= 3 && ag.edges.len() >= 2) || (attempt == 0 && rng.chance(12)) {
            break;
        }
    }
    let wm = reweigh(&mut rng, &mut ag);
    let start = format!("case {} fam={} d={} n={} m={} w={}", case, family_name(fam), directed as u8, ag.n, ag.edges.len(), wm);
    ctx.raw(&start);
    if directed { case_ty::<Directed>(ctx, &mut rng, &ag) } else { case_ty::<Undirected>(ctx, &mut rng, &ag) };
}
