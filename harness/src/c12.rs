//! C12 — min_spanning_tree (Kruskal) and min_spanning_tree_prim on every storage type and every graph
//! adaptor that meets the bounds, `from_elements` / `filter_elements` on the element stream, and the
//! `MinScored` / `MaxScored` orders (`src/scored.rs`).  API table: docs/C12_api.md.
//!
//! Lines per graph case:
//!   graph d= nb= nodes= ix= edges= out= in= [hasin=0] [sw=<eid>:<nan|inf|-inf>;…] [inc=<a>:<i>.<j>;…] enc=<name>
//!        one encoding's view in abstract ids.  `sw` = the float weights that are not integers (the
//!        `edges=` field carries 0 for them); `inc` = positions in the `out` row of `a` whose edge
//!        reference does NOT have `a` as its source (open findings D23 / D6; empty everywhere else).
//!   kruskal <wt> fe=<g|s|d|b|m> er=<s:t:eid;…>  => <stream>|<fe nodes>|<fe edges>
//!   prim <wt> fe=<…>                            => <stream>|<fe nodes>|<fe edges>
//!   iterlaw <what> => ok | VIOLATED <why>       `iterlaws::iter_laws` on the MST iterators / FilterElements
//!   law <name> … => ok | VIOLATED <why>          laws checked against the implementation itself (see below)
//! `er` = `edge_references()` order as (source, target, abstract edge id) in abstract node ids;
//! stream = `N<weight>` / `E<source>:<target>:<weight>` tokens exactly as the iterator yields them
//! (edge endpoints are positions in the node part of the stream; weights are integers, `nan`, `inf`,
//! `-inf`); fe = the graph built by `from_elements` from that stream: node weights in index order,
//! edges in index order as `<weight of source>:<weight of target>:<w>`.  fe kinds: g/d = Graph
//! undirected/directed (u32), s = StableGraph undirected, b = Graph<_, _, Undirected, u8> (panics —
//! documented — beyond 255 nodes), m = GraphMap<usize, W, Undirected>.
//!
//! Laws (`law <name>`): mst-clone-mid (a clone taken after k `next()` calls yields the same rest as
//! the original), mst-debug (`{:?}` / `{:#?}` of the iterators never panic, also mid-iteration),
//! element-derives (`Element`: `x == x.clone()`, `Debug` text), filter-elements (`filter_elements`
//! ≡ its documented meaning: rejected elements are dropped, edges at dropped nodes are dropped, the
//! remaining positions are renumbered, mutations of the weights are kept), fe-default-method (the
//! PROVIDED method `FromElements::from_elements` on a user type ≡ `Graph::from_elements`).
//!
//! Heap cases (no graph line): a direct differential test of the `BinaryHeap` mirror against
//! `std::collections::BinaryHeap<MinScored<K, (usize, usize)>>` (the very type the two iterators use),
//! `K` = i64 or f64 (NaN, infinities, -0.0 included):
//!   heap <i64|f64> ops=<p<key>:<id>|o|c;…> => one token per call: push `=<vec>`, pop `<key>:<id>=<vec>`
//!                                             or `none=<vec>`, clear `c`
//! `<vec>` = payload ids in the order of the heap's internal vector (`BinaryHeap::iter`), `.`-separated.
//! and the comparison operators of `MinScored` / `MaxScored` themselves:
//!   mscmp <min|max> <f64|f32|i64> <a> <b> => cmp=<l|e|g> pcmp=<l|e|g|none> eq=<0|1> ne= lt= le= gt= ge= max=<a|b> min=<a|b>
//!   law scored-derives => ok | VIOLATED …      (Copy/Clone/Debug of MinScored / MaxScored)
use crate::common::*;
use crate::graphs::*;
use crate::iterlaws::{iter_laws, law_verdict};
use crate::rng::Rng;
use petgraph::algo::{min_spanning_tree, min_spanning_tree_prim};
use petgraph::data::{Build, Create, Element, ElementIterator, FromElements};
use petgraph::graph::{Frozen, Graph, IndexType};
use petgraph::graphmap::GraphMap;
use petgraph::stable_graph::StableGraph;
use petgraph::visit::{
    Data, EdgeFiltered, EdgeRef, FilterEdge, FilterNode, GraphBase, IntoEdgeReferences, IntoEdges,
    IntoEdgesDirected, IntoNodeReferences, NodeCount, NodeFiltered, NodeIndexable, NodeRef, Reversed,
    UndirectedAdaptor, VisitMap, Visitable,
};
use petgraph::{Directed, EdgeType, Undirected};
use std::collections::BinaryHeap;
use std::fmt::Debug;

#[allow(dead_code)]
#[path = "/repo/src/scored.rs"]
mod scored_src;
use scored_src::{MaxScored, MinScored};

trait HKey: Copy + PartialOrd + Debug {
    fn show(self) -> String;
}
impl HKey for i64 {
    fn show(self) -> String {
        self.to_string()
    }
}
impl HKey for f64 {
    fn show(self) -> String {
        if self.is_nan() {
            "nan".into()
        } else if self == f64::INFINITY {
            "inf".into()
        } else if self == f64::NEG_INFINITY {
            "-inf".into()
        } else {
            // integer-valued by construction; -0.0 prints as 0 (it compares equal to 0.0)
            (self as i64).to_string()
        }
    }
}
impl HKey for f32 {
    fn show(self) -> String {
        (self as f64).show()
    }
}

fn heap_vec<K: HKey>(h: &BinaryHeap<MinScored<K, (usize, usize)>>) -> String {
    let ids: Vec<String> = h.iter().map(|m| (m.1).0.to_string()).collect();
    if ids.is_empty() { "-".into() } else { ids.join(".") }
}

/// one random push/pop/clear script on the heap type of the MST iterators; keys are drawn from a
/// small pool (1..4 distinct values, so most keys are equal to some other key)
fn heap_script<K: HKey>(ctx: &mut Ctx, rng: &mut Rng, kt: &str, base: &[K]) -> (usize, usize) {
    let pool: Vec<K> = if rng.chance(15) { base.to_vec() } else { (0..1 + rng.below(4)).map(|_| *rng.pick(base)).collect() };
    let long: i64 = if ctx.tier_thorough { 160 } else { 90 };
    let len = (if rng.chance(20) { rng.range(40, long) } else { rng.range(3, 30) }) as usize;
    let p_push = *rng.pick(&[85u32, 65, 55, 45]);
    let p_clear = if rng.chance(30) { 3 } else { 0 };
    // the script does not depend on the heap's answers
    let mut script: Vec<Option<K>> = Vec::new(); // Some(k) = push, None = pop
    let mut clears: Vec<bool> = Vec::new();
    for _ in 0..len {
        if rng.chance(p_push) {
            script.push(Some(*rng.pick(&pool)));
            clears.push(false);
        } else {
            script.push(None);
            clears.push(rng.chance(p_clear));
        }
    }
    // drain (and one pop on the empty heap) at the end
    let pushes = script.iter().filter(|x| x.is_some()).count();
    let drain = if rng.chance(80) { pushes + 1 } else { rng.below(pushes + 1) };
    for _ in 0..drain {
        script.push(None);
        clears.push(false);
    }
    let mut ops: Vec<String> = Vec::new();
    let mut id = 0usize;
    for (x, &c) in script.iter().zip(clears.iter()) {
        match x {
            Some(k) => {
                ops.push(format!("p{}:{}", k.show(), id));
                id += 1;
            }
            None => ops.push(if c { "c".into() } else { "o".into() }),
        }
    }
    let cap = if rng.chance(50) { Some(rng.below(8)) } else { None };
    let r = catch(|| {
        let mut h: BinaryHeap<MinScored<K, (usize, usize)>> = match cap { Some(c) => BinaryHeap::with_capacity(c), None => BinaryHeap::new() };
        let mut ans: Vec<String> = Vec::new();
        let mut id = 0usize;
        for (x, &c) in script.iter().zip(clears.iter()) {
            match x {
                Some(k) => {
                    h.push(MinScored(*k, (id, 0)));
                    id += 1;
                    ans.push(format!("={}", heap_vec(&h)));
                }
                None if c => {
                    h.clear();
                    ans.push("c".into());
                }
                None => match h.pop() {
                    Some(MinScored(k, (i, _))) => ans.push(format!("{}:{}={}", k.show(), i, heap_vec(&h))),
                    None => ans.push(format!("none={}", heap_vec(&h))),
                },
            }
        }
        ans.join(";")
    });
    ctx.line(&format!("heap {} ops={}", kt, ops.join(";")), &r.unwrap_or("panic".into()));
    (pushes, pool.len())
}

fn ord_s(o: std::cmp::Ordering) -> &'static str {
    match o {
        std::cmp::Ordering::Less => "l",
        std::cmp::Ordering::Equal => "e",
        std::cmp::Ordering::Greater => "g",
    }
}

/// every comparison operator of `MinScored` / `MaxScored` on one pair of scores (payloads differ on
/// purpose: the order must ignore them)
fn mscmp_lines<K: HKey>(ctx: &mut Ctx, rng: &mut Rng, kt: &str, base: &[K], pairs: usize) {
    for _ in 0..pairs {
        let (a, b) = (*rng.pick(base), *rng.pick(base));
        let r = catch(|| {
            let (x, y) = (MinScored(a, 7usize), MinScored(b, 3usize));
            format!(
                "cmp={} pcmp={} eq={} ne={} lt={} le={} gt={} ge={} max={} min={}",
                ord_s(x.cmp(&y)),
                x.partial_cmp(&y).map_or("none", ord_s),
                (x == y) as u8, (x != y) as u8, (x < y) as u8, (x <= y) as u8, (x > y) as u8, (x >= y) as u8,
                if std::cmp::max(x, y).1 == 7 { "a" } else { "b" },
                if std::cmp::min(x, y).1 == 7 { "a" } else { "b" },
            )
        });
        ctx.line(&format!("mscmp min {} {} {}", kt, a.show(), b.show()), &r.unwrap_or("panic".into()));
        let r = catch(|| {
            let (x, y) = (MaxScored(a, 7usize), MaxScored(b, 3usize));
            format!(
                "cmp={} pcmp={} eq={} ne={} lt={} le={} gt={} ge={} max={} min={}",
                ord_s(x.cmp(&y)),
                x.partial_cmp(&y).map_or("none", ord_s),
                (x == y) as u8, (x != y) as u8, (x < y) as u8, (x <= y) as u8, (x > y) as u8, (x >= y) as u8,
                if std::cmp::max(x, y).1 == 7 { "a" } else { "b" },
                if std::cmp::min(x, y).1 == 7 { "a" } else { "b" },
            )
        });
        ctx.line(&format!("mscmp max {} {} {}", kt, a.show(), b.show()), &r.unwrap_or("panic".into()));
    }
}

fn scored_derives(ctx: &mut Ctx) {
    let r = catch(|| {
        let x = MinScored(f64::NAN, (1usize, 2usize));
        let y = x; // Copy
        #[allow(clippy::clone_on_copy)]
        let z = x.clone();
        if format!("{:?}", y) != "MinScored(NaN, (1, 2))" || format!("{:?}", z) != format!("{:?}", x) {
            return Some(format!("Debug of MinScored(NaN, (1, 2)) is {:?}", y));
        }
        if !(x == z) {
            return Some("MinScored(NaN, _) != its clone".to_string());
        }
        let m = MaxScored(-0.0f32, "p");
        let m2 = m;
        if format!("{:?}", m2) != "MaxScored(-0.0, \"p\")" || !(m == MaxScored(0.0f32, "q")) {
            return Some(format!("MaxScored(-0.0, \"p\"): Debug {:?}, == MaxScored(0.0, _) is {}", m2, m == MaxScored(0.0f32, "q")));
        }
        let _ = format!("{:#?} {:10?}", x, m);
        None
    });
    ctx.line("law scored-derives", &match r { Some(v) => law_verdict(v), None => "VIOLATED panic".to_string() });
}

fn heap_case(ctx: &mut Ctx, rng: &mut Rng, case: u64) {
    ctx.raw(&format!("case {} heap profile={}", case, profile()));
    let fbase = [f64::NAN, f64::NAN, f64::NEG_INFINITY, -2.0, -1.0, -0.0, 0.0, 1.0, 1.0, 2.0, 3.0, 1.0e9, f64::INFINITY];
    let ibase = [-2i64, -1, 0, 0, 1, 1, 2, 3, 7, 100, i64::MIN, i64::MAX];
    if rng.chance(50) {
        heap_script::<i64>(ctx, rng, "i64", &ibase);
    } else {
        heap_script::<f64>(ctx, rng, "f64", &fbase);
    }
    match rng.below(4) {
        0 => mscmp_lines::<i64>(ctx, rng, "i64", &ibase, 2),
        1 => {
            let b32 = [f32::NAN, -f32::NAN, f32::NEG_INFINITY, -1.0, -0.0, 0.0, 1.0, 2.0, f32::INFINITY];
            mscmp_lines::<f32>(ctx, rng, "f32", &b32, 3)
        }
        _ => mscmp_lines::<f64>(ctx, rng, "f64", &fbase, 3),
    }
    if rng.chance(25) {
        scored_derives(ctx);
    }
}

fn profile() -> &'static str {
    if cfg!(debug_assertions) { "debug" } else { "release" }
}

// ------------------------------------------------------------------------------------------------
// weights.  The abstract graph carries `i64` KEYS; float encodings map three reserved keys to the
// scores that are not integers.

const NAN_K: i64 = i64::MAX;
const PINF_K: i64 = i64::MAX - 1;
const NINF_K: i64 = i64::MIN + 1;

trait Wt: Copy + PartialOrd + PartialEq + Debug + 'static {
    const FLOAT: bool;
    const NAME: &'static str;
    fn key(self) -> i64;
    fn of_key(k: i64, alt: bool) -> Self;
}
impl Wt for i64 {
    const FLOAT: bool = false;
    const NAME: &'static str = "i64";
    fn key(self) -> i64 {
        self
    }
    fn of_key(k: i64, _: bool) -> Self {
        k
    }
}
impl Wt for () {
    const FLOAT: bool = false;
    const NAME: &'static str = "unit";
    fn key(self) -> i64 {
        0
    }
    fn of_key(_: i64, _: bool) -> Self {}
}
impl Wt for f64 {
    const FLOAT: bool = true;
    const NAME: &'static str = "f64";
    fn key(self) -> i64 {
        if self.is_nan() { NAN_K } else if self == f64::INFINITY { PINF_K } else if self == f64::NEG_INFINITY { NINF_K } else if self.fract() != 0.0 { i64::MIN } else { self as i64 }
    }
    /// `alt`: the other representation of the same score (-0.0 for 0, a NaN with the sign bit set)
    fn of_key(k: i64, alt: bool) -> Self {
        match k {
            NAN_K => if alt { -f64::NAN } else { f64::NAN },
            PINF_K => f64::INFINITY,
            NINF_K => f64::NEG_INFINITY,
            0 => if alt { -0.0 } else { 0.0 },
            _ => k as f64,
        }
    }
}
impl Wt for f32 {
    const FLOAT: bool = true;
    const NAME: &'static str = "f32";
    fn key(self) -> i64 {
        (self as f64).key()
    }
    fn of_key(k: i64, alt: bool) -> Self {
        f64::of_key(k, alt) as f32
    }
}

fn show_key(k: i64, float: bool) -> String {
    if float && k == NAN_K { "nan".into() } else if float && k == PINF_K { "inf".into() } else if float && k == NINF_K { "-inf".into() } else { k.to_string() }
}

/// node weights: the abstract id itself, or nothing (adj::List) — then the id is the one of the node at
/// that position of `node_references`
trait NodeW: Clone + PartialEq + Debug {
    fn abs_id(&self) -> Option<usize>;
}
impl NodeW for usize {
    fn abs_id(&self) -> Option<usize> {
        Some(*self)
    }
}
impl NodeW for () {
    fn abs_id(&self) -> Option<usize> {
        None
    }
}

/// the abstract graph an encoding (base type or adaptor) is supposed to describe
#[derive(Clone, Debug)]
struct VG {
    directed: bool,
    float: bool,
    /// (abstract edge id, source, target, key)
    edges: Vec<(usize, usize, usize, i64)>,
}

impl VG {
    fn of(ag: &AG, float: bool) -> VG {
        VG { directed: ag.directed, float, edges: ag.edges.iter().enumerate().map(|(k, &(a, b, w))| (k, a, b, w)).collect() }
    }
    /// abstract id of an edge reference by endpoints + key among the ids not used yet
    fn eid(&self, a: usize, b: usize, w: i64, used: &mut Vec<usize>, dup_ok: bool) -> usize {
        let hit = |x: usize, y: usize| (x == a && y == b) || (!self.directed && x == b && y == a);
        for &(k, x, y, ww) in &self.edges {
            if ww == w && !used.contains(&k) && hit(x, y) {
                used.push(k);
                return k;
            }
        }
        if dup_ok {
            for &(k, x, y, ww) in &self.edges {
                if ww == w && hit(x, y) {
                    return k;
                }
            }
        }
        usize::MAX
    }
    fn fmt_edges(&self) -> (String, String) {
        let special = |w: i64| self.float && (w == NAN_K || w == PINF_K || w == NINF_K);
        let e: Vec<String> = self.edges.iter().map(|&(k, a, b, w)| format!("{}:{}:{}:{}", k, a, b, if special(w) { 0 } else { w })).collect();
        let s: Vec<String> = self.edges.iter().filter(|e| special(e.3)).map(|&(k, _, _, w)| format!("{}:{}", k, show_key(w, true))).collect();
        (if e.is_empty() { "-".into() } else { e.join(";") }, s.join(";"))
    }
}

/// `graph` line for anything that offers node references, `edges(a)` and `to_index` — what the two
/// algorithms use.  Returns the line and the abstract ids of the node references in order.
fn view_any<G, W>(vg: &VG, g: G, abs: &dyn Fn(G::NodeId) -> usize, enc: &str) -> (String, Vec<usize>)
where
    W: Wt,
    G: IntoNodeReferences + IntoEdges + NodeIndexable + Data<EdgeWeight = W>,
{
    let nodes: Vec<G::NodeId> = g.node_references().map(|r| r.id()).collect();
    let mut out = Vec::new();
    let mut inc = Vec::new();
    for &n in &nodes {
        let mut used = Vec::new();
        let mut row = Vec::new();
        let mut flagged = Vec::new();
        for (i, e) in g.edges(n).enumerate() {
            let (s, t) = (e.source(), e.target());
            let other = if s == n { t } else { s };
            if s != n {
                flagged.push(i.to_string());
            }
            // looked up as an edge from `n` to the other endpoint (flagged entries report it the other way
            // round); a second listing of a self-loop gets the id of the first (D23; anywhere else the
            // driver's view_ids check rejects the repeated id)
            row.push(format!("{}/{}", abs(other), vg.eid(abs(n), abs(other), e.weight().key(), &mut used, other == n)));
        }
        out.push(format!("{}:{}", abs(n), if row.is_empty() { "-".into() } else { row.join(",") }));
        if !flagged.is_empty() {
            inc.push(format!("{}:{}", abs(n), flagged.join(".")));
        }
    }
    let (edges, sw) = vg.fmt_edges();
    let ids: Vec<usize> = nodes.iter().map(|&n| abs(n)).collect();
    let mut line = format!(
        "graph d={} nb={} nodes={} ix={} edges={} out={} in=- hasin=0",
        vg.directed as u8,
        g.node_bound(),
        list(ids.iter()),
        list(nodes.iter().map(|&n| format!("{}:{}", abs(n), g.to_index(n)))),
        edges,
        if out.is_empty() { "-".into() } else { out.join(";") },
    );
    if !sw.is_empty() {
        line.push_str(&format!(" sw={}", sw));
    }
    if !inc.is_empty() {
        line.push_str(&format!(" inc={}", inc.join(";")));
    }
    line.push_str(&format!(" enc={}", enc));
    (line, ids)
}

fn show_stream<W: Wt>(els: &[Element<usize, W>]) -> String {
    list(els.iter().map(|e| match e {
        Element::Node { weight } => format!("N{}", weight),
        Element::Edge { source, target, weight } => format!("E{}:{}:{}", source, target, show_key(weight.key(), W::FLOAT)),
    }))
}

fn fe_dump(nodes: Vec<usize>, edges: Vec<String>) -> String {
    format!("{}|{}", list(nodes), if edges.is_empty() { "-".to_string() } else { edges.join(";") })
}

fn show_fe<W: Wt>(els: &[Element<usize, W>], kind: char) -> String {
    let els: Vec<Element<usize, W>> = els.to_vec();
    let sk = |w: &W| show_key(w.key(), W::FLOAT);
    let r = catch(move || match kind {
        's' => {
            let g = StableGraph::<usize, W, Undirected>::from_elements(els);
            fe_dump(g.node_indices().map(|n| g[n]).collect(), g.edge_indices().map(|e| { let (a, b) = g.edge_endpoints(e).unwrap(); format!("{}:{}:{}", g[a], g[b], sk(&g[e])) }).collect())
        }
        'd' => {
            let g = Graph::<usize, W, Directed>::from_elements(els);
            fe_dump(g.node_indices().map(|n| g[n]).collect(), g.edge_indices().map(|e| { let (a, b) = g.edge_endpoints(e).unwrap(); format!("{}:{}:{}", g[a], g[b], sk(&g[e])) }).collect())
        }
        'b' => {
            let g = Graph::<usize, W, Undirected, u8>::from_elements(els);
            fe_dump(g.node_indices().map(|n| g[n]).collect(), g.edge_indices().map(|e| { let (a, b) = g.edge_endpoints(e).unwrap(); format!("{}:{}:{}", g[a], g[b], sk(&g[e])) }).collect())
        }
        'm' => {
            let g = GraphMap::<usize, W, Undirected>::from_elements(els);
            fe_dump(g.nodes().collect(), g.all_edges().map(|(a, b, w)| format!("{}:{}:{}", a, b, sk(w))).collect())
        }
        _ => {
            let g = Graph::<usize, W, Undirected>::from_elements(els);
            fe_dump(g.node_indices().map(|n| g[n]).collect(), g.edge_indices().map(|e| { let (a, b) = g.edge_endpoints(e).unwrap(); format!("{}:{}:{}", g[a], g[b], sk(&g[e])) }).collect())
        }
    });
    r.unwrap_or("panic|panic".into())
}

/// node elements carry the abstract id: the node weight itself, or the id of the node at that
/// position of `node_references`
fn relabel<N: NodeW, W: Wt>(els: Vec<Element<N, W>>, ids: &[usize]) -> Vec<Element<usize, W>> {
    let mut pos = 0usize;
    els.into_iter()
        .map(|e| match e {
            Element::Node { weight } => {
                let w = weight.abs_id().unwrap_or_else(|| ids.get(pos).copied().unwrap_or(usize::MAX));
                pos += 1;
                Element::Node { weight: w }
            }
            Element::Edge { source, target, weight } => Element::Edge { source, target, weight },
        })
        .collect()
}

// ------------------------------------------------------------------------------------------------
// a user type that relies on the PROVIDED method of `FromElements`

struct Wrap<W>(Graph<usize, W, Undirected>);
impl<W> Default for Wrap<W> {
    fn default() -> Self {
        Wrap(Graph::default())
    }
}
impl<W> GraphBase for Wrap<W> {
    type NodeId = petgraph::graph::NodeIndex;
    type EdgeId = petgraph::graph::EdgeIndex;
}
impl<W> Data for Wrap<W> {
    type NodeWeight = usize;
    type EdgeWeight = W;
}
impl<W> NodeCount for Wrap<W> {
    fn node_count(&self) -> usize {
        self.0.node_count()
    }
}
impl<W> Build for Wrap<W> {
    fn add_node(&mut self, weight: usize) -> Self::NodeId {
        self.0.add_node(weight)
    }
    fn add_edge(&mut self, a: Self::NodeId, b: Self::NodeId, weight: W) -> Option<Self::EdgeId> {
        Some(self.0.add_edge(a, b, weight))
    }
    fn update_edge(&mut self, a: Self::NodeId, b: Self::NodeId, weight: W) -> Self::EdgeId {
        self.0.update_edge(a, b, weight)
    }
}
impl<W> Create for Wrap<W> {
    fn with_capacity(nodes: usize, edges: usize) -> Self {
        Wrap(Graph::with_capacity(nodes, edges))
    }
}
impl<W> FromElements for Wrap<W> {}

/// user-defined filters (petgraph implements the filter traits for closures and for visit maps; a
/// user type is the third way in)
#[derive(Clone, Debug)]
struct KeepNodes<N>(Vec<N>);
impl<N: PartialEq> FilterNode<N> for KeepNodes<N> {
    fn include_node(&self, n: N) -> bool {
        self.0.contains(&n)
    }
}
#[derive(Clone, Debug)]
struct KeepEdges<N>(Vec<(N, N, i64)>);
impl<N: PartialEq + Copy, E: EdgeRef<NodeId = N>> FilterEdge<E> for KeepEdges<N>
where
    E::Weight: Wt,
{
    fn include_edge(&self, e: E) -> bool {
        let (s, t, k) = (e.source(), e.target(), e.weight().key());
        self.0.iter().any(|&(a, b, w)| w == k && ((a == s && b == t) || (a == t && b == s)))
    }
}

// ------------------------------------------------------------------------------------------------
// laws on the element stream

fn element_debug<W: Wt>(e: &Element<usize, W>) -> String {
    match e {
        Element::Node { weight } => format!("Node {{ weight: {:?} }}", weight),
        Element::Edge { source, target, weight } => format!("Edge {{ source: {:?}, target: {:?}, weight: {:?} }}", source, target, weight),
    }
}

fn element_law<W: Wt>(ctx: &mut Ctx, els: &[Element<usize, W>]) {
    let r = catch(|| {
        for e in els {
            let c = e.clone();
            // a NaN weight is not equal to itself: `PartialEq` of `Element` is the derived, field-wise one
            let self_eq = match e { Element::Edge { weight, .. } => weight == weight, _ => true };
            if (*e == c) != self_eq || (*e != c) == self_eq {
                return Some(format!("{:?} == its clone gives {}", e, *e == c));
            }
            if format!("{:?}", c) != element_debug(e) {
                return Some(format!("Debug of an element is {:?}, expected {}", c, element_debug(e)));
            }
        }
        None
    });
    ctx.line("law element-derives", &match r { Some(v) => law_verdict(v), None => "VIOLATED panic".to_string() });
}

/// `filter_elements` against its documented meaning, on an MST stream (nodes first)
fn filter_law<W: Wt>(ctx: &mut Ctx, rng: &mut Rng, els: &[Element<usize, W>]) {
    let n_nodes = els.iter().filter(|e| matches!(e, Element::Node { .. })).count();
    let mode = rng.below(4);
    let keep_node: Vec<bool> = (0..n_nodes).map(|_| match mode { 0 => true, 1 => false, _ => rng.chance(70) }).collect();
    let salt = rng.below(3) as i64;
    let edge_mod = if rng.chance(30) { 1 } else { 3 }; // 1: every edge is kept
    let keep_edge = move |k: i64| edge_mod == 1 || k.rem_euclid(3) != salt;
    let bump = if rng.chance(50) { 1000usize } else { 0 };
    // reference
    let mut want: Vec<Element<usize, W>> = Vec::new();
    let removed_before = |i: usize| keep_node[..i].iter().filter(|k| !**k).count();
    let mut pos = 0usize;
    for e in els {
        match e {
            Element::Node { weight } => {
                if keep_node[pos] {
                    want.push(Element::Node { weight: *weight + bump });
                }
                pos += 1;
            }
            Element::Edge { source, target, weight } => {
                if keep_edge(weight.key()) && keep_node[*source] && keep_node[*target] {
                    want.push(Element::Edge { source: source - removed_before(*source), target: target - removed_before(*target), weight: *weight });
                }
            }
        }
    }
    let kn = keep_node.clone();
    let mk = move || {
        let kn = kn.clone();
        let mut seen = 0usize;
        els.to_vec().into_iter().filter_elements(move |e: Element<&mut usize, &mut W>| match e {
            Element::Node { weight } => {
                let k = kn[seen];
                seen += 1;
                *weight += bump;
                k
            }
            Element::Edge { weight, .. } => keep_edge(weight.key()),
        })
    };
    let r = catch(|| {
        let got: Vec<Element<usize, W>> = mk().collect();
        let same = got.len() == want.len() && got.iter().zip(want.iter()).all(|(a, b)| element_debug(a) == element_debug(b));
        if !same {
            return Some(format!("filter_elements yields {}, its documented meaning gives {}", show_stream(&got), show_stream(&want)));
        }
        let it = mk();
        let _ = format!("{:?}", it.size_hint());
        None
    });
    let bits: String = keep_node.iter().map(|&k| if k { '1' } else { '0' }).collect();
    ctx.line(&format!("law filter-elements keep={} edges-mod={} bump={}", if bits.is_empty() { "-".to_string() } else { bits }, edge_mod, bump), &match r { Some(v) => law_verdict(v), None => "VIOLATED panic".to_string() });
    // the iterator laws need `PartialEq` items: NaN weights would fail `==` on equal streams
    if !els.iter().any(|e| matches!(e, Element::Edge { weight, .. } if weight != weight)) {
        let r = catch(|| iter_laws(mk()));
        ctx.line("iterlaw filter-elements", &match r { Some(v) => law_verdict(v), None => "VIOLATED panic".to_string() });
    }
}

fn default_method_law<W: Wt>(ctx: &mut Ctx, els: &[Element<usize, W>]) {
    let r = catch(|| {
        let w = Wrap::<W>::from_elements(els.to_vec()).0;
        let g = Graph::<usize, W, Undirected>::from_elements(els.to_vec());
        let dump = |g: &Graph<usize, W, Undirected>| format!("{:?} {:?}", g.raw_nodes().iter().map(|n| n.weight).collect::<Vec<_>>(), g.raw_edges().iter().map(|e| (e.source().index(), e.target().index(), format!("{:?}", e.weight))).collect::<Vec<_>>());
        if dump(&w) != dump(&g) {
            return Some(format!("the provided from_elements builds {}, Graph::from_elements builds {}", dump(&w), dump(&g)));
        }
        None
    });
    ctx.line("law fe-default-method", &match r { Some(v) => law_verdict(v), None => "VIOLATED panic".to_string() });
}

// ------------------------------------------------------------------------------------------------
// run both algorithms on one encoding

fn has_nan<N, W: Wt>(els: &[Element<N, W>]) -> bool {
    els.iter().any(|e| matches!(e, Element::Edge { weight, .. } if weight != weight))
}

/// `it` after `k` calls of `next`: its clone and itself yield the same rest, which is the tail of the
/// collected stream
fn clone_mid<I>(mk: &dyn Fn() -> I, k: usize) -> Option<String>
where
    I: Iterator + Clone,
    I::Item: Debug,
{
    let full: Vec<String> = mk().map(|e| format!("{:?}", e)).collect();
    let mut it = mk();
    for _ in 0..k {
        it.next();
    }
    let c = it.clone();
    let r1: Vec<String> = it.map(|e| format!("{:?}", e)).collect();
    let r2: Vec<String> = c.map(|e| format!("{:?}", e)).collect();
    let tail = &full[k.min(full.len())..];
    if r1 != tail {
        return Some(format!("after {} next() calls the iterator yields {:?}, the collected stream continues {:?}", k, r1, tail));
    }
    if r2 != r1 {
        return Some(format!("a clone taken after {} next() calls yields {:?}, the original {:?}", k, r2, r1));
    }
    None
}

fn run_all<G, W>(ctx: &mut Ctx, rng: &mut Rng, vg: &VG, g: G, enc: &str, abs: &dyn Fn(G::NodeId) -> usize, fe_big: bool)
where
    W: Wt,
    G: IntoNodeReferences + IntoEdgeReferences + IntoEdges + NodeIndexable + Data<EdgeWeight = W>,
    G::NodeWeight: NodeW,
    G::NodeReferences: Clone,
{
    let (line, ids) = view_any(vg, g, abs, enc);
    ctx.line(&line, "ok");
    let mut used = Vec::new();
    let er: Vec<String> = g.edge_references().map(|e| format!("{}:{}:{}", abs(e.source()), abs(e.target()), vg.eid(abs(e.source()), abs(e.target()), e.weight().key(), &mut used, true))).collect();
    let er = if er.is_empty() { "-".to_string() } else { er.join(";") };
    let kinds: &[char] = if fe_big { &['b', 'b', 'g'] } else { &['g', 's', 'd', 'b', 'm'] };
    let fk = *rng.pick(kinds);
    let r = catch(|| relabel(min_spanning_tree(g).collect::<Vec<Element<G::NodeWeight, W>>>(), &ids));
    let kstream = r.clone();
    let ans = match r {
        Some(els) => format!("{}|{}", show_stream(&els), show_fe(&els, fk)),
        None => "panic".to_string(),
    };
    ctx.line(&format!("kruskal {} fe={} er={}", W::NAME, fk, er), &ans);
    let fk = *rng.pick(kinds);
    let r = catch(|| relabel(min_spanning_tree_prim(g).collect::<Vec<Element<G::NodeWeight, W>>>(), &ids));
    let pnan = r.as_ref().map_or(false, |s| has_nan(s));
    let ans = match r {
        Some(els) => format!("{}|{}", show_stream(&els), show_fe(&els, fk)),
        None => "panic".to_string(),
    };
    ctx.line(&format!("prim {} fe={}", W::NAME, fk), &ans);
    if fe_big {
        return;
    }
    // laws (a third of the cases each)
    let nan = pnan || kstream.as_ref().map_or(false, |s| has_nan(s));
    if rng.chance(35) && !nan {
        let r = catch(|| iter_laws(min_spanning_tree(g)));
        ctx.line("iterlaw kruskal", &match r { Some(v) => law_verdict(v), None => "VIOLATED panic".to_string() });
        let r = catch(|| iter_laws(min_spanning_tree_prim(g)));
        ctx.line("iterlaw prim", &match r { Some(v) => law_verdict(v), None => "VIOLATED panic".to_string() });
    }
    if rng.chance(35) {
        let len = kstream.as_ref().map_or(0, |s| s.len());
        let k = *rng.pick(&[0, 1, ids.len().saturating_sub(1), ids.len(), ids.len() + 1, len, len + 1]);
        let r = catch(|| clone_mid(&|| min_spanning_tree(g), k).or_else(|| clone_mid(&|| min_spanning_tree_prim(g), k)));
        ctx.line(&format!("law mst-clone-mid k={}", k), &match r { Some(v) => law_verdict(v), None => "VIOLATED panic".to_string() });
    }
    if let Some(els) = kstream {
        if rng.chance(25) {
            element_law(ctx, &els);
        }
        if rng.chance(35) {
            filter_law(ctx, rng, &els);
        }
        if rng.chance(20) {
            default_method_law(ctx, &els);
        }
    }
}

/// `Debug` of the two iterators, fresh and mid-iteration (needs `Debug` of the graph and its node
/// references, which closures as filters do not have)
fn debug_law<G>(ctx: &mut Ctx, rng: &mut Rng, g: G)
where
    G: IntoNodeReferences + IntoEdgeReferences + IntoEdges + NodeIndexable + Debug,
    G::NodeWeight: Clone,
    G::EdgeWeight: Clone + PartialOrd + Debug,
    G::NodeReferences: Debug,
    G::NodeRef: Debug,
    G::NodeId: Debug,
{
    if !rng.chance(20) {
        return;
    }
    let k = rng.below(6);
    let r = catch(|| {
        let mut a = min_spanning_tree(g);
        let mut b = min_spanning_tree_prim(g);
        let s0 = format!("{:?}{:?}", a, b).len();
        for _ in 0..k {
            a.next();
            b.next();
        }
        let s1 = format!("{:#?}{:?}", a, b).len();
        while a.next().is_some() {}
        while b.next().is_some() {}
        let s2 = format!("{:?}{:#?}", a, b).len();
        if s0 == 0 || s1 == 0 || s2 == 0 { Some("empty Debug text".to_string()) } else { None }
    });
    ctx.line(&format!("law mst-debug k={}", k), &match r { Some(v) => law_verdict(v), None => "VIOLATED panic".to_string() });
}

fn mix(a: usize, b: usize, k: i64, salt: u64) -> u64 {
    let (x, y) = if a <= b { (a, b) } else { (b, a) };
    let mut z = (x as u64).wrapping_mul(0x9E3779B97F4A7C15) ^ (y as u64).wrapping_mul(0xBF58476D1CE4E5B9) ^ (k as u64).wrapping_mul(0x94D049BB133111EB) ^ salt;
    z ^= z >> 29;
    z = z.wrapping_mul(0xD6E8FEB86659FD93);
    z ^ (z >> 32)
}

macro_rules! yes_dbg { ($c:expr, $r:expr, $g:expr) => { debug_law($c, $r, $g) }; }
macro_rules! no_dbg { ($c:expr, $r:expr, $g:expr) => { () }; }

/// the adaptors that need `IntoEdges` of the base only: NodeFiltered (closure / visit map / user
/// type), EdgeFiltered (closure / user type); generated twice: with the `Debug` law and (MatrixGraph
/// has no `Debug`) without
macro_rules! filtered_fn { ($name:ident, $dbg:ident, [$($gb:tt)*]) => {
fn $name<G, W>(ctx: &mut Ctx, rng: &mut Rng, vg: &VG, n: usize, g: G, base: &str, abs: &dyn Fn(G::NodeId) -> usize)
where
    W: Wt,
    G: IntoNodeReferences + IntoEdgeReferences + IntoEdges + NodeIndexable + Data<EdgeWeight = W> + Visitable $($gb)*,
    G::NodeWeight: NodeW,
    G::NodeReferences: Clone $($gb)*,
    G::NodeRef: Clone $($gb)*,
    G::NodeId: Clone $($gb)*,
    G::Map: FilterNode<G::NodeId> + Clone $($gb)*,
{
    let which = rng.below(5);
    if which < 3 {
        let p = *rng.pick(&[0u32, 50, 75, 90, 100]);
        let keep: Vec<bool> = (0..n).map(|_| rng.chance(p)).collect();
        let sub = VG { directed: vg.directed, float: vg.float, edges: vg.edges.iter().filter(|e| keep[e.1] && keep[e.2]).cloned().collect() };
        match which {
            0 => {
                let f = NodeFiltered::from_fn(g, |x: G::NodeId| keep[abs(x)]);
                run_all(ctx, rng, &sub, &f, &format!("nf-fn-{}", base), abs, false);
            }
            1 => {
                let mut vm = g.visit_map();
                for r in g.node_references() {
                    if keep[abs(r.id())] {
                        vm.visit(r.id());
                    }
                }
                let f = NodeFiltered(g, vm);
                run_all(ctx, rng, &sub, &f, &format!("nf-map-{}", base), abs, false);
                $dbg!(ctx, rng, &f);
            }
            _ => {
                let f = NodeFiltered(g, KeepNodes(g.node_references().map(|r| r.id()).filter(|&x| keep[abs(x)]).collect()));
                run_all(ctx, rng, &sub, &f, &format!("nf-user-{}", base), abs, false);
                $dbg!(ctx, rng, &f);
            }
        }
    } else {
        let p = *rng.pick(&[0u64, 40, 70, 90, 100]);
        let salt = rng.next();
        let keep = |a: usize, b: usize, k: i64| mix(a, b, k, salt) % 100 < p;
        let sub = VG { directed: vg.directed, float: vg.float, edges: vg.edges.iter().filter(|e| keep(e.1, e.2, e.3)).cloned().collect() };
        if which == 3 {
            let f = EdgeFiltered::from_fn(g, |e: G::EdgeRef| keep(abs(e.source()), abs(e.target()), e.weight().key()));
            run_all(ctx, rng, &sub, &f, &format!("ef-fn-{}", base), abs, false);
        } else {
            let f = EdgeFiltered(g, KeepEdges(g.edge_references().filter(|e| keep(abs(e.source()), abs(e.target()), e.weight().key())).map(|e| (e.source(), e.target(), e.weight().key())).collect()));
            run_all(ctx, rng, &sub, &f, &format!("ef-user-{}", base), abs, false);
            $dbg!(ctx, rng, &f);
        }
    }
}
} }
filtered_fn!(filtered, yes_dbg, [+ Debug]);
filtered_fn!(filtered_nd, no_dbg, []);

/// the adaptors that need `IntoEdgesDirected` of the base: Reversed, UndirectedAdaptor
macro_rules! directed_fn { ($name:ident, $dbg:ident, [$($gb:tt)*]) => {
fn $name<G, W>(ctx: &mut Ctx, rng: &mut Rng, vg: &VG, g: G, base: &str, abs: &dyn Fn(G::NodeId) -> usize)
where
    W: Wt,
    G: IntoNodeReferences + IntoEdgeReferences + IntoEdgesDirected + NodeIndexable + Data<EdgeWeight = W> $($gb)*,
    G::NodeWeight: NodeW,
    G::NodeReferences: Clone $($gb)*,
    G::NodeRef: Clone $($gb)*,
    G::NodeId: Clone $($gb)*,
{
    if !vg.directed || rng.chance(50) {
        let rev = VG { directed: vg.directed, float: vg.float, edges: vg.edges.iter().map(|&(k, a, b, w)| (k, b, a, w)).collect() };
        let r = Reversed(g);
        run_all(ctx, rng, &rev, r, &format!("rev-{}", base), abs, false);
        $dbg!(ctx, rng, r);
    } else {
        let und = VG { directed: false, float: vg.float, edges: vg.edges.clone() };
        let u = UndirectedAdaptor(g);
        run_all(ctx, rng, &und, u, &format!("und-{}", base), abs, false);
        $dbg!(ctx, rng, u);
    }
}
} }
directed_fn!(directed_adaptors, yes_dbg, [+ Debug]);
directed_fn!(directed_adaptors_nd, no_dbg, []);

/// replace ~30 % of the keys of a float graph by the scores that are not numbers
fn specials(rng: &mut Rng, ag: &mut AG) {
    let pool = [NAN_K, NAN_K, PINF_K, NINF_K, 0, 0];
    let p = *rng.pick(&[10u32, 30, 60, 100]);
    for e in ag.edges.iter_mut() {
        if rng.chance(p) {
            e.2 = *rng.pick(&pool);
        }
    }
}

fn graph_of<Ty: EdgeType, Ix: IndexType, W: Wt>(rng: &mut Rng, e: &EncGraph<Ty, u32>) -> Graph<usize, W, Ty, Ix> {
    let mut g = Graph::<usize, W, Ty, Ix>::with_capacity(0, 0);
    for n in e.g.node_indices() {
        g.add_node(e.g[n]);
    }
    for ed in e.g.edge_references() {
        g.add_edge(petgraph::graph::NodeIndex::new(ed.source().index()), petgraph::graph::NodeIndex::new(ed.target().index()), W::of_key(*ed.weight(), rng.chance(50)));
    }
    g
}

fn case_ty<Ty: EdgeType + Clone + Debug>(ctx: &mut Ctx, rng: &mut Rng, ag: &mut AG, node_order: Vec<usize>, corner: &str) {
    let n = ag.n;
    let edge_order = random_perm(rng, ag.edges.len());
    let simple = ag.is_simple();
    // 0-10: the storage types themselves (10 = float with NaN / infinities); 11-16 instantiations;
    // 20-25 filtered adaptors over each base; 30-33 Reversed / UndirectedAdaptor; 40-45 &Frozen
    let mut choices = vec![0, 1, 2, 2, 6, 7, 9, 10, 10, 11, 12, 13, 14, 15, 20, 21, 30, 31, 40, 41];
    if simple {
        choices.extend([3, 4, 5, 16, 22, 23, 24, 32, 42, 43, 44]);
        if ag.directed {
            choices.extend([8, 25, 33, 33, 45]);
        }
    }
    if corner == "capacity" {
        choices = vec![1, 13];
    } else if corner == "over-capacity" {
        choices = vec![0];
    }
    let fe_big = corner == "capacity" || corner == "over-capacity";
    let c = *rng.pick(&choices);
    if c == 10 || (matches!(c, 6 | 7 | 14) && rng.chance(25)) {
        specials(rng, ag);
    }
    if c == 15 {
        for e in ag.edges.iter_mut() {
            e.2 = 0;
        }
    }
    let ag: &AG = ag;
    let node_order = &node_order[..];
    let edge_order = &edge_order[..];
    let vg_i = VG::of(ag, false);
    let vg_f = VG::of(ag, true);
    match c {
        0 => {
            let e = enc_graph::<Ty, u32>(ag, node_order, edge_order);
            let g = &e.g;
            run_all(ctx, rng, &vg_i, g, "graph-u32", &|x| g[x], fe_big);
            debug_law(ctx, rng, g);
        }
        1 => {
            let e = enc_graph::<Ty, u8>(ag, node_order, edge_order);
            let g = &e.g;
            run_all(ctx, rng, &vg_i, g, "graph-u8", &|x| g[x], fe_big);
        }
        2 => {
            let e = enc_stable::<Ty, u32>(rng, ag, node_order, edge_order, true);
            let g = &e.g;
            run_all(ctx, rng, &vg_i, g, "stable-holes", &|x| g[x], false);
            debug_law(ctx, rng, g);
        }
        3 => {
            let g0 = enc_matrix::<Ty>(rng, ag, node_order, edge_order, true);
            let g = &g0;
            run_all(ctx, rng, &vg_i, g, "matrix-holes", &|x| *g.node_weight(x), false);
        }
        4 => {
            let g0 = enc_map::<Ty>(ag, node_order, edge_order);
            let g = &g0;
            run_all(ctx, rng, &vg_i, g, "graphmap", &|x| x, false);
            debug_law(ctx, rng, g);
        }
        5 => {
            let g0 = enc_csr::<Ty>(ag, node_order, edge_order);
            let g = &g0;
            run_all(ctx, rng, &vg_i, g, "csr", &|x| g[x], false);
            debug_law(ctx, rng, g);
        }
        6 | 10 => {
            let e = enc_graph::<Ty, u32>(ag, node_order, edge_order);
            let gf: Graph<usize, f64, Ty, u32> = graph_of(rng, &e);
            let g = &gf;
            run_all(ctx, rng, &vg_f, g, "graph-f64", &|x| g[x], false);
            debug_law(ctx, rng, g);
        }
        7 => {
            // float weights on StableGraph with vacancies (map keeps the indices)
            let e = enc_stable::<Ty, u32>(rng, ag, node_order, edge_order, true);
            let gf: StableGraph<usize, f64, Ty, u32> = e.g.map(|_, n| *n, |_, w| f64::of_key(*w, false));
            let g = &gf;
            run_all(ctx, rng, &vg_f, g, "stable-f64", &|x| g[x], false);
        }
        8 => {
            // adj::List (directed, unit node weights): node i of the stream is abstract node node_order[i]
            let g0 = enc_list(ag, node_order, edge_order);
            let g = &g0;
            run_all(ctx, rng, &vg_i, g, "adj-list", &|x| node_order[x as usize], false);
            debug_law(ctx, rng, g);
        }
        9 => {
            // Reversed(&Graph): the abstract graph is the reverse (direction is ignored by the property)
            let e = enc_graph::<Ty, u32>(ag, node_order, edge_order);
            let g = &e.g;
            directed_adaptors(ctx, rng, &vg_i, g, "graph", &|x| g[x]);
        }
        11 => {
            let e = enc_graph::<Ty, u32>(ag, node_order, edge_order);
            let g16: Graph<usize, i64, Ty, u16> = graph_of(rng, &e);
            let g = &g16;
            run_all(ctx, rng, &vg_i, g, "graph-u16", &|x| g[x], false);
        }
        12 => {
            let e = enc_graph::<Ty, u32>(ag, node_order, edge_order);
            let gz: Graph<usize, i64, Ty, usize> = graph_of(rng, &e);
            let g = &gz;
            run_all(ctx, rng, &vg_i, g, "graph-usize", &|x| g[x], false);
        }
        13 => {
            let e = enc_stable::<Ty, u8>(rng, ag, node_order, edge_order, !fe_big);
            let g = &e.g;
            run_all(ctx, rng, &vg_i, g, "stable-u8", &|x| g[x], fe_big);
        }
        14 => {
            let e = enc_graph::<Ty, u32>(ag, node_order, edge_order);
            let gf: Graph<usize, f32, Ty, u32> = graph_of(rng, &e);
            let g = &gf;
            run_all(ctx, rng, &vg_f, g, "graph-f32", &|x| g[x], false);
        }
        15 => {
            let e = enc_graph::<Ty, u32>(ag, node_order, edge_order);
            let gu: Graph<usize, (), Ty, u32> = graph_of(rng, &e);
            let g = &gu;
            run_all(ctx, rng, &vg_i, g, "graph-unit", &|x| g[x], false);
            debug_law(ctx, rng, g);
        }
        16 => {
            // GraphMap with a non-default hasher
            let mut g0 = GraphMap::<usize, i64, Ty, fxhash::FxBuildHasher>::with_capacity_and_hasher(0, 0, Default::default());
            for &a in node_order {
                g0.add_node(a);
            }
            for &k in edge_order {
                let (a, b, w) = ag.edges[k];
                g0.add_edge(a, b, w);
            }
            let g = &g0;
            run_all(ctx, rng, &vg_i, g, "graphmap-fx", &|x| x, false);
        }
        20 => {
            let e = enc_graph::<Ty, u32>(ag, node_order, edge_order);
            let g = &e.g;
            filtered(ctx, rng, &vg_i, n, g, "graph", &|x| g[x]);
        }
        21 => {
            let e = enc_stable::<Ty, u32>(rng, ag, node_order, edge_order, true);
            let g = &e.g;
            filtered(ctx, rng, &vg_i, n, g, "stable", &|x| g[x]);
        }
        22 => {
            let g0 = enc_map::<Ty>(ag, node_order, edge_order);
            let g = &g0;
            filtered(ctx, rng, &vg_i, n, g, "map", &|x| x);
        }
        23 => {
            let g0 = enc_matrix::<Ty>(rng, ag, node_order, edge_order, true);
            let g = &g0;
            filtered_nd(ctx, rng, &vg_i, n, g, "matrix", &|x| *g.node_weight(x));
        }
        24 => {
            let g0 = enc_csr::<Ty>(ag, node_order, edge_order);
            let g = &g0;
            filtered(ctx, rng, &vg_i, n, g, "csr", &|x| g[x]);
        }
        25 => {
            let g0 = enc_list(ag, node_order, edge_order);
            let g = &g0;
            filtered(ctx, rng, &vg_i, n, g, "list", &|x| node_order[x as usize]);
        }
        30 => {
            let e = enc_graph::<Ty, u32>(ag, node_order, edge_order);
            let g = &e.g;
            directed_adaptors(ctx, rng, &vg_i, g, "graph", &|x| g[x]);
        }
        31 => {
            let e = enc_stable::<Ty, u32>(rng, ag, node_order, edge_order, true);
            let g = &e.g;
            directed_adaptors(ctx, rng, &vg_i, g, "stable", &|x| g[x]);
        }
        32 => {
            let g0 = enc_map::<Ty>(ag, node_order, edge_order);
            let g = &g0;
            directed_adaptors(ctx, rng, &vg_i, g, "map", &|x| x);
        }
        33 => {
            // MatrixGraph offers `edges_directed` on directed storage only
            let g0 = enc_matrix::<Directed>(rng, ag, node_order, edge_order, true);
            let g = &g0;
            directed_adaptors_nd(ctx, rng, &vg_i, g, "matrix", &|x| *g.node_weight(x));
        }
        // `&Frozen<G>` is a graph for the algorithms exactly when `G` itself is one, i.e. a graph
        // REFERENCE: Frozen::new(&mut &graph)
        40 => {
            let e = enc_graph::<Ty, u32>(ag, node_order, edge_order);
            let mut g = &e.g;
            let fz = Frozen::new(&mut g);
            run_all(ctx, rng, &vg_i, &fz, "frozen-graph", &|x| e.g[x], false);
        }
        41 => {
            let e = enc_stable::<Ty, u32>(rng, ag, node_order, edge_order, true);
            let mut g = &e.g;
            let fz = Frozen::new(&mut g);
            run_all(ctx, rng, &vg_i, &fz, "frozen-stable", &|x| e.g[x], false);
        }
        42 => {
            let g0 = enc_map::<Ty>(ag, node_order, edge_order);
            let mut g = &g0;
            let fz = Frozen::new(&mut g);
            run_all(ctx, rng, &vg_i, &fz, "frozen-map", &|x| x, false);
        }
        43 => {
            let g0 = enc_matrix::<Ty>(rng, ag, node_order, edge_order, true);
            let mut g = &g0;
            let fz = Frozen::new(&mut g);
            run_all(ctx, rng, &vg_i, &fz, "frozen-matrix", &|x| *g0.node_weight(x), false);
        }
        44 => {
            let g0 = enc_csr::<Ty>(ag, node_order, edge_order);
            let mut g = &g0;
            let fz = Frozen::new(&mut g);
            run_all(ctx, rng, &vg_i, &fz, "frozen-csr", &|x| g0[x], false);
        }
        _ => {
            let g0 = enc_list(ag, node_order, edge_order);
            let mut g = &g0;
            let fz = Frozen::new(&mut g);
            run_all(ctx, rng, &vg_i, &fz, "frozen-list", &|x| node_order[x as usize], false);
        }
    }
}

/// weight modes: what the suite never generates — ties, all-equal, mixed sign, all distinct, the ends
/// of the integer range
fn reweigh(rng: &mut Rng, ag: &mut AG) -> &'static str {
    let m = ag.edges.len();
    match rng.below(13) {
        0 | 1 => {
            let (lo, hi) = if rng.chance(50) { (1, 3) } else { (-2, 2) };
            for e in ag.edges.iter_mut() { e.2 = rng.range(lo, hi); }
            "ties"
        }
        2 | 3 | 4 | 5 => {
            // all distinct (the minimum spanning forest is unique), mixed sign, random scale
            let scale = 1 + rng.below(4) as i64;
            let off = if rng.chance(60) { (m as i64) / 2 } else { 0 };
            let mut ws: Vec<i64> = (0..m as i64).map(|i| (i - off) * scale).collect();
            rng.shuffle(&mut ws);
            for (e, w) in ag.edges.iter_mut().zip(ws) { e.2 = w; }
            "distinct"
        }
        6 | 7 => {
            let c = *rng.pick(&[1i64, 0, -1, 7]);
            for e in ag.edges.iter_mut() { e.2 = c; }
            "equal"
        }
        8 | 9 => {
            for e in ag.edges.iter_mut() { e.2 = rng.range(-50, 50); }
            "wide"
        }
        10 | 11 => {
            for e in ag.edges.iter_mut() { e.2 = if rng.chance(50) { 1 } else { 100 }; }
            "two-level"
        }
        _ => {
            // zero, the ends of what an integer-valued float holds exactly, small values
            let pool = [0i64, 0, -1, 1, 9007199254740992, -9007199254740992, 16777216, -16777216];
            for e in ag.edges.iter_mut() { e.2 = *rng.pick(&pool); }
            "extreme"
        }
    }
}

pub fn run(ctx: &mut Ctx, case: u64) {
    let mut rng = Rng::for_case(ctx.seed, "C12", case);
    // every 8th case is a script on the heap type itself
    if case % 8 == 7 {
        heap_case(ctx, &mut rng, case);
        return;
    }
    let directed = rng.chance(35);
    let big = if ctx.tier_thorough { 10 } else { 8 };
    // small graphs (brute-force minimality applies) and larger ones (certificate only); trivial graphs
    // (fewer than 3 nodes or 2 edges) are mostly redrawn.  Corners, 15 % of the cases together: the
    // empty graph, a single node (with loops), a first node without edges, an index type filled to
    // capacity (and the collecting type overflowed)
    let (mut ag, mut fam) = (AG { directed, n: 0, edges: vec![] }, 12);
    let corner = match rng.below(100) {
        0..=2 => "empty",
        3..=5 => "single",
        6..=10 => "first-isolated",
        11..=12 => "capacity",
        13 => "over-capacity",
        _ => "none",
    };
    match corner {
        "empty" => {}
        "single" => {
            ag.n = 1;
            for _ in 0..rng.below(3) {
                ag.edges.push((0, 0, 1));
            }
        }
        "capacity" | "over-capacity" => {
            // 254 / 255 nodes (u8 holds at most 255), resp. 256 / 257 for the collecting u8 graph; few
            // edges, so that the judge stays cheap: a handful of small clusters with ties
            ag.n = if corner == "capacity" { *rng.pick(&[254, 255, 255]) } else { *rng.pick(&[256, 257]) };
            let m = 6 + rng.below(14);
            let hubs: Vec<usize> = (0..5).map(|_| rng.below(ag.n)).chain([0, ag.n - 1, ag.n - 2]).collect();
            for _ in 0..m {
                let (a, b) = (*rng.pick(&hubs), *rng.pick(&hubs));
                if a != b || !directed {
                    ag.edges.push((a, b, 1));
                }
            }
            if corner == "capacity" {
                // MatrixGraph etc. are not used here; parallel edges and loops are fine for Graph / StableGraph
            }
        }
        _ => {
            for attempt in 0..4 {
                let max_n = *rng.pick(&[4, 5, 5, 6, big, big]);
                let opts = if rng.chance(60) { GenOpts::multi(max_n, 1, 3) } else { GenOpts { loops: rng.chance(40), ..GenOpts::simple(max_n) } };
                let (a, f) = gen_graph(&mut rng, directed, opts);
                ag = a;
                fam = f;
                if (ag.n >= 3 && ag.edges.len() >= 2) || (attempt == 0 && rng.chance(12)) {
                    break;
                }
            }
        }
    }
    let mut node_order = random_perm(&mut rng, ag.n);
    if corner == "first-isolated" {
        // one more node, without edges (or with loops only), inserted first
        let iso = ag.n;
        ag.n += 1;
        for _ in 0..(if rng.chance(25) { 1 + rng.below(2) } else { 0 }) {
            ag.edges.push((iso, iso, 1));
        }
        node_order.insert(0, iso);
    }
    let wm = reweigh(&mut rng, &mut ag);
    let start = format!("case {} fam={} d={} n={} m={} w={} corner={} profile={}", case, family_name(fam), directed as u8, ag.n, ag.edges.len(), wm, corner, profile());
    ctx.raw(&start);
    if directed { case_ty::<Directed>(ctx, &mut rng, &mut ag, node_order, corner) } else { case_ty::<Undirected>(ctx, &mut rng, &mut ag, node_order, corner) };
}
