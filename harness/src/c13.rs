//! C13 — the VF2 family: is_isomorphic, is_isomorphic_matching, is_isomorphic_subgraph,
//! is_isomorphic_subgraph_matching, subgraph_isomorphisms_iter.
//!
//! One case = one abstract pair (pattern g0, target g1) of SIMPLE graphs (self-loops allowed) with node and
//! edge weights from {0,1}.  The pair is then encoded several times ("rounds"): every round picks, for each
//! argument independently, a storage type that satisfies the trait bounds (Graph<u32>, Graph<u8>, Graph built
//! through a history with removed dummy nodes/edges, GraphMap (plain functions only: no DataMap),
//! Acyclic<DiGraph> for loop-free DAGs), a random node labeling and a random edge insertion order, prints the two
//! views (`g0 …`, `g1 …`) and runs all five functions.  Mappings are printed in ABSTRACT node ids, so every
//! round of a case must give the same answers — relabeling invariance is checked by the judge comparing each
//! round against the same definitional oracle on the abstract pair.
//!
//! StableGraph / MatrixGraph (not NodeCompactIndexable) and Csr / adj::List (no IntoNeighborsDirected) do not
//! satisfy the bounds of these functions.
use crate::common::*;
use crate::graphs::*;
use crate::rng::Rng;
use petgraph::acyclic::Acyclic;
use petgraph::algo::{
    is_isomorphic, is_isomorphic_matching, is_isomorphic_subgraph, is_isomorphic_subgraph_matching,
    subgraph_isomorphisms_iter,
};
use petgraph::data::DataMap;
use petgraph::graph::{DiGraph, Graph, IndexType};
use petgraph::graphmap::GraphMap;
use petgraph::visit::{
    EdgeCount, EdgeRef, GetAdjacencyMatrix, GraphProp, IntoEdgesDirected, IntoNeighborsDirected, IntoNodeIdentifiers,
    NodeCompactIndexable, NodeIndexable,
};
use petgraph::{Directed, EdgeType, Undirected};

/// abstract graph + node weights
#[derive(Clone, Debug)]
struct WG {
    ag: AG,
    nw: Vec<i64>,
}

fn has_edge(ag: &AG, a: usize, b: usize) -> bool {
    ag.edges.iter().any(|&(x, y, _)| (x == a && y == b) || (!ag.directed && x == b && y == a))
}

fn add_simple(ag: &mut AG, a: usize, b: usize, w: i64, loops: bool) -> bool {
    if (a == b && !loops) || has_edge(ag, a, b) {
        return false;
    }
    ag.edges.push((a, b, w));
    true
}

/// G(n,p) on exactly `n` nodes
fn gnp(rng: &mut Rng, directed: bool, n: usize, pct: u32, loops: bool) -> AG {
    let mut ag = AG { directed, n, edges: vec![] };
    for a in 0..n {
        for b in 0..n {
            if !directed && b < a {
                continue;
            }
            if rng.chance(if a == b { pct.min(30) } else { pct }) {
                add_simple(&mut ag, a, b, 0, loops);
            }
        }
    }
    rng.shuffle(&mut ag.edges);
    ag
}

/// structure from the shared families, made simple, at most `max_n` nodes
fn family(rng: &mut Rng, directed: bool, max_n: usize, loops: bool) -> AG {
    let o = GenOpts { max_n, loops, parallel: false, wlo: 0, whi: 0 };
    let (g, _) = gen_graph(rng, directed, o);
    let mut ag = AG { directed, n: g.n, edges: vec![] };
    for &(a, b, _) in &g.edges {
        add_simple(&mut ag, a, b, 0, loops);
    }
    if loops && ag.n > 0 && rng.chance(40) {
        for _ in 0..1 + rng.below(2) {
            let a = rng.below(ag.n);
            add_simple(&mut ag, a, a, 0, true);
        }
    }
    ag
}

fn rand_graph(rng: &mut Rng, directed: bool, max_n: usize, loops: bool) -> AG {
    if rng.chance(55) {
        family(rng, directed, max_n, loops)
    } else {
        // mostly near the size limit; the node-less graph only rarely
        let n = if rng.chance(3) { 0 } else if rng.chance(60) { max_n - rng.below(2.min(max_n).max(1)) } else { 1 + rng.below(max_n) };
        let pct = *rng.pick(&[15u32, 30, 50, 75]);
        gnp(rng, directed, n, pct, loops)
    }
}

fn rand_weights(rng: &mut Rng, ag: &mut AG) -> Vec<i64> {
    let ew = rng.chance(60);
    for e in ag.edges.iter_mut() {
        e.2 = if ew { rng.below(2) as i64 } else { 0 };
    }
    let nwr = rng.chance(60);
    (0..ag.n).map(|_| if nwr { rng.below(2) as i64 } else { 0 }).collect()
}

/// relabel by `p` (node i becomes p[i]), shuffle the edge list, flip undirected endpoints
fn relabeled(rng: &mut Rng, g: &WG, p: &[usize]) -> WG {
    let mut ag = g.ag.relabel(p);
    if !ag.directed {
        for e in ag.edges.iter_mut() {
            if rng.chance(50) {
                *e = (e.1, e.0, e.2);
            }
        }
    }
    rng.shuffle(&mut ag.edges);
    let mut nw = vec![0; g.ag.n];
    for i in 0..g.ag.n {
        nw[p[i]] = g.nw[i];
    }
    WG { ag, nw }
}

/// one degree-preserving switch: a→b, c→d  ⇒  a→d, c→b  (kept simple)
fn edge_switch(rng: &mut Rng, ag: &mut AG, loops: bool) -> bool {
    let m = ag.edges.len();
    if m < 2 {
        return false;
    }
    for _ in 0..12 {
        let (i, j) = (rng.below(m), rng.below(m));
        if i == j {
            continue;
        }
        let (mut a, mut b, w1) = ag.edges[i];
        let (c, d, w2) = ag.edges[j];
        if !ag.directed && rng.chance(50) {
            std::mem::swap(&mut a, &mut b);
        }
        if (a == d || c == b) && !loops {
            continue;
        }
        if (a, d) == (c, b) || (!ag.directed && (a, d) == (b, c)) {
            continue;
        }
        let mut tmp = ag.clone();
        let (hi, lo) = if i > j { (i, j) } else { (j, i) };
        tmp.edges.remove(hi);
        tmp.edges.remove(lo);
        if has_edge(&tmp, a, d) || has_edge(&tmp, c, b) {
            continue;
        }
        tmp.edges.push((a, d, w1));
        tmp.edges.push((c, b, w2));
        *ag = tmp;
        return true;
    }
    false
}

fn induced(g: &WG, keep: &[usize]) -> WG {
    // keep[i] = node of g that becomes node i
    let mut pos = vec![usize::MAX; g.ag.n];
    for (i, &a) in keep.iter().enumerate() {
        pos[a] = i;
    }
    let edges = g.ag.edges.iter().filter(|e| pos[e.0] != usize::MAX && pos[e.1] != usize::MAX).map(|&(a, b, w)| (pos[a], pos[b], w)).collect();
    WG { ag: AG { directed: g.ag.directed, n: keep.len(), edges }, nw: keep.iter().map(|&a| g.nw[a]).collect() }
}

/// toggle one pair / one weight
fn perturb(rng: &mut Rng, g: &mut WG, loops: bool) {
    let n = g.ag.n;
    if n == 0 {
        return;
    }
    match rng.below(4) {
        0 | 1 => {
            let (a, b) = (rng.below(n), rng.below(n));
            if let Some(k) = g.ag.edges.iter().position(|&(x, y, _)| (x == a && y == b) || (!g.ag.directed && x == b && y == a)) {
                g.ag.edges.remove(k);
            } else {
                add_simple(&mut g.ag, a, b, rng.below(2) as i64, loops);
            }
        }
        2 => {
            if !g.ag.edges.is_empty() {
                let k = rng.below(g.ag.edges.len());
                g.ag.edges[k].2 = 1 - g.ag.edges[k].2;
            }
        }
        _ => {
            let a = rng.below(n);
            g.nw[a] = 1 - g.nw[a];
        }
    }
}

/// disjoint union of small components
fn component(rng: &mut Rng, directed: bool, size: usize, kind: usize, loops: bool) -> AG {
    let mut ag = AG { directed, n: size, edges: vec![] };
    match kind {
        0 => {
            for a in 0..size.saturating_sub(1) {
                add_simple(&mut ag, a, a + 1, 0, loops);
            }
        }
        1 => {
            for a in 0..size {
                add_simple(&mut ag, a, (a + 1) % size, 0, loops);
            }
        }
        2 => {
            for b in 1..size {
                if directed && rng.chance(40) { add_simple(&mut ag, b, 0, 0, loops) } else { add_simple(&mut ag, 0, b, 0, loops) };
            }
        }
        3 => {
            for a in 0..size {
                for b in 0..size {
                    if a != b && (directed || a < b) {
                        add_simple(&mut ag, a, b, 0, loops);
                    }
                }
            }
        }
        4 => {
            // path with reversed arcs / a loop at one end
            for a in 0..size.saturating_sub(1) {
                if directed && a % 2 == 1 { add_simple(&mut ag, a + 1, a, 0, loops) } else { add_simple(&mut ag, a, a + 1, 0, loops) };
            }
            if loops {
                add_simple(&mut ag, 0, 0, 0, true);
            }
        }
        _ => {}
    }
    ag
}

fn union_of(parts: &[AG], directed: bool) -> AG {
    let mut ag = AG { directed, n: 0, edges: vec![] };
    for p in parts {
        for &(a, b, w) in &p.edges {
            ag.edges.push((a + ag.n, b + ag.n, w));
        }
        ag.n += p.n;
    }
    ag
}

/// all labelled simple graphs on `n` nodes, numbered by a bit mask over the admissible pairs
fn pairs_of(directed: bool, n: usize, loops: bool) -> Vec<(usize, usize)> {
    let mut v = vec![];
    for a in 0..n {
        for b in 0..n {
            if a == b && !loops {
                continue;
            }
            if !directed && b < a {
                continue;
            }
            v.push((a, b));
        }
    }
    v
}
fn count_graphs(directed: bool, n: usize, loops: bool) -> u64 {
    1u64 << pairs_of(directed, n, loops).len()
}
/// the `idx`-th graph among all graphs with 0..=max_n nodes
fn nth_graph(directed: bool, max_n: usize, loops: bool, mut idx: u64) -> AG {
    for n in 0..=max_n {
        let c = count_graphs(directed, n, loops);
        if idx < c {
            let ps = pairs_of(directed, n, loops);
            let edges = ps.iter().enumerate().filter(|(k, _)| (idx >> k) & 1 == 1).map(|(_, &(a, b))| (a, b, 0)).collect();
            return AG { directed, n, edges };
        }
        idx -= c;
    }
    unreachable!()
}
fn total_graphs(directed: bool, max_n: usize, loops: bool) -> u64 {
    (0..=max_n).map(|n| count_graphs(directed, n, loops)).sum()
}

/// exhaustive blocks of the thorough tier: (directed, loops, max_n0, max_n1)
const BLOCKS: [(bool, bool, usize, usize); 4] = [(false, true, 3, 3), (true, false, 3, 3), (true, true, 2, 3), (false, false, 4, 4)];

pub fn exhaustive_total() -> u64 {
    BLOCKS.iter().map(|&(d, l, a, b)| total_graphs(d, a, l) * total_graphs(d, b, l)).sum()
}

fn exhaustive_pair(mut idx: u64) -> Option<(AG, AG)> {
    for &(d, l, a, b) in BLOCKS.iter() {
        let (t0, t1) = (total_graphs(d, a, l), total_graphs(d, b, l));
        if idx < t0 * t1 {
            return Some((nth_graph(d, a, l, idx / t1), nth_graph(d, b, l, idx % t1)));
        }
        idx -= t0 * t1;
    }
    None
}

// ------------------------------------------------------------------------------------------------
// encodings

enum Enc<Ty: EdgeType> {
    G32(Graph<usize, i64, Ty, u32>),
    G8(Graph<usize, i64, Ty, u8>),
    Map(GraphMap<usize, i64, Ty>),
    Acy(Acyclic<DiGraph<usize, i64, u32>>),
}

impl<Ty: EdgeType> Enc<Ty> {
    fn name(&self) -> &'static str {
        match self {
            Enc::G32(_) => "Graph-u32",
            Enc::G8(_) => "Graph-u8",
            Enc::Map(_) => "GraphMap",
            Enc::Acy(_) => "Acyclic-DiGraph",
        }
    }
    fn has_data(&self) -> bool {
        !matches!(self, Enc::Map(_))
    }
}

/// Graph built through a history: random node labeling, random edge order, undirected endpoints flipped, and
/// (if `hist`) dummy nodes and edges that are removed again (swap-remove renumbers nodes and edges)
fn build_graph<Ty: EdgeType, Ix: IndexType>(rng: &mut Rng, ag: &AG, hist: bool) -> Graph<usize, i64, Ty, Ix> {
    let node_order = random_perm(rng, ag.n);
    let edge_order = random_perm(rng, ag.edges.len());
    let mut g = Graph::<usize, i64, Ty, Ix>::with_capacity(0, 0);
    let find = |g: &Graph<usize, i64, Ty, Ix>, a: usize| g.node_indices().find(|&x| g[x] == a).unwrap();
    for &a in &node_order {
        if hist && rng.chance(35) {
            g.add_node(1000 + rng.below(1000));
        }
        g.add_node(a);
    }
    for &k in &edge_order {
        if hist && rng.chance(25) && g.node_count() > 0 {
            let all: Vec<_> = g.node_indices().collect();
            let (x, y) = (all[rng.below(all.len())], all[rng.below(all.len())]);
            g.add_edge(x, y, -777);
        }
        let (mut a, mut b, w) = ag.edges[k];
        if !ag.directed && rng.chance(50) {
            std::mem::swap(&mut a, &mut b);
        }
        let (x, y) = (find(&g, a), find(&g, b));
        g.add_edge(x, y, w);
    }
    if hist {
        loop {
            let dead: Vec<_> = g.edge_indices().filter(|&e| g[e] == -777).collect();
            if dead.is_empty() {
                break;
            }
            g.remove_edge(dead[rng.below(dead.len())]);
        }
        loop {
            let dead: Vec<_> = g.node_indices().filter(|&x| g[x] >= 1000).collect();
            if dead.is_empty() {
                break;
            }
            g.remove_node(dead[rng.below(dead.len())]);
        }
    }
    g
}

fn build_map<Ty: EdgeType>(rng: &mut Rng, ag: &AG, hist: bool) -> GraphMap<usize, i64, Ty> {
    let node_order = random_perm(rng, ag.n);
    let edge_order = random_perm(rng, ag.edges.len());
    let mut g = GraphMap::<usize, i64, Ty>::new();
    let mut dummies = vec![];
    for &a in &node_order {
        if hist && rng.chance(35) {
            let d = 1000 + dummies.len();
            g.add_node(d);
            dummies.push(d);
        }
        g.add_node(a);
    }
    for &k in &edge_order {
        let (mut a, mut b, w) = ag.edges[k];
        if hist && !dummies.is_empty() && rng.chance(20) {
            g.add_edge(dummies[rng.below(dummies.len())], a, -777);
        }
        if !ag.directed && rng.chance(50) {
            std::mem::swap(&mut a, &mut b);
        }
        g.add_edge(a, b, w);
    }
    rng.shuffle(&mut dummies);
    for d in dummies {
        g.remove_node(d);
    }
    g
}

fn is_dag(ag: &AG) -> bool {
    if !ag.directed {
        return false;
    }
    let mut indeg = vec![0usize; ag.n];
    for &(_, b, _) in &ag.edges {
        indeg[b] += 1;
    }
    let mut q: Vec<usize> = (0..ag.n).filter(|&i| indeg[i] == 0).collect();
    let mut seen = 0;
    while let Some(a) = q.pop() {
        seen += 1;
        for &(x, y, _) in &ag.edges {
            if x == a {
                indeg[y] -= 1;
                if indeg[y] == 0 {
                    q.push(y);
                }
            }
        }
    }
    seen == ag.n
}

fn encode<Ty: EdgeType>(rng: &mut Rng, ag: &AG, need_data: bool) -> Enc<Ty> {
    loop {
        let hist = rng.chance(45);
        match rng.weighted(&[30, 20, 20, if need_data { 0 } else { 25 }, if Ty::is_directed() { 12 } else { 0 }]) {
            0 => return Enc::G32(build_graph(rng, ag, false)),
            1 => return Enc::G8(build_graph(rng, ag, hist)),
            2 => return Enc::G32(build_graph(rng, ag, true)),
            3 => return Enc::Map(build_map(rng, ag, hist)),
            _ => {
                if is_dag(ag) {
                    let g = build_graph::<Directed, u32>(rng, ag, hist);
                    if let Ok(a) = Acyclic::try_from_graph(g) {
                        return Enc::Acy(a);
                    }
                }
            }
        }
    }
}

// ------------------------------------------------------------------------------------------------
// queries

fn pred(k: &str, a: i64, b: i64) -> bool {
    match k {
        "t" => true,
        "f" => false,
        "eq" => a == b,
        "ne" => a != b,
        _ => a <= b,
    }
}

fn pick_pred(rng: &mut Rng) -> &'static str {
    ["t", "eq", "le", "ne", "f"][rng.weighted(&[25, 50, 15, 7, 3])]
}

fn bool_ans(r: Option<bool>) -> String {
    match r {
        Some(b) => b.to_string(),
        None => "panic".into(),
    }
}

fn view_of<G>(ag: &AG, g: G, abs: &dyn Fn(G::NodeId) -> usize) -> String
where
    G: IntoNodeIdentifiers + IntoEdgesDirected + NodeIndexable + GraphProp + petgraph::visit::Data<EdgeWeight = i64>,
{
    view_line(ag, g, abs, &|er, used| eid_by_lookup(ag, abs(er.source()), abs(er.target()), *er.weight(), used))
}

fn plain<G0, G1>(ctx: &mut Ctx, g0: G0, g1: G1)
where
    G0: NodeCompactIndexable + EdgeCount + GetAdjacencyMatrix + GraphProp + IntoNeighborsDirected + Copy,
    G1: NodeCompactIndexable + EdgeCount + GetAdjacencyMatrix + GraphProp<EdgeType = G0::EdgeType> + IntoNeighborsDirected + Copy,
{
    ctx.line("iso", &bool_ans(catch(|| is_isomorphic(g0, g1))));
    ctx.line("sub", &bool_ans(catch(|| is_isomorphic_subgraph(g0, g1))));
}

fn falling(n1: usize, n0: usize) -> usize {
    (0..n0).map(|k| n1.saturating_sub(k)).product()
}

#[allow(clippy::too_many_arguments)]
fn semantic<G0, G1>(ctx: &mut Ctx, rng: &mut Rng, g0: G0, g1: G1, w0: &WG, w1: &WG, abs0: &dyn Fn(G0::NodeId) -> usize, abs1: &dyn Fn(G1::NodeId) -> usize)
where
    G0: NodeCompactIndexable + EdgeCount + DataMap + petgraph::visit::Data<NodeWeight = usize, EdgeWeight = i64> + GetAdjacencyMatrix + GraphProp + IntoEdgesDirected + Copy,
    G1: NodeCompactIndexable + EdgeCount + DataMap + petgraph::visit::Data<NodeWeight = usize, EdgeWeight = i64> + GetAdjacencyMatrix + GraphProp<EdgeType = G0::EdgeType> + IntoEdgesDirected + Copy,
{
    let (n0, n1) = (w0.ag.n, w1.ag.n);
    let (nw0, nw1) = (&w0.nw, &w1.nw);
    for q in ["isom", "subm", "iter"] {
        let (nk, ek) = (pick_pred(rng), pick_pred(rng));
        let nmf = |a: &usize, b: &usize| pred(nk, nw0[*a], nw1[*b]);
        let emf = |x: &i64, y: &i64| pred(ek, *x, *y);
        let req = format!("{} {} {}", q, nk, ek);
        match q {
            "isom" => ctx.line(&req, &bool_ans(catch(|| is_isomorphic_matching(g0, g1, nmf, emf)))),
            "subm" => ctx.line(&req, &bool_ans(catch(|| is_isomorphic_subgraph_matching(g0, g1, nmf, emf)))),
            _ => {
                let r = catch(|| {
                    let (mut nmf, mut emf) = (nmf, emf);
                    let res = subgraph_isomorphisms_iter(&g0, &g1, &mut nmf, &mut emf);
                    let out = match res {
                        None => "none".to_string(),
                        Some(mut it) => {
                            let cap = falling(n1, n0) + 2;
                            let mut ms: Vec<String> = vec![];
                            let mut ended = false;
                            for _ in 0..cap {
                                match it.next() {
                                    Some(v) => ms.push(fmt_mapping(g0, g1, abs0, abs1, &v, n0, n1)),
                                    None => {
                                        ended = true;
                                        break;
                                    }
                                }
                            }
                            if !ended {
                                ended = it.next().is_none();
                            }
                            format!("some {} {}", list(ms), if ended { "end" } else { "more" })
                        }
                    };
                    out
                });
                ctx.line(&req, &r.unwrap_or("panic".into()));
            }
        }
    }
}

/// a yielded vector (index = g0 `to_index`, value = g1 `to_index`) in abstract ids, ordered by abstract g0 id
fn fmt_mapping<G0: NodeIndexable, G1: NodeIndexable>(g0: G0, g1: G1, abs0: &dyn Fn(G0::NodeId) -> usize, abs1: &dyn Fn(G1::NodeId) -> usize, v: &[usize], n0: usize, n1: usize) -> String {
    if v.len() != n0 {
        return format!("BADLEN{}", v.len());
    }
    if v.is_empty() {
        return "e".into();
    }
    let mut res = vec![String::from("?"); n0];
    for (i, &t) in v.iter().enumerate() {
        let a = abs0(g0.from_index(i));
        res[a] = if t < n1 { abs1(g1.from_index(t)).to_string() } else { "X".into() };
    }
    res.join(".")
}

macro_rules! on_enc {
    (D, $e:expr, $g:ident, $abs:ident, $body:block) => {
        match $e {
            Enc::G32(x) => {
                let $g = x;
                let $abs = |n: petgraph::graph::NodeIndex<u32>| x[n];
                $body
            }
            Enc::G8(x) => {
                let $g = x;
                let $abs = |n: petgraph::graph::NodeIndex<u8>| x[n];
                $body
            }
            Enc::Map(x) => {
                let $g = x;
                let $abs = |n: usize| n;
                $body
            }
            Enc::Acy(x) => {
                let $g = x;
                let $abs = |n: petgraph::graph::NodeIndex<u32>| x.inner()[n];
                $body
            }
        }
    };
    (U, $e:expr, $g:ident, $abs:ident, $body:block) => {
        match $e {
            Enc::G32(x) => {
                let $g = x;
                let $abs = |n: petgraph::graph::NodeIndex<u32>| x[n];
                $body
            }
            Enc::G8(x) => {
                let $g = x;
                let $abs = |n: petgraph::graph::NodeIndex<u8>| x[n];
                $body
            }
            Enc::Map(x) => {
                let $g = x;
                let $abs = |n: usize| n;
                $body
            }
            Enc::Acy(_) => unreachable!(),
        }
    };
}

macro_rules! on_data {
    (D, $e:expr, $g:ident, $abs:ident, $body:block) => {
        match $e {
            Enc::G32(x) => {
                let $g = x;
                let $abs = |n: petgraph::graph::NodeIndex<u32>| x[n];
                $body
            }
            Enc::G8(x) => {
                let $g = x;
                let $abs = |n: petgraph::graph::NodeIndex<u8>| x[n];
                $body
            }
            Enc::Acy(x) => {
                let $g = x;
                let $abs = |n: petgraph::graph::NodeIndex<u32>| x.inner()[n];
                $body
            }
            Enc::Map(_) => {}
        }
    };
    (U, $e:expr, $g:ident, $abs:ident, $body:block) => {
        match $e {
            Enc::G32(x) => {
                let $g = x;
                let $abs = |n: petgraph::graph::NodeIndex<u32>| x[n];
                $body
            }
            Enc::G8(x) => {
                let $g = x;
                let $abs = |n: petgraph::graph::NodeIndex<u8>| x[n];
                $body
            }
            _ => {}
        }
    };
}

fn nw_field(w: &WG) -> String {
    format!("nw={}", list(w.nw.iter()))
}

macro_rules! round_impl {
    ($name:ident, $ty:ty, $k:tt) => {
        fn $name(ctx: &mut Ctx, rng: &mut Rng, w0: &WG, w1: &WG) {
            let need_data = rng.chance(70);
            let e0 = encode::<$ty>(rng, &w0.ag, need_data);
            let e1 = encode::<$ty>(rng, &w1.ag, need_data);
            on_enc!($k, &e0, g, abs, {
                let v = view_of(&w0.ag, g, &abs);
                ctx.line(&format!("g0 {} {} enc={}", &v[6..], nw_field(w0), e0.name()), "ok");
            });
            on_enc!($k, &e1, g, abs, {
                let v = view_of(&w1.ag, g, &abs);
                ctx.line(&format!("g1 {} {} enc={}", &v[6..], nw_field(w1), e1.name()), "ok");
            });
            on_enc!($k, &e0, g0, _a0, {
                on_enc!($k, &e1, g1, _a1, {
                    plain(ctx, g0, g1);
                });
            });
            if e0.has_data() && e1.has_data() {
                on_data!($k, &e0, g0, a0, {
                    on_data!($k, &e1, g1, a1, {
                        semantic(ctx, rng, g0, g1, w0, w1, &a0, &a1);
                    });
                });
            }
        }
    };
}
round_impl!(round_d, Directed, D);
round_impl!(round_u, Undirected, U);

fn gen_pair(rng: &mut Rng, thorough: bool) -> (WG, WG, &'static str) {
    let directed = rng.chance(55);
    let loops = rng.chance(45);
    let (max0, max1) = if thorough && rng.chance(30) { (6, 7) } else { (5, 6) };
    let mode = rng.weighted(&[14, 16, 20, 22, 14, 10, 4]);
    let mk = |rng: &mut Rng, mut ag: AG| {
        let nw = rand_weights(rng, &mut ag);
        WG { ag, nw }
    };
    match mode {
        0 => {
            let a = rand_graph(rng, directed, max0, loops);
            let b = rand_graph(rng, directed, max1, loops);
            (mk(rng, a), mk(rng, b), "independent")
        }
        1 | 2 => {
            // isomorphic copy, then (mode 2) degree-preserving switches: same degree sequence, other structure
            let a = rand_graph(rng, directed, max1, loops);
            let w0 = mk(rng, a);
            let p = random_perm(rng, w0.ag.n);
            let mut w1 = relabeled(rng, &w0, &p);
            let mut name = "iso-copy";
            if mode == 2 {
                name = "switched";
                for _ in 0..1 + rng.below(3) {
                    edge_switch(rng, &mut w1.ag, loops);
                }
            }
            if rng.chance(25) {
                perturb(rng, &mut w1, loops);
                if mode == 1 {
                    name = "iso-perturbed";
                }
            }
            if rng.chance(12) {
                let nw = rand_weights(rng, &mut w1.ag);
                w1.nw = nw;
            }
            if rng.chance(50) { (w0, w1, name) } else { (w1, w0, name) }
        }
        3 => {
            // pattern = induced subgraph of the target, relabeled; sometimes with one pair / weight toggled
            let b = rand_graph(rng, directed, max1, loops);
            let w1 = mk(rng, b);
            let n1 = w1.ag.n;
            let k = if n1 == 0 { 0 } else { 1 + rng.below(n1.min(max0)) };
            let mut keep = random_perm(rng, n1);
            keep.truncate(k);
            let mut w0 = induced(&w1, &keep);
            let mut name = "induced";
            if rng.chance(45) {
                perturb(rng, &mut w0, loops);
                name = "induced-perturbed";
            }
            (w0, w1, name)
        }
        4 => {
            // disconnected: unions of small components, same sizes, possibly one component of another kind
            let mut parts0 = vec![];
            let mut parts1 = vec![];
            let mut total = 0;
            while total < max0 {
                let size = 1 + rng.below(3.min(max0 - total));
                let kind = rng.below(5);
                parts0.push(component(rng, directed, size, kind, loops));
                let kind1 = if rng.chance(25) { rng.below(5) } else { kind };
                parts1.push(component(rng, directed, size, kind1, loops));
                total += size;
                if rng.chance(20) {
                    break;
                }
            }
            if rng.chance(30) && total < max1 {
                let size = 1 + rng.below(max1 - total);
                let kind = rng.below(6);
                parts1.push(component(rng, directed, size, kind, loops));
            }
            rng.shuffle(&mut parts1);
            let a = union_of(&parts0, directed);
            let b = union_of(&parts1, directed);
            let w0 = mk(rng, a);
            let mut w1 = mk(rng, b);
            if rng.chance(50) && w1.ag.n > 0 {
                let p = random_perm(rng, w1.ag.n);
                w1 = relabeled(rng, &w1, &p);
            }
            (w0, w1, "disconnected")
        }
        5 => {
            // supergraph: the pattern embeds as a subgraph that is NOT induced (extra edges / extra nodes)
            let a = rand_graph(rng, directed, max0, loops);
            let w0 = mk(rng, a);
            let p = random_perm(rng, w0.ag.n);
            let mut w1 = relabeled(rng, &w0, &p);
            let extra_nodes = rng.below(max1 + 1 - w1.ag.n.min(max1));
            for _ in 0..extra_nodes {
                w1.ag.n += 1;
                w1.nw.push(rng.below(2) as i64);
            }
            let n1 = w1.ag.n;
            for _ in 0..1 + rng.below(3) {
                if n1 > 0 {
                    let (x, y) = (rng.below(n1), rng.below(n1));
                    add_simple(&mut w1.ag, x, y, rng.below(2) as i64, loops);
                }
            }
            (w0, w1, "supergraph")
        }
        _ => {
            // tiny arguments incl. the node-less pattern
            let (na, nb) = (if rng.chance(35) { 0 } else { 1 }, rng.below(3));
            let a = gnp(rng, directed, na, 50, loops);
            let b = gnp(rng, directed, nb, 50, loops);
            (mk(rng, a), mk(rng, b), "tiny")
        }
    }
}

pub fn run(ctx: &mut Ctx, case: u64) {
    let mut rng = Rng::for_case(ctx.seed, "C13", case);
    let (w0, w1, mode) = if ctx.tier_thorough && case < exhaustive_total() {
        let (mut a, mut b) = exhaustive_pair(case).unwrap();
        let weighted = rng.chance(35);
        let nw0 = if weighted { rand_weights(&mut rng, &mut a) } else { vec![0; a.n] };
        let nw1 = if weighted { rand_weights(&mut rng, &mut b) } else { vec![0; b.n] };
        (WG { ag: a, nw: nw0 }, WG { ag: b, nw: nw1 }, "exhaustive")
    } else {
        gen_pair(&mut rng, ctx.tier_thorough)
    };
    let directed = w0.ag.directed;
    ctx.raw(&format!("case {} mode={} d={} n0={} n1={} m0={} m1={}", case, mode, directed as u8, w0.ag.n, w1.ag.n, w0.ag.edges.len(), w1.ag.edges.len()));
    let rounds = if mode == "exhaustive" { 1 } else if ctx.tier_thorough { 3 } else { 2 };
    for _ in 0..rounds {
        if directed {
            round_d(ctx, &mut rng, &w0, &w1);
        } else {
            round_u(ctx, &mut rng, &w0, &w1);
        }
    }
}
