//! C13 — the VF2 family: is_isomorphic, is_isomorphic_matching, is_isomorphic_subgraph,
//! is_isomorphic_subgraph_matching, subgraph_isomorphisms_iter.
//!
//! One case = one abstract pair (pattern g0, target g1) of SIMPLE graphs (self-loops allowed) with node and
//! edge weights from {0,1}.  The pair is then encoded several times ("rounds"): every round picks, for each
//! argument independently, a storage type that satisfies the trait bounds (Graph<u32>, Graph<u8>, Graph built
//! through a history with removed dummy nodes/edges, GraphMap (plain functions only: no DataMap),
//! Acyclic<DiGraph> for loop-free DAGs), a random node labeling and a random edge insertion order, prints the two
//! views (`g0 …`, `g1 …`) and runs all five functions.  Mappings are printed in ABSTRACT node ids, so every
//! round of a case must give the same answers — relabeling invariance is checked by the judge comparing each
//! round against the same definitional oracle on the abstract pair.
//!
//! StableGraph / MatrixGraph (not NodeCompactIndexable), Csr / adj::List (no IntoNeighborsDirected),
//! UndirectedAdaptor / NodeFiltered / EdgeFiltered (no GetAdjacencyMatrix, no EdgeCount) do not satisfy the
//! bounds of these functions.
//!
//! WAVE 6 — the corners of the public surface (docs/C13_api.md):
//! * the iterator returned by `subgraph_isomorphisms_iter` overrides `size_hint`: `hint <at> <nm> <em>` lines
//!   (size_hint of a fresh iterator after `at` calls of next()), judged by the driver; every other way of consuming
//!   it (`count`, `last`, `nth`, `skip`, `step_by`, `fold`, `by_ref`, two iterators interleaved, `next` after the
//!   end, size_hint between the calls) must agree with `next`: `iterlaw matcher … => ok | VIOLATED …`
//! * "exotic" rounds: every other argument type that satisfies the bounds — `Reversed<&Graph>`, `Reversed<&GraphMap>`,
//!   `Reversed<Reversed<&Graph>>`, `Reversed<&Acyclic<_>>`, `&Frozen<Graph>`, `Graph<_,_,_,u16>`, `Graph<_,_,_,usize>`,
//!   `GraphMap` with non-default hashers (fxhash, ahash), `Graph<(), ()>`, `Graph<usize, f32>` with NaN weights, the
//!   SAME object as both arguments; Graphs that were cleared and rebuilt, reversed in place, or filled by `clone_from`
//! * "big" cases (too big for the enumerating oracle, judged by the proved mirror model): 10..18 nodes, the sizes
//!   around the end of `size_hint`'s factorial table (19..23 nodes), Graph<u8> at its capacity (254 / 255 nodes)
//! * the case line carries the build profile (`prof=debug|release`)
use crate::common::*;
use crate::graphs::*;
use crate::rng::Rng;
use petgraph::acyclic::Acyclic;
use petgraph::algo::{
    is_isomorphic, is_isomorphic_matching, is_isomorphic_subgraph, is_isomorphic_subgraph_matching,
    subgraph_isomorphisms_iter,
};
use petgraph::data::DataMap;
use petgraph::graph::{DiGraph, Frozen, Graph, IndexType};
use petgraph::graphmap::GraphMap;
use petgraph::visit::{
    Data, EdgeCount, EdgeRef, GetAdjacencyMatrix, GraphProp, IntoEdgesDirected, IntoNeighborsDirected, IntoNodeIdentifiers,
    NodeCompactIndexable, NodeIndexable, Reversed,
};
use std::hash::BuildHasher;
use petgraph::{Directed, EdgeType, Undirected};

/// abstract graph + node weights
#[derive(Clone, Debug)]
struct WG {
    ag: AG,
    nw: Vec<i64>,
}

fn has_edge(ag: &AG, a: usize, b: usize) -> bool {
    ag.edges.iter().any(|&(x, y, _)| (x == a && y == b) || (!ag.directed && x == b && y == a))
}

fn add_simple(ag: &mut AG, a: usize, b: usize, w: i64, loops: bool) -> bool {
    if (a == b && !loops) || has_edge(ag, a, b) {
        return false;
    }
    ag.edges.push((a, b, w));
    true
}

/// G(n,p) on exactly `n` nodes
fn gnp(rng: &mut Rng, directed: bool, n: usize, pct: u32, loops: bool) -> AG {
    let mut ag = AG { directed, n, edges: vec![] };
    for a in 0..n {
        for b in 0..n {
            if !directed && b < a {
                continue;
            }
            if rng.chance(if a == b { pct.min(30) } else { pct }) {
                add_simple(&mut ag, a, b, 0, loops);
            }
        }
    }
    rng.shuffle(&mut ag.edges);
    ag
}

/// structure from the shared families, made simple, at most `max_n` nodes
fn family(rng: &mut Rng, directed: bool, max_n: usize, loops: bool) -> AG {
    let o = GenOpts { max_n, loops, parallel: false, wlo: 0, whi: 0 };
    let (g, _) = gen_graph(rng, directed, o);
    let mut ag = AG { directed, n: g.n, edges: vec![] };
    for &(a, b, _) in &g.edges {
        add_simple(&mut ag, a, b, 0, loops);
    }
    if loops && ag.n > 0 && rng.chance(40) {
        for _ in 0..1 + rng.below(2) {
            let a = rng.below(ag.n);
            add_simple(&mut ag, a, a, 0, true);
        }
    }
    ag
}

fn rand_graph(rng: &mut Rng, directed: bool, max_n: usize, loops: bool) -> AG {
    if rng.chance(55) {
        family(rng, directed, max_n, loops)
    } else {
        // mostly near the size limit; the node-less graph only rarely
        let n = if rng.chance(3) { 0 } else if rng.chance(60) { max_n - rng.below(2.min(max_n).max(1)) } else { 1 + rng.below(max_n) };
        let pct = *rng.pick(&[15u32, 30, 50, 75]);
        gnp(rng, directed, n, pct, loops)
    }
}

fn rand_weights(rng: &mut Rng, ag: &mut AG) -> Vec<i64> {
    let ew = rng.chance(60);
    for e in ag.edges.iter_mut() {
        e.2 = if ew { rng.below(2) as i64 } else { 0 };
    }
    let nwr = rng.chance(60);
    (0..ag.n).map(|_| if nwr { rng.below(2) as i64 } else { 0 }).collect()
}

/// relabel by `p` (node i becomes p[i]), shuffle the edge list, flip undirected endpoints
fn relabeled(rng: &mut Rng, g: &WG, p: &[usize]) -> WG {
    let mut ag = g.ag.relabel(p);
    if !ag.directed {
        for e in ag.edges.iter_mut() {
            if rng.chance(50) {
                *e = (e.1, e.0, e.2);
            }
        }
    }
    rng.shuffle(&mut ag.edges);
    let mut nw = vec![0; g.ag.n];
    for i in 0..g.ag.n {
        nw[p[i]] = g.nw[i];
    }
    WG { ag, nw }
}

/// one degree-preserving switch: a→b, c→d  ⇒  a→d, c→b  (kept simple)
fn edge_switch(rng: &mut Rng, ag: &mut AG, loops: bool) -> bool {
    let m = ag.edges.len();
    if m < 2 {
        return false;
    }
    for _ in 0..12 {
        let (i, j) = (rng.below(m), rng.below(m));
        if i == j {
            continue;
        }
        let (mut a, mut b, w1) = ag.edges[i];
        let (c, d, w2) = ag.edges[j];
        if !ag.directed && rng.chance(50) {
            std::mem::swap(&mut a, &mut b);
        }
        if (a == d || c == b) && !loops {
            continue;
        }
        if (a, d) == (c, b) || (!ag.directed && (a, d) == (b, c)) {
            continue;
        }
        let mut tmp = ag.clone();
        let (hi, lo) = if i > j { (i, j) } else { (j, i) };
        tmp.edges.remove(hi);
        tmp.edges.remove(lo);
        if has_edge(&tmp, a, d) || has_edge(&tmp, c, b) {
            continue;
        }
        tmp.edges.push((a, d, w1));
        tmp.edges.push((c, b, w2));
        *ag = tmp;
        return true;
    }
    false
}

fn induced(g: &WG, keep: &[usize]) -> WG {
    // keep[i] = node of g that becomes node i
    let mut pos = vec![usize::MAX; g.ag.n];
    for (i, &a) in keep.iter().enumerate() {
        pos[a] = i;
    }
    let edges = g.ag.edges.iter().filter(|e| pos[e.0] != usize::MAX && pos[e.1] != usize::MAX).map(|&(a, b, w)| (pos[a], pos[b], w)).collect();
    WG { ag: AG { directed: g.ag.directed, n: keep.len(), edges }, nw: keep.iter().map(|&a| g.nw[a]).collect() }
}

/// toggle one pair / one weight
fn perturb(rng: &mut Rng, g: &mut WG, loops: bool) {
    let n = g.ag.n;
    if n == 0 {
        return;
    }
    match rng.below(4) {
        0 | 1 => {
            let (a, b) = (rng.below(n), rng.below(n));
            if let Some(k) = g.ag.edges.iter().position(|&(x, y, _)| (x == a && y == b) || (!g.ag.directed && x == b && y == a)) {
                g.ag.edges.remove(k);
            } else {
                add_simple(&mut g.ag, a, b, rng.below(2) as i64, loops);
            }
        }
        2 => {
            if !g.ag.edges.is_empty() {
                let k = rng.below(g.ag.edges.len());
                g.ag.edges[k].2 = 1 - g.ag.edges[k].2;
            }
        }
        _ => {
            let a = rng.below(n);
            g.nw[a] = 1 - g.nw[a];
        }
    }
}

/// disjoint union of small components
fn component(rng: &mut Rng, directed: bool, size: usize, kind: usize, loops: bool) -> AG {
    let mut ag = AG { directed, n: size, edges: vec![] };
    match kind {
        0 => {
            for a in 0..size.saturating_sub(1) {
                add_simple(&mut ag, a, a + 1, 0, loops);
            }
        }
        1 => {
            for a in 0..size {
                add_simple(&mut ag, a, (a + 1) % size, 0, loops);
            }
        }
        2 => {
            for b in 1..size {
                if directed && rng.chance(40) { add_simple(&mut ag, b, 0, 0, loops) } else { add_simple(&mut ag, 0, b, 0, loops) };
            }
        }
        3 => {
            for a in 0..size {
                for b in 0..size {
                    if a != b && (directed || a < b) {
                        add_simple(&mut ag, a, b, 0, loops);
                    }
                }
            }
        }
        4 => {
            // path with reversed arcs / a loop at one end
            for a in 0..size.saturating_sub(1) {
                if directed && a % 2 == 1 { add_simple(&mut ag, a + 1, a, 0, loops) } else { add_simple(&mut ag, a, a + 1, 0, loops) };
            }
            if loops {
                add_simple(&mut ag, 0, 0, 0, true);
            }
        }
        _ => {}
    }
    ag
}

fn union_of(parts: &[AG], directed: bool) -> AG {
    let mut ag = AG { directed, n: 0, edges: vec![] };
    for p in parts {
        for &(a, b, w) in &p.edges {
            ag.edges.push((a + ag.n, b + ag.n, w));
        }
        ag.n += p.n;
    }
    ag
}

/// all labelled simple graphs on `n` nodes, numbered by a bit mask over the admissible pairs
fn pairs_of(directed: bool, n: usize, loops: bool) -> Vec<(usize, usize)> {
    let mut v = vec![];
    for a in 0..n {
        for b in 0..n {
            if a == b && !loops {
                continue;
            }
            if !directed && b < a {
                continue;
            }
            v.push((a, b));
        }
    }
    v
}
fn count_graphs(directed: bool, n: usize, loops: bool) -> u64 {
    1u64 << pairs_of(directed, n, loops).len()
}
/// the `idx`-th graph among all graphs with 0..=max_n nodes
fn nth_graph(directed: bool, max_n: usize, loops: bool, mut idx: u64) -> AG {
    for n in 0..=max_n {
        let c = count_graphs(directed, n, loops);
        if idx < c {
            let ps = pairs_of(directed, n, loops);
            let edges = ps.iter().enumerate().filter(|(k, _)| (idx >> k) & 1 == 1).map(|(_, &(a, b))| (a, b, 0)).collect();
            return AG { directed, n, edges };
        }
        idx -= c;
    }
    unreachable!()
}
fn total_graphs(directed: bool, max_n: usize, loops: bool) -> u64 {
    (0..=max_n).map(|n| count_graphs(directed, n, loops)).sum()
}

/// exhaustive blocks of the thorough tier: (directed, loops, max_n0, max_n1)
const BLOCKS: [(bool, bool, usize, usize); 4] = [(false, true, 3, 3), (true, false, 3, 3), (true, true, 2, 3), (false, false, 4, 4)];

pub fn exhaustive_total() -> u64 {
    BLOCKS.iter().map(|&(d, l, a, b)| total_graphs(d, a, l) * total_graphs(d, b, l)).sum()
}

fn exhaustive_pair(mut idx: u64) -> Option<(AG, AG)> {
    for &(d, l, a, b) in BLOCKS.iter() {
        let (t0, t1) = (total_graphs(d, a, l), total_graphs(d, b, l));
        if idx < t0 * t1 {
            return Some((nth_graph(d, a, l, idx / t1), nth_graph(d, b, l, idx % t1)));
        }
        idx -= t0 * t1;
    }
    None
}

// ------------------------------------------------------------------------------------------------
// encodings

enum Enc<Ty: EdgeType> {
    G32(Graph<usize, i64, Ty, u32>),
    G8(Graph<usize, i64, Ty, u8>),
    Map(GraphMap<usize, i64, Ty>),
    Acy(Acyclic<DiGraph<usize, i64, u32>>),
}

impl<Ty: EdgeType> Enc<Ty> {
    fn name(&self) -> &'static str {
        match self {
            Enc::G32(_) => "Graph-u32",
            Enc::G8(_) => "Graph-u8",
            Enc::Map(_) => "GraphMap",
            Enc::Acy(_) => "Acyclic-DiGraph",
        }
    }
    fn has_data(&self) -> bool {
        !matches!(self, Enc::Map(_))
    }
}

/// Graph built through a history: random node labeling, random edge order, undirected endpoints flipped, and
/// (if `hist`) dummy nodes and edges that are removed again (swap-remove renumbers nodes and edges)
fn build_graph<Ty: EdgeType, Ix: IndexType>(rng: &mut Rng, ag: &AG, hist: bool) -> Graph<usize, i64, Ty, Ix> {
    let node_order = random_perm(rng, ag.n);
    let edge_order = random_perm(rng, ag.edges.len());
    let mut g = Graph::<usize, i64, Ty, Ix>::with_capacity(0, 0);
    let find = |g: &Graph<usize, i64, Ty, Ix>, a: usize| g.node_indices().find(|&x| g[x] == a).unwrap();
    if hist && rng.chance(20) {
        // clear, then reuse
        let x = g.add_node(4000);
        let y = g.add_node(4001);
        g.add_edge(x, y, -5);
        g.add_edge(y, y, -6);
        g.clear();
    }
    // reversed in place at the end: build the reversed graph first
    let flip = hist && rng.chance(20);
    for &a in &node_order {
        if hist && rng.chance(35) {
            g.add_node(1000 + rng.below(1000));
        }
        g.add_node(a);
    }
    for &k in &edge_order {
        if hist && rng.chance(25) && g.node_count() > 0 {
            let all: Vec<_> = g.node_indices().collect();
            let (x, y) = (all[rng.below(all.len())], all[rng.below(all.len())]);
            g.add_edge(x, y, -777);
        }
        let (mut a, mut b, w) = ag.edges[k];
        if !ag.directed && rng.chance(50) {
            std::mem::swap(&mut a, &mut b);
        }
        let (x, y) = (find(&g, a), find(&g, b));
        if flip { g.add_edge(y, x, w) } else { g.add_edge(x, y, w) };
    }
    if flip {
        g.reverse();
    }
    if hist && rng.chance(15) {
        // the argument is a graph filled by clone_from over arbitrary prior contents
        let mut h = Graph::<usize, i64, Ty, Ix>::with_capacity(2, 1);
        let x = h.add_node(5000);
        h.add_edge(x, x, -9);
        h.clone_from(&g);
        g = h;
    }
    if hist {
        loop {
            let dead: Vec<_> = g.edge_indices().filter(|&e| g[e] == -777).collect();
            if dead.is_empty() {
                break;
            }
            g.remove_edge(dead[rng.below(dead.len())]);
        }
        loop {
            let dead: Vec<_> = g.node_indices().filter(|&x| g[x] >= 1000).collect();
            if dead.is_empty() {
                break;
            }
            g.remove_node(dead[rng.below(dead.len())]);
        }
    }
    g
}

fn build_map<Ty: EdgeType>(rng: &mut Rng, ag: &AG, hist: bool) -> GraphMap<usize, i64, Ty> {
    build_map_h::<Ty, std::collections::hash_map::RandomState>(rng, ag, hist)
}

fn build_map_h<Ty: EdgeType, S: BuildHasher + Default + Clone>(rng: &mut Rng, ag: &AG, hist: bool) -> GraphMap<usize, i64, Ty, S> {
    let node_order = random_perm(rng, ag.n);
    let edge_order = random_perm(rng, ag.edges.len());
    let mut g = GraphMap::<usize, i64, Ty, S>::with_capacity_and_hasher(0, 0, S::default());
    let mut dummies = vec![];
    for &a in &node_order {
        if hist && rng.chance(35) {
            let d = 1000 + dummies.len();
            g.add_node(d);
            dummies.push(d);
        }
        g.add_node(a);
    }
    for &k in &edge_order {
        let (mut a, mut b, w) = ag.edges[k];
        if hist && !dummies.is_empty() && rng.chance(20) {
            g.add_edge(dummies[rng.below(dummies.len())], a, -777);
        }
        if !ag.directed && rng.chance(50) {
            std::mem::swap(&mut a, &mut b);
        }
        g.add_edge(a, b, w);
    }
    rng.shuffle(&mut dummies);
    for d in dummies {
        g.remove_node(d);
    }
    g
}

fn is_dag(ag: &AG) -> bool {
    if !ag.directed {
        return false;
    }
    let mut indeg = vec![0usize; ag.n];
    for &(_, b, _) in &ag.edges {
        indeg[b] += 1;
    }
    let mut q: Vec<usize> = (0..ag.n).filter(|&i| indeg[i] == 0).collect();
    let mut seen = 0;
    while let Some(a) = q.pop() {
        seen += 1;
        for &(x, y, _) in &ag.edges {
            if x == a {
                indeg[y] -= 1;
                if indeg[y] == 0 {
                    q.push(y);
                }
            }
        }
    }
    seen == ag.n
}

fn encode<Ty: EdgeType>(rng: &mut Rng, ag: &AG, need_data: bool) -> Enc<Ty> {
    loop {
        let hist = rng.chance(45);
        match rng.weighted(&[30, 20, 20, if need_data { 0 } else { 25 }, if Ty::is_directed() { 12 } else { 0 }]) {
            0 => return Enc::G32(build_graph(rng, ag, false)),
            1 => return Enc::G8(build_graph(rng, ag, hist)),
            2 => return Enc::G32(build_graph(rng, ag, true)),
            3 => return Enc::Map(build_map(rng, ag, hist)),
            _ => {
                if is_dag(ag) {
                    let g = build_graph::<Directed, u32>(rng, ag, hist);
                    if let Ok(a) = Acyclic::try_from_graph(g) {
                        return Enc::Acy(a);
                    }
                }
            }
        }
    }
}

// ------------------------------------------------------------------------------------------------
// queries

/// the f32 a weight code stands for (codes >= 2 are NaN)
fn code_f32(c: i64) -> f32 {
    if c >= 2 { f32::NAN } else { c as f32 }
}

fn f32_code(x: f32) -> i64 {
    if x.is_nan() { 2 } else { x as i64 }
}

fn pred(k: &str, a: i64, b: i64) -> bool {
    match k {
        "t" => true,
        "f" => false,
        "eq" => a == b,
        "ne" => a != b,
        "le" => a <= b,
        // IEEE comparisons on the f32 values the codes stand for
        "feq" => code_f32(a) == code_f32(b),
        "fne" => code_f32(a) != code_f32(b),
        _ => code_f32(a) <= code_f32(b),
    }
}

fn pick_pred(rng: &mut Rng, float: bool) -> &'static str {
    if float {
        ["t", "feq", "fle", "fne", "f"][rng.weighted(&[20, 45, 20, 12, 3])]
    } else {
        ["t", "eq", "le", "ne", "f"][rng.weighted(&[25, 50, 15, 7, 3])]
    }
}

fn bool_ans(r: Option<bool>) -> String {
    match r {
        Some(b) => b.to_string(),
        None => "panic".into(),
    }
}

/// the `graph …` view of one encoding; `wcode` = protocol code of an edge weight
fn view_w<G>(ag: &AG, g: G, abs: &dyn Fn(G::NodeId) -> usize, wcode: &dyn Fn(&G::EdgeWeight) -> i64) -> String
where
    G: IntoNodeIdentifiers + IntoEdgesDirected + NodeIndexable + GraphProp + Data,
{
    view_line(ag, g, abs, &|er, used| eid_by_lookup(ag, abs(er.source()), abs(er.target()), wcode(er.weight()), used))
}

fn view_of<G>(ag: &AG, g: G, abs: &dyn Fn(G::NodeId) -> usize) -> String
where
    G: IntoNodeIdentifiers + IntoEdgesDirected + NodeIndexable + GraphProp + Data<EdgeWeight = i64>,
{
    view_w(ag, g, abs, &|w| *w)
}

fn plain_q<G0, G1>(ctx: &mut Ctx, g0: G0, g1: G1, qi: &str, qs: &str)
where
    G0: NodeCompactIndexable + EdgeCount + GetAdjacencyMatrix + GraphProp + IntoNeighborsDirected + Copy,
    G1: NodeCompactIndexable + EdgeCount + GetAdjacencyMatrix + GraphProp<EdgeType = G0::EdgeType> + IntoNeighborsDirected + Copy,
{
    ctx.line(qi, &bool_ans(catch(|| is_isomorphic(g0, g1))));
    ctx.line(qs, &bool_ans(catch(|| is_isomorphic_subgraph(g0, g1))));
}

fn plain<G0, G1>(ctx: &mut Ctx, g0: G0, g1: G1)
where
    G0: NodeCompactIndexable + EdgeCount + GetAdjacencyMatrix + GraphProp + IntoNeighborsDirected + Copy,
    G1: NodeCompactIndexable + EdgeCount + GetAdjacencyMatrix + GraphProp<EdgeType = G0::EdgeType> + IntoNeighborsDirected + Copy,
{
    plain_q(ctx, g0, g1, "iso", "sub");
}

fn falling(n1: usize, n0: usize) -> usize {
    (0..n0).map(|k| n1.saturating_sub(k)).product()
}

/// how the weights of the two encodings are turned into the protocol's weight codes (what the predicates see)
struct Codes<'a, G0: Data, G1: Data> {
    n0: &'a dyn Fn(&G0::NodeWeight) -> i64,
    n1: &'a dyn Fn(&G1::NodeWeight) -> i64,
    e0: &'a dyn Fn(&G0::EdgeWeight) -> i64,
    e1: &'a dyn Fn(&G1::EdgeWeight) -> i64,
    /// f32 weights: IEEE predicates
    float: bool,
}

fn positions(len: usize) -> Vec<usize> {
    let mut v = vec![0, 1, 2, len / 2, len.saturating_sub(1), len, len + 1];
    v.sort();
    v.dedup();
    v
}

/// Laws of the `Iterator` contract for the (non-`Clone`) iterator of `subgraph_isomorphisms_iter`: `mk` makes a
/// fresh iterator over the same arguments.  Every way of consuming it must describe the sequence that `next`
/// yields.  (The UPPER bound of size_hint is judged by the driver, `hint` lines; at most `cap` vectors can exist.)
fn matcher_laws<I, F>(mk: &F, cap: usize) -> Option<String>
where
    I: Iterator<Item = Vec<usize>>,
    F: Fn() -> Option<I>,
{
    let it = match mk() {
        Some(it) => it,
        None => return if mk().is_some() { Some("None, then Some(..) for the same arguments".into()) } else { None },
    };
    let v: Vec<Vec<usize>> = it.take(cap + 1).collect();
    if v.len() > cap {
        return Some(format!("more than {} vectors are yielded", cap));
    }
    let n = v.len();
    macro_rules! fresh {
        () => {
            match mk() {
                Some(it) => it,
                None => return Some("Some(..), then None for the same arguments".into()),
            }
        };
    }
    let v2: Vec<Vec<usize>> = fresh!().take(cap + 1).collect();
    if v2 != v {
        return Some(format!("a second iterator over the same arguments yields {:?}, the first yielded {:?}", v2, v));
    }
    let c = fresh!().count();
    if c != n {
        return Some(format!("count() = {} but {} items are yielded", c, n));
    }
    if fresh!().last() != v.last().cloned() {
        return Some("last() is not the last item yielded".into());
    }
    for k in positions(n) {
        let mut a = fresh!();
        let got = a.nth(k);
        let want = v.get(k).cloned();
        if got != want {
            return Some(format!("nth({}) = {:?}, stepping with next gives {:?}", k, got, want));
        }
        let ra: Vec<Vec<usize>> = a.take(cap + 1).collect();
        let rb: Vec<Vec<usize>> = v[(k + 1).min(n)..].to_vec();
        if ra != rb {
            return Some(format!("after nth({}) the remaining items are {:?}, after {} x next they are {:?}", k, ra, k + 1, rb));
        }
        let mut m = fresh!();
        for _ in 0..k.min(n) {
            m.next();
        }
        let rest = n - k.min(n);
        let (lo, _) = m.size_hint();
        if lo > rest {
            return Some(format!("after {} items size_hint's lower bound is {} but {} items remain", k.min(n), lo, rest));
        }
        let sk: Vec<Vec<usize>> = fresh!().skip(k).take(cap + 1).collect();
        if sk != v[k.min(n)..] {
            return Some(format!("skip({}) yields {:?}, expected {:?}", k, sk, &v[k.min(n)..]));
        }
    }
    for step in [2usize, 3] {
        let st: Vec<Vec<usize>> = fresh!().step_by(step).take(cap + 1).collect();
        let w: Vec<Vec<usize>> = v.iter().step_by(step).cloned().collect();
        if st != w {
            return Some(format!("step_by({}) yields {:?}, every {}th item is {:?}", step, st, step, w));
        }
    }
    let f = fresh!().fold(0usize, |acc, _| acc + 1);
    if f != n {
        return Some(format!("fold visits {} items, next visits {}", f, n));
    }
    // by_ref: a prefix taken through a borrow, then the rest from the same iterator
    let mut b = fresh!();
    let mut front: Vec<Vec<usize>> = b.by_ref().take(n / 2).collect();
    front.extend(b.take(cap + 1));
    if front != v {
        return Some(format!("take({}) through by_ref() and then the rest yields {:?}, the sequence is {:?}", n / 2, front, v));
    }
    // two live iterators over the same graphs do not disturb each other
    let (mut x, mut y) = (fresh!(), fresh!());
    let (mut xs, mut ys) = (vec![], vec![]);
    for _ in 0..cap + 2 {
        let (a, b) = (x.next(), y.next());
        if a.is_none() && b.is_none() {
            break;
        }
        xs.extend(a);
        ys.extend(b);
    }
    if xs != v || ys != v {
        return Some(format!("two interleaved iterators yield {:?} and {:?}, one alone yields {:?}", xs, ys, v));
    }
    // size_hint has no side effect
    let mut h = fresh!();
    let mut hs = vec![];
    for _ in 0..cap + 2 {
        let _ = h.size_hint();
        match h.next() {
            Some(x) => hs.push(x),
            None => break,
        }
    }
    if hs != v {
        return Some(format!("with size_hint() called before every next() the items are {:?}, without {:?}", hs, v));
    }
    // after None the iterator keeps answering None
    let mut e = fresh!();
    for _ in 0..n {
        e.next();
    }
    if e.next().is_some() || e.next().is_some() || e.next().is_some() {
        return Some("an item is yielded after the sequence ended".into());
    }
    None
}

/// the three requests with predicates (+ size_hint and iterator laws of the iterator); `n0`, `n1` = node counts
#[allow(clippy::too_many_arguments)]
fn semantic<G0, G1>(ctx: &mut Ctx, rng: &mut Rng, g0: G0, g1: G1, n0: usize, n1: usize, c: &Codes<G0, G1>, abs0: &dyn Fn(G0::NodeId) -> usize, abs1: &dyn Fn(G1::NodeId) -> usize)
where
    G0: NodeCompactIndexable + EdgeCount + DataMap + GetAdjacencyMatrix + GraphProp + IntoEdgesDirected + Copy,
    G1: NodeCompactIndexable + EdgeCount + DataMap + GetAdjacencyMatrix + GraphProp<EdgeType = G0::EdgeType> + IntoEdgesDirected + Copy,
{
    for q in ["isom", "subm", "iter"] {
        let (nk, ek) = (pick_pred(rng, c.float), pick_pred(rng, c.float));
        let nmf = |a: &G0::NodeWeight, b: &G1::NodeWeight| pred(nk, (c.n0)(a), (c.n1)(b));
        let emf = |x: &G0::EdgeWeight, y: &G1::EdgeWeight| pred(ek, (c.e0)(x), (c.e1)(y));
        let req = format!("{} {} {}", q, nk, ek);
        match q {
            "isom" => ctx.line(&req, &bool_ans(catch(|| is_isomorphic_matching(g0, g1, nmf, emf)))),
            "subm" => ctx.line(&req, &bool_ans(catch(|| is_isomorphic_subgraph_matching(g0, g1, nmf, emf)))),
            _ => {
                let cap = falling(n1, n0) + 2;
                let mut total: Option<usize> = None;
                let r = catch(|| {
                    let (mut nmf, mut emf) = (nmf, emf);
                    let res = subgraph_isomorphisms_iter(&g0, &g1, &mut nmf, &mut emf);
                    let out = match res {
                        None => "none".to_string(),
                        Some(mut it) => {
                            let mut ms: Vec<String> = vec![];
                            let mut ended = false;
                            for _ in 0..cap {
                                match it.next() {
                                    Some(v) => ms.push(fmt_mapping(g0, g1, abs0, abs1, &v, n0, n1)),
                                    None => {
                                        ended = true;
                                        break;
                                    }
                                }
                            }
                            let fin = if !ended {
                                if it.next().is_none() { "end" } else { "more" }
                            } else if it.next().is_some() || it.next().is_some() {
                                // `next` after the end: every mapping is to be yielded once
                                "revived"
                            } else {
                                "end"
                            };
                            if fin == "end" {
                                total = Some(ms.len());
                            }
                            format!("some {} {}", list(ms), fin)
                        }
                    };
                    out
                });
                ctx.line(&req, &r.unwrap_or("panic".into()));
                // size_hint of a fresh iterator: before the first next(), and somewhere later (also past the end)
                let t = total.unwrap_or(0);
                let ats = [0, 1 + rng.below(t + 2)];
                for at in ats {
                    let r = catch(|| {
                        let (mut nmf, mut emf) = (nmf, emf);
                        let out = match subgraph_isomorphisms_iter(&g0, &g1, &mut nmf, &mut emf) {
                            None => "none".to_string(),
                            Some(mut it) => {
                                let mut consumed = 0;
                                for _ in 0..at {
                                    if it.next().is_none() {
                                        break;
                                    }
                                    consumed += 1;
                                }
                                let (lo, hi) = it.size_hint();
                                format!("{} {} {}", consumed, lo, hi.map_or("inf".to_string(), |h| h.to_string()))
                            }
                        };
                        out
                    });
                    ctx.line(&format!("hint {} {} {}", at, nk, ek), &r.unwrap_or("panic".into()));
                }
                // the other ways of consuming the iterator (each makes ~40 fresh iterators: small answers only)
                if total.map_or(false, |t| t <= 150) && rng.chance(45) {
                    let (g0r, g1r) = (&g0, &g1);
                    let mk = || {
                        // the iterator borrows its predicates mutably for its whole life: leak a copy per iterator
                        let nm = Box::leak(Box::new(nmf));
                        let em = Box::leak(Box::new(emf));
                        subgraph_isomorphisms_iter(g0r, g1r, nm, em)
                    };
                    let r = catch(|| matcher_laws(&mk, cap));
                    let verdict = match r {
                        Some(x) => crate::iterlaws::law_verdict(x),
                        None => "VIOLATED a way of consuming the iterator panicked".to_string(),
                    };
                    ctx.line(&format!("iterlaw matcher {} {}", nk, ek), &verdict);
                }
            }
        }
    }
}

/// a yielded vector (index = g0 `to_index`, value = g1 `to_index`) in abstract ids, ordered by abstract g0 id
fn fmt_mapping<G0: NodeIndexable, G1: NodeIndexable>(g0: G0, g1: G1, abs0: &dyn Fn(G0::NodeId) -> usize, abs1: &dyn Fn(G1::NodeId) -> usize, v: &[usize], n0: usize, n1: usize) -> String {
    if v.len() != n0 {
        return format!("BADLEN{}", v.len());
    }
    if v.is_empty() {
        return "e".into();
    }
    let mut res = vec![String::from("?"); n0];
    for (i, &t) in v.iter().enumerate() {
        let a = abs0(g0.from_index(i));
        res[a] = if t < n1 { abs1(g1.from_index(t)).to_string() } else { "X".into() };
    }
    res.join(".")
}

macro_rules! on_enc {
    (D, $e:expr, $g:ident, $abs:ident, $body:block) => {
        match $e {
            Enc::G32(x) => {
                let $g = x;
                let $abs = |n: petgraph::graph::NodeIndex<u32>| x[n];
                $body
            }
            Enc::G8(x) => {
                let $g = x;
                let $abs = |n: petgraph::graph::NodeIndex<u8>| x[n];
                $body
            }
            Enc::Map(x) => {
                let $g = x;
                let $abs = |n: usize| n;
                $body
            }
            Enc::Acy(x) => {
                let $g = x;
                let $abs = |n: petgraph::graph::NodeIndex<u32>| x.inner()[n];
                $body
            }
        }
    };
    (U, $e:expr, $g:ident, $abs:ident, $body:block) => {
        match $e {
            Enc::G32(x) => {
                let $g = x;
                let $abs = |n: petgraph::graph::NodeIndex<u32>| x[n];
                $body
            }
            Enc::G8(x) => {
                let $g = x;
                let $abs = |n: petgraph::graph::NodeIndex<u8>| x[n];
                $body
            }
            Enc::Map(x) => {
                let $g = x;
                let $abs = |n: usize| n;
                $body
            }
            Enc::Acy(_) => unreachable!(),
        }
    };
}

macro_rules! on_data {
    (D, $e:expr, $g:ident, $abs:ident, $body:block) => {
        match $e {
            Enc::G32(x) => {
                let $g = x;
                let $abs = |n: petgraph::graph::NodeIndex<u32>| x[n];
                $body
            }
            Enc::G8(x) => {
                let $g = x;
                let $abs = |n: petgraph::graph::NodeIndex<u8>| x[n];
                $body
            }
            Enc::Acy(x) => {
                let $g = x;
                let $abs = |n: petgraph::graph::NodeIndex<u32>| x.inner()[n];
                $body
            }
            Enc::Map(_) => {}
        }
    };
    (U, $e:expr, $g:ident, $abs:ident, $body:block) => {
        match $e {
            Enc::G32(x) => {
                let $g = x;
                let $abs = |n: petgraph::graph::NodeIndex<u32>| x[n];
                $body
            }
            Enc::G8(x) => {
                let $g = x;
                let $abs = |n: petgraph::graph::NodeIndex<u8>| x[n];
                $body
            }
            _ => {}
        }
    };
}

fn nw_field(w: &WG) -> String {
    format!("nw={}", list(w.nw.iter()))
}

macro_rules! round_impl {
    ($name:ident, $ty:ty, $k:tt) => {
        fn $name(ctx: &mut Ctx, rng: &mut Rng, w0: &WG, w1: &WG) {
            let need_data = rng.chance(70);
            let e0 = encode::<$ty>(rng, &w0.ag, need_data);
            let e1 = encode::<$ty>(rng, &w1.ag, need_data);
            on_enc!($k, &e0, g, abs, {
                let v = view_of(&w0.ag, g, &abs);
                ctx.line(&format!("g0 {} {} enc={}", &v[6..], nw_field(w0), e0.name()), "ok");
            });
            on_enc!($k, &e1, g, abs, {
                let v = view_of(&w1.ag, g, &abs);
                ctx.line(&format!("g1 {} {} enc={}", &v[6..], nw_field(w1), e1.name()), "ok");
            });
            on_enc!($k, &e0, g0, _a0, {
                on_enc!($k, &e1, g1, _a1, {
                    plain(ctx, g0, g1);
                });
            });
            if e0.has_data() && e1.has_data() {
                on_data!($k, &e0, g0, a0, {
                    on_data!($k, &e1, g1, a1, {
                        let c = Codes { n0: &|a: &usize| w0.nw[*a], n1: &|a: &usize| w1.nw[*a], e0: &|x: &i64| *x, e1: &|x: &i64| *x, float: false };
                        semantic(ctx, rng, g0, g1, w0.ag.n, w1.ag.n, &c, &a0, &a1);
                    });
                });
            }
        }
    };
}
round_impl!(round_d, Directed, D);
round_impl!(round_u, Undirected, U);

// ------------------------------------------------------------------------------------------------
// wave 6: the other argument types that satisfy the trait bounds ("exotic" rounds)

fn rev_ag(ag: &AG) -> AG {
    AG { directed: ag.directed, n: ag.n, edges: ag.edges.iter().map(|&(a, b, w)| (b, a, w)).collect() }
}

/// views + the five functions for a pair of encodings with weight access (node weight = abstract id, edge weight i64)
#[allow(clippy::too_many_arguments)]
fn run_full<G0, G1>(ctx: &mut Ctx, rng: &mut Rng, w0: &WG, w1: &WG, g0: G0, g1: G1, abs0: &dyn Fn(G0::NodeId) -> usize, abs1: &dyn Fn(G1::NodeId) -> usize, name0: &str, name1: &str)
where
    G0: NodeCompactIndexable + EdgeCount + DataMap + Data<NodeWeight = usize, EdgeWeight = i64> + GetAdjacencyMatrix + GraphProp + IntoEdgesDirected + IntoNodeIdentifiers + Copy,
    G1: NodeCompactIndexable + EdgeCount + DataMap + Data<NodeWeight = usize, EdgeWeight = i64> + GetAdjacencyMatrix + GraphProp<EdgeType = G0::EdgeType> + IntoEdgesDirected + IntoNodeIdentifiers + Copy,
{
    let c = Codes { n0: &|a: &usize| w0.nw[*a], n1: &|a: &usize| w1.nw[*a], e0: &|x: &i64| *x, e1: &|x: &i64| *x, float: false };
    run_coded(ctx, rng, w0, w1, g0, g1, abs0, abs1, name0, name1, &c);
}

/// the same for arbitrary weight types (`c` turns weights into protocol codes)
#[allow(clippy::too_many_arguments)]
fn run_coded<G0, G1>(ctx: &mut Ctx, rng: &mut Rng, w0: &WG, w1: &WG, g0: G0, g1: G1, abs0: &dyn Fn(G0::NodeId) -> usize, abs1: &dyn Fn(G1::NodeId) -> usize, name0: &str, name1: &str, c: &Codes<G0, G1>)
where
    G0: NodeCompactIndexable + EdgeCount + DataMap + GetAdjacencyMatrix + GraphProp + IntoEdgesDirected + IntoNodeIdentifiers + Copy,
    G1: NodeCompactIndexable + EdgeCount + DataMap + GetAdjacencyMatrix + GraphProp<EdgeType = G0::EdgeType> + IntoEdgesDirected + IntoNodeIdentifiers + Copy,
{
    let v = view_w(&w0.ag, g0, abs0, c.e0);
    ctx.line(&format!("g0 {} {} enc={}", &v[6..], nw_field(w0), name0), "ok");
    let v = view_w(&w1.ag, g1, abs1, c.e1);
    ctx.line(&format!("g1 {} {} enc={}", &v[6..], nw_field(w1), name1), "ok");
    plain(ctx, g0, g1);
    semantic(ctx, rng, g0, g1, w0.ag.n, w1.ag.n, c, abs0, abs1);
}

/// views + the two plain functions (encodings without `DataMap`)
#[allow(clippy::too_many_arguments)]
fn run_plain<G0, G1>(ctx: &mut Ctx, w0: &WG, w1: &WG, g0: G0, g1: G1, abs0: &dyn Fn(G0::NodeId) -> usize, abs1: &dyn Fn(G1::NodeId) -> usize, name0: &str, name1: &str)
where
    G0: NodeCompactIndexable + EdgeCount + Data<EdgeWeight = i64> + GetAdjacencyMatrix + GraphProp + IntoEdgesDirected + IntoNodeIdentifiers + Copy,
    G1: NodeCompactIndexable + EdgeCount + Data<EdgeWeight = i64> + GetAdjacencyMatrix + GraphProp<EdgeType = G0::EdgeType> + IntoEdgesDirected + IntoNodeIdentifiers + Copy,
{
    let v = view_of(&w0.ag, g0, abs0);
    ctx.line(&format!("g0 {} {} enc={}", &v[6..], nw_field(w0), name0), "ok");
    let v = view_of(&w1.ag, g1, abs1);
    ctx.line(&format!("g1 {} {} enc={}", &v[6..], nw_field(w1), name1), "ok");
    plain(ctx, g0, g1);
}

/// the abstract pair without weights (for `Graph<(), ()>`)
fn stripped(w: &WG) -> WG {
    WG { ag: AG { directed: w.ag.directed, n: w.ag.n, edges: w.ag.edges.iter().map(|&(a, b, _)| (a, b, 0)).collect() }, nw: vec![0; w.ag.n] }
}

/// some weights become code 2 (= NaN)
fn with_nans(rng: &mut Rng, w: &WG) -> WG {
    let mut r = w.clone();
    for e in r.ag.edges.iter_mut() {
        if rng.chance(30) {
            e.2 = 2;
        }
    }
    for x in r.nw.iter_mut() {
        if rng.chance(25) {
            *x = 2;
        }
    }
    r
}

/// `Graph<(), ()>`: nodes are identified by their insertion position; returns the graph and index ↦ abstract id
fn build_unit<Ty: EdgeType>(rng: &mut Rng, ag: &AG) -> (Graph<(), (), Ty, u32>, Vec<usize>) {
    let node_order = random_perm(rng, ag.n);
    let edge_order = random_perm(rng, ag.edges.len());
    let mut pos = vec![0; ag.n];
    let mut g = Graph::<(), (), Ty, u32>::default();
    for (i, &a) in node_order.iter().enumerate() {
        pos[a] = i;
        g.add_node(());
    }
    for &k in &edge_order {
        let (mut a, mut b, _) = ag.edges[k];
        if !ag.directed && rng.chance(50) {
            std::mem::swap(&mut a, &mut b);
        }
        g.add_edge(petgraph::graph::NodeIndex::new(pos[a]), petgraph::graph::NodeIndex::new(pos[b]), ());
    }
    (g, node_order)
}

const EXOTIC: [&str; 11] = ["ix-u16-usize", "reversed-both", "reversed-one", "frozen-both", "frozen-one", "map-hashers", "reversed-map", "reversed-twice", "unit-weights", "f32-nan", "same-object"];

fn round_exotic<Ty: EdgeType>(ctx: &mut Ctx, rng: &mut Rng, w0: &WG, w1: &WG) {
    let hist = rng.chance(40);
    let kind = rng.weighted(&[12, 12, 10, 10, 8, 9, 8, 6, 9, 10, 6]);
    ctx.line(&format!("profile exotic={}", EXOTIC[kind]), "ok");
    match kind {
        0 => {
            if rng.chance(50) {
                let a = build_graph::<Ty, u16>(rng, &w0.ag, hist);
                let b = build_graph::<Ty, usize>(rng, &w1.ag, hist);
                run_full(ctx, rng, w0, w1, &a, &b, &|n| a[n], &|n| b[n], "Graph-u16", "Graph-usize");
            } else {
                let a = build_graph::<Ty, usize>(rng, &w0.ag, hist);
                let b = build_graph::<Ty, u16>(rng, &w1.ag, hist);
                run_full(ctx, rng, w0, w1, &a, &b, &|n| a[n], &|n| b[n], "Graph-usize", "Graph-u16");
            }
        }
        1 => {
            // the storage holds the reversed graph, the argument is the adaptor
            let a = build_graph::<Ty, u32>(rng, &rev_ag(&w0.ag), hist);
            let b = build_graph::<Ty, u8>(rng, &rev_ag(&w1.ag), hist);
            run_full(ctx, rng, w0, w1, Reversed(&a), Reversed(&b), &|n| a[n], &|n| b[n], "Reversed-Graph-u32", "Reversed-Graph-u8");
        }
        2 => {
            if rng.chance(50) {
                let a = build_graph::<Ty, u32>(rng, &rev_ag(&w0.ag), hist);
                let b = build_graph::<Ty, u32>(rng, &w1.ag, hist);
                run_full(ctx, rng, w0, w1, Reversed(&a), &b, &|n| a[n], &|n| b[n], "Reversed-Graph-u32", "Graph-u32");
            } else {
                let a = build_graph::<Ty, u32>(rng, &w0.ag, hist);
                let b = build_graph::<Ty, u32>(rng, &rev_ag(&w1.ag), hist);
                run_full(ctx, rng, w0, w1, &a, Reversed(&b), &|n| a[n], &|n| b[n], "Graph-u32", "Reversed-Graph-u32");
            }
        }
        3 => {
            // (`&Frozen<Graph>` lacks the Into* traits: they are delegated to `G` by value; `&Frozen<&Graph>` has them)
            let a = build_graph::<Ty, u32>(rng, &w0.ag, hist);
            let b = build_graph::<Ty, u8>(rng, &w1.ag, hist);
            let (mut ra, mut rb) = (&a, &b);
            let (fa, fb) = (Frozen::new(&mut ra), Frozen::new(&mut rb));
            run_full(ctx, rng, w0, w1, &fa, &fb, &|n| a[n], &|n| b[n], "Frozen-Graph-u32", "Frozen-Graph-u8");
        }
        4 => {
            let a = build_graph::<Ty, u32>(rng, &w0.ag, hist);
            let b = build_graph::<Ty, u32>(rng, &w1.ag, hist);
            if rng.chance(50) {
                let mut ra = &a;
                let fa = Frozen::new(&mut ra);
                run_full(ctx, rng, w0, w1, &fa, &b, &|n| a[n], &|n| b[n], "Frozen-Graph-u32", "Graph-u32");
            } else {
                let mut rb = &b;
                let fb = Frozen::new(&mut rb);
                run_full(ctx, rng, w0, w1, &a, &fb, &|n| a[n], &|n| b[n], "Graph-u32", "Frozen-Graph-u32");
            }
        }
        5 => {
            let a = build_map_h::<Ty, fxhash::FxBuildHasher>(rng, &w0.ag, hist);
            let b = build_map_h::<Ty, ahash::RandomState>(rng, &w1.ag, hist);
            run_plain(ctx, w0, w1, &a, &b, &|n| n, &|n| n, "GraphMap-fxhash", "GraphMap-ahash");
        }
        6 => {
            let a = build_map(rng, &rev_ag(&w0.ag), hist);
            if rng.chance(50) {
                let b = build_graph::<Ty, u32>(rng, &w1.ag, hist);
                run_plain(ctx, w0, w1, Reversed(&a), &b, &|n| n, &|n| b[n], "Reversed-GraphMap", "Graph-u32");
            } else {
                let b = build_map_h::<Ty, fxhash::FxBuildHasher>(rng, &rev_ag(&w1.ag), hist);
                run_plain(ctx, w0, w1, Reversed(&a), Reversed(&b), &|n| n, &|n| n, "Reversed-GraphMap", "Reversed-GraphMap-fxhash");
            }
        }
        7 => {
            let a = build_graph::<Ty, u32>(rng, &w0.ag, hist);
            let b = build_graph::<Ty, u32>(rng, &w1.ag, hist);
            run_full(ctx, rng, w0, w1, Reversed(Reversed(&a)), &b, &|n| a[n], &|n| b[n], "Reversed-Reversed-Graph-u32", "Graph-u32");
        }
        8 => {
            let (s0, s1) = (stripped(w0), stripped(w1));
            let (a, oa) = build_unit::<Ty>(rng, &s0.ag);
            let (b, ob) = build_unit::<Ty>(rng, &s1.ag);
            let c = Codes { n0: &|_: &()| 0, n1: &|_: &()| 0, e0: &|_: &()| 0, e1: &|_: &()| 0, float: false };
            run_coded(ctx, rng, &s0, &s1, &a, &b, &|n| oa[n.index()], &|n| ob[n.index()], "Graph-unit", "Graph-unit", &c);
        }
        9 => {
            let (f0, f1) = (with_nans(rng, w0), with_nans(rng, w1));
            let a = build_graph::<Ty, u16>(rng, &f0.ag, hist).map(|_, n| *n, |_, e| code_f32(*e));
            let b = build_graph::<Ty, u32>(rng, &f1.ag, hist).map(|_, n| *n, |_, e| code_f32(*e));
            let c = Codes { n0: &|x: &usize| f0.nw[*x], n1: &|x: &usize| f1.nw[*x], e0: &|x: &f32| f32_code(*x), e1: &|x: &f32| f32_code(*x), float: true };
            run_coded(ctx, rng, &f0, &f1, &a, &b, &|n| a[n], &|n| b[n], "Graph-f32-u16", "Graph-f32-u32", &c);
        }
        _ => {
            // the SAME object as pattern and target
            if rng.chance(50) {
                let a = build_graph::<Ty, u32>(rng, &w0.ag, hist);
                run_full(ctx, rng, w0, w0, &a, &a, &|n| a[n], &|n| a[n], "Graph-u32", "same");
            } else {
                let b = build_graph::<Ty, u8>(rng, &rev_ag(&w1.ag), hist);
                run_full(ctx, rng, w1, w1, Reversed(&b), Reversed(&b), &|n| b[n], &|n| b[n], "Reversed-Graph-u8", "same");
            }
        }
    }
}

/// directed only: `Reversed<&Acyclic<DiGraph>>`
fn round_exotic_d(ctx: &mut Ctx, rng: &mut Rng, w0: &WG, w1: &WG) {
    if is_dag(&w0.ag) && rng.chance(40) {
        let hist = rng.chance(40);
        let g = build_graph::<Directed, u32>(rng, &rev_ag(&w0.ag), hist);
        if let Ok(a) = Acyclic::try_from_graph(g) {
            ctx.line("profile exotic=reversed-acyclic", "ok");
            if is_dag(&w1.ag) && rng.chance(60) {
                let h = build_graph::<Directed, u32>(rng, &w1.ag, hist);
                if let Ok(b) = Acyclic::try_from_graph(h) {
                    run_full(ctx, rng, w0, w1, Reversed(&a), &b, &|n| a.inner()[n], &|n| b.inner()[n], "Reversed-Acyclic-DiGraph", "Acyclic-DiGraph");
                    return;
                }
            }
            let b = build_graph::<Directed, u8>(rng, &w1.ag, hist);
            run_full(ctx, rng, w0, w1, Reversed(&a), &b, &|n| a.inner()[n], &|n| b[n], "Reversed-Acyclic-DiGraph", "Graph-u8");
            return;
        }
    }
    round_exotic::<Directed>(ctx, rng, w0, w1);
}

// ------------------------------------------------------------------------------------------------
// wave 6: pairs too big for the enumerating oracle (judged by the proved mirror model)

/// identity with a few transpositions of neighbouring positions (keeps the search of VF2 short)
fn near_identity(rng: &mut Rng, n: usize) -> Vec<usize> {
    let mut p: Vec<usize> = (0..n).collect();
    if n >= 2 {
        for _ in 0..rng.below(3) {
            let i = rng.below(n - 1);
            p.swap(i, i + 1);
        }
    }
    p
}

fn big_requests<G0, G1>(ctx: &mut Ctx, rng: &mut Rng, w0: &WG, w1: &WG, g0: G0, g1: G1, abs0: &dyn Fn(G0::NodeId) -> usize, abs1: &dyn Fn(G1::NodeId) -> usize, name0: &str, name1: &str, search: bool)
where
    G0: NodeCompactIndexable + EdgeCount + DataMap + Data<NodeWeight = usize, EdgeWeight = i64> + GetAdjacencyMatrix + GraphProp + IntoEdgesDirected + IntoNodeIdentifiers + Copy,
    G1: NodeCompactIndexable + EdgeCount + DataMap + Data<NodeWeight = usize, EdgeWeight = i64> + GetAdjacencyMatrix + GraphProp<EdgeType = G0::EdgeType> + IntoEdgesDirected + IntoNodeIdentifiers + Copy,
{
    let v = view_of(&w0.ag, g0, abs0);
    ctx.line(&format!("g0 {} {} enc={}", &v[6..], nw_field(w0), name0), "ok");
    let v = view_of(&w1.ag, g1, abs1);
    ctx.line(&format!("g1 {} {} enc={}", &v[6..], nw_field(w1), name1), "ok");
    let (n0, n1) = (w0.ag.n, w1.ag.n);
    let (nw0, nw1) = (&w0.nw, &w1.nw);
    let (nk, ek) = (["t", "eq", "le"][rng.weighted(&[30, 50, 20])], ["t", "eq", "le"][rng.weighted(&[30, 50, 20])]);
    let nmf = |a: &usize, b: &usize| pred(nk, nw0[*a], nw1[*b]);
    let emf = |x: &i64, y: &i64| pred(ek, *x, *y);
    // size_hint of a fresh iterator (no search)
    let r = catch(|| {
        let (mut nmf, mut emf) = (nmf, emf);
        let out = match subgraph_isomorphisms_iter(&g0, &g1, &mut nmf, &mut emf) {
            None => "none".to_string(),
            Some(it) => {
                let (lo, hi) = it.size_hint();
                format!("0 {} {}", lo, hi.map_or("inf".to_string(), |h| h.to_string()))
            }
        };
        out
    });
    ctx.line(&format!("bhint {} {}", nk, ek), &r.unwrap_or("panic".into()));
    if !search {
        return;
    }
    if n0 > 100 {
        // (every request costs the driver a full consistency check of two 255-node encodings: three of them)
        ctx.line("biso", &bool_ans(catch(|| is_isomorphic(g0, g1))));
        ctx.line(&format!("bsub {} {}", nk, ek), &bool_ans(catch(|| is_isomorphic_subgraph_matching(g0, g1, nmf, emf))));
        return;
    }
    plain_q(ctx, g0, g1, "biso", "bsub");
    ctx.line(&format!("biso {} {}", nk, ek), &bool_ans(catch(|| is_isomorphic_matching(g0, g1, nmf, emf))));
    ctx.line(&format!("bsub {} {}", nk, ek), &bool_ans(catch(|| is_isomorphic_subgraph_matching(g0, g1, nmf, emf))));
    let k = 1 + rng.below(3);
    let r = catch(|| {
        let (mut nmf, mut emf) = (nmf, emf);
        let out = match subgraph_isomorphisms_iter(&g0, &g1, &mut nmf, &mut emf) {
            None => "none".to_string(),
            Some(mut it) => {
                let mut ms: Vec<String> = vec![];
                let mut ended = false;
                for _ in 0..k {
                    match it.next() {
                        Some(v) => ms.push(fmt_mapping(g0, g1, abs0, abs1, &v, n0, n1)),
                        None => {
                            ended = true;
                            break;
                        }
                    }
                }
                if !ended {
                    ended = it.next().is_none();
                }
                format!("some {} {}", list(ms), if ended { "end" } else { "cut" })
            }
        };
        out
    });
    ctx.line(&format!("biter {} {} {}", k, nk, ek), &r.unwrap_or("panic".into()));
}

fn big_typed<Ty: EdgeType>(ctx: &mut Ctx, rng: &mut Rng, w0: &WG, w1: &WG, kind: &str, search: bool) {
    match kind {
        "u8cap" => {
            let a = build_graph::<Ty, u8>(rng, &w0.ag, false);
            let b = build_graph::<Ty, u8>(rng, &w1.ag, false);
            big_requests(ctx, rng, w0, w1, &a, &b, &|n| a[n], &|n| b[n], "Graph-u8", "Graph-u8", search);
        }
        _ => match rng.below(3) {
            0 => {
                let a = build_graph::<Ty, u32>(rng, &w0.ag, false);
                let b = build_graph::<Ty, u16>(rng, &w1.ag, false);
                big_requests(ctx, rng, w0, w1, &a, &b, &|n| a[n], &|n| b[n], "Graph-u32", "Graph-u16", search);
            }
            1 => {
                // (u16: a dense 23-node digraph has more than the 255 edges a Graph<u8> can hold)
                let a = build_graph::<Ty, u16>(rng, &rev_ag(&w0.ag), false);
                let b = build_graph::<Ty, u32>(rng, &rev_ag(&w1.ag), false);
                big_requests(ctx, rng, w0, w1, Reversed(&a), Reversed(&b), &|n| a[n], &|n| b[n], "Reversed-Graph-u16", "Reversed-Graph-u32", search);
            }
            _ => {
                let a = build_graph::<Ty, u32>(rng, &w0.ag, false);
                let b = build_graph::<Ty, usize>(rng, &w1.ag, false);
                let mut ra = &a;
                let fa = Frozen::new(&mut ra);
                big_requests(ctx, rng, w0, w1, &fa, &b, &|n| a[n], &|n| b[n], "Frozen-Graph-u32", "Graph-usize", search);
            }
        },
    }
}

/// build_graph with the identity insertion order is not available (it permutes), so the labeling of the encodings
/// is random; what keeps VF2's search short is that BOTH arguments get the same near-identity relation between
/// abstract ids — the abstract pair itself is (g, near-identity relabeled copy of g) — and that the graphs are
/// rigid enough (G(n,p) with p around 1/2) for wrong branches to die after a few levels.
fn gen_big(rng: &mut Rng) -> (WG, WG, &'static str, bool) {
    let directed = rng.chance(55);
    let loops = rng.chance(45);
    let kind = rng.weighted(&[46, 46, 8]);
    let (n, name): (usize, &'static str) = match kind {
        0 => (10 + rng.below(9), "big-medium"),
        1 => (*rng.pick(&[19usize, 20, 20, 21, 21, 22, 23]), "big-table"),
        _ => (*rng.pick(&[254usize, 255]), "big-u8cap"),
    };
    let mut ag = if kind == 2 {
        // a long path / cycle with a few chords: cheap for the search, fills Graph<u8> to its last index
        let mut ag = AG { directed, n, edges: vec![] };
        for a in 0..n - 1 {
            add_simple(&mut ag, a, a + 1, 0, loops);
        }
        if rng.chance(50) {
            add_simple(&mut ag, n - 1, 0, 0, loops);
        }
        // Graph<u8> holds at most 255 edges as well: sometimes fill it exactly
        let room = 255 - ag.edges.len();
        let want = if rng.chance(40) { room } else { rng.below(room + 1) };
        for _ in 0..4 * want {
            if ag.edges.len() >= 255 - room + want {
                break;
            }
            let (a, b) = (rng.below(n), rng.below(n));
            add_simple(&mut ag, a, b, 0, loops);
        }
        ag
    } else {
        let pct = *rng.pick(&[35u32, 50, 60]);
        gnp(rng, directed, n, pct, loops)
    };
    let nw = rand_weights(rng, &mut ag);
    let w0 = WG { ag, nw };
    let p = if kind == 2 { (0..n).collect() } else { near_identity(rng, n) };
    let mut w1 = relabeled(rng, &w0, &p);
    let mut search = true;
    match rng.weighted(&[50, 15, 15, 20]) {
        0 => {}
        1 if kind != 2 => {
            // one more target node (joined to a few others): subgraph yes, isomorphic no (early rejection)
            w1.ag.n += 1;
            w1.nw.push(rng.below(2) as i64);
            for _ in 0..rng.below(3) {
                let b = rng.below(n);
                add_simple(&mut w1.ag, n, b, 0, loops);
            }
        }
        2 if w0.ag.edges.len() < 255 => {
            // the pattern has one more edge: both early rejections
            let (a, b) = (rng.below(n), rng.below(n));
            let mut g = w0.clone();
            if add_simple(&mut g.ag, a, b, 0, loops) {
                return (g, w1, name, true);
            }
        }
        1 | 2 => {}
        _ => {
            // size_hint only (no search): pattern and target unrelated, also with more target nodes
            search = false;
            if kind != 2 {
                let n1 = n + rng.below(3);
                let mut b = gnp(rng, directed, n1, 40, loops);
                let nw = rand_weights(rng, &mut b);
                w1 = WG { ag: b, nw };
            }
        }
    }
    (w0, w1, name, search)
}

fn gen_pair(rng: &mut Rng, thorough: bool) -> (WG, WG, &'static str) {
    let directed = rng.chance(55);
    let loops = rng.chance(45);
    let (max0, max1) = if thorough && rng.chance(30) { (6, 7) } else { (5, 6) };
    let mode = rng.weighted(&[14, 16, 20, 22, 14, 10, 4]);
    let mk = |rng: &mut Rng, mut ag: AG| {
        let nw = rand_weights(rng, &mut ag);
        WG { ag, nw }
    };
    match mode {
        0 => {
            let a = rand_graph(rng, directed, max0, loops);
            let b = rand_graph(rng, directed, max1, loops);
            (mk(rng, a), mk(rng, b), "independent")
        }
        1 | 2 => {
            // isomorphic copy, then (mode 2) degree-preserving switches: same degree sequence, other structure
            let a = rand_graph(rng, directed, max1, loops);
            let w0 = mk(rng, a);
            let p = random_perm(rng, w0.ag.n);
            let mut w1 = relabeled(rng, &w0, &p);
            let mut name = "iso-copy";
            if mode == 2 {
                name = "switched";
                for _ in 0..1 + rng.below(3) {
                    edge_switch(rng, &mut w1.ag, loops);
                }
            }
            if rng.chance(25) {
                perturb(rng, &mut w1, loops);
                if mode == 1 {
                    name = "iso-perturbed";
                }
            }
            if rng.chance(12) {
                let nw = rand_weights(rng, &mut w1.ag);
                w1.nw = nw;
            }
            if rng.chance(50) { (w0, w1, name) } else { (w1, w0, name) }
        }
        3 => {
            // pattern = induced subgraph of the target, relabeled; sometimes with one pair / weight toggled
            let b = rand_graph(rng, directed, max1, loops);
            let w1 = mk(rng, b);
            let n1 = w1.ag.n;
            let k = if n1 == 0 { 0 } else { 1 + rng.below(n1.min(max0)) };
            let mut keep = random_perm(rng, n1);
            keep.truncate(k);
            let mut w0 = induced(&w1, &keep);
            let mut name = "induced";
            if rng.chance(45) {
                perturb(rng, &mut w0, loops);
                name = "induced-perturbed";
            }
            (w0, w1, name)
        }
        4 => {
            // disconnected: unions of small components, same sizes, possibly one component of another kind
            let mut parts0 = vec![];
            let mut parts1 = vec![];
            let mut total = 0;
            while total < max0 {
                let size = 1 + rng.below(3.min(max0 - total));
                let kind = rng.below(5);
                parts0.push(component(rng, directed, size, kind, loops));
                let kind1 = if rng.chance(25) { rng.below(5) } else { kind };
                parts1.push(component(rng, directed, size, kind1, loops));
                total += size;
                if rng.chance(20) {
                    break;
                }
            }
            if rng.chance(30) && total < max1 {
                let size = 1 + rng.below(max1 - total);
                let kind = rng.below(6);
                parts1.push(component(rng, directed, size, kind, loops));
            }
            rng.shuffle(&mut parts1);
            let a = union_of(&parts0, directed);
            let b = union_of(&parts1, directed);
            let w0 = mk(rng, a);
            let mut w1 = mk(rng, b);
            if rng.chance(50) && w1.ag.n > 0 {
                let p = random_perm(rng, w1.ag.n);
                w1 = relabeled(rng, &w1, &p);
            }
            (w0, w1, "disconnected")
        }
        5 => {
            // supergraph: the pattern embeds as a subgraph that is NOT induced (extra edges / extra nodes)
            let a = rand_graph(rng, directed, max0, loops);
            let w0 = mk(rng, a);
            let p = random_perm(rng, w0.ag.n);
            let mut w1 = relabeled(rng, &w0, &p);
            let extra_nodes = rng.below(max1 + 1 - w1.ag.n.min(max1));
            for _ in 0..extra_nodes {
                w1.ag.n += 1;
                w1.nw.push(rng.below(2) as i64);
            }
            let n1 = w1.ag.n;
            for _ in 0..1 + rng.below(3) {
                if n1 > 0 {
                    let (x, y) = (rng.below(n1), rng.below(n1));
                    add_simple(&mut w1.ag, x, y, rng.below(2) as i64, loops);
                }
            }
            (w0, w1, "supergraph")
        }
        _ => {
            // tiny arguments incl. the node-less pattern
            let (na, nb) = (if rng.chance(35) { 0 } else { 1 }, rng.below(3));
            let a = gnp(rng, directed, na, 50, loops);
            let b = gnp(rng, directed, nb, 50, loops);
            (mk(rng, a), mk(rng, b), "tiny")
        }
    }
}

pub fn run(ctx: &mut Ctx, case: u64) {
    let mut rng = Rng::for_case(ctx.seed, "C13", case);
    let prof = if cfg!(debug_assertions) { "debug" } else { "release" };
    let exhaustive = ctx.tier_thorough && case < exhaustive_total();
    if !exhaustive && rng.chance(3) {
        let (w0, w1, mode, search) = gen_big(&mut rng);
        let directed = w0.ag.directed;
        ctx.raw(&format!("case {} mode={} d={} n0={} n1={} m0={} m1={} prof={}", case, mode, directed as u8, w0.ag.n, w1.ag.n, w0.ag.edges.len(), w1.ag.edges.len(), prof));
        let kind = if mode == "big-u8cap" { "u8cap" } else { "any" };
        if directed {
            big_typed::<Directed>(ctx, &mut rng, &w0, &w1, kind, search);
        } else {
            big_typed::<Undirected>(ctx, &mut rng, &w0, &w1, kind, search);
        }
        return;
    }
    let (w0, w1, mode) = if exhaustive {
        let (mut a, mut b) = exhaustive_pair(case).unwrap();
        let weighted = rng.chance(35);
        let nw0 = if weighted { rand_weights(&mut rng, &mut a) } else { vec![0; a.n] };
        let nw1 = if weighted { rand_weights(&mut rng, &mut b) } else { vec![0; b.n] };
        (WG { ag: a, nw: nw0 }, WG { ag: b, nw: nw1 }, "exhaustive")
    } else {
        gen_pair(&mut rng, ctx.tier_thorough)
    };
    let directed = w0.ag.directed;
    ctx.raw(&format!("case {} mode={} d={} n0={} n1={} m0={} m1={} prof={}", case, mode, directed as u8, w0.ag.n, w1.ag.n, w0.ag.edges.len(), w1.ag.edges.len(), prof));
    let rounds = if mode == "exhaustive" { 1 } else if ctx.tier_thorough { 3 } else { 2 };
    for _ in 0..rounds {
        // a third of the rounds uses one of the rarely used argument types
        let exotic = rng.chance(if mode == "exhaustive" { 20 } else { 33 });
        match (directed, exotic) {
            (true, false) => round_d(ctx, &mut rng, &w0, &w1),
            (false, false) => round_u(ctx, &mut rng, &w0, &w1),
            (true, true) => round_exotic_d(ctx, &mut rng, &w0, &w1),
            (false, true) => round_exotic::<Undirected>(ctx, &mut rng, &w0, &w1),
        }
    }
}
