//! C05 — `Csr` (directed / undirected) and `adj::List` histories: every public constructor, mutator and
//! reader, in- and out-of-range arguments, all index widths, rows on both sides of the 32-entry
//! binary-search cut-off, random insertion orders, `from_sorted_edges` on sorted / unsorted / duplicate input.
//! Two extra case kinds (wave 5): `bsearch` — `<[T]>::binary_search` itself against the mirror's search (sorted
//! slices of 0–80 entries, hits and misses); `obs` — a `Csr<_, _, _, u8>` built by `with_nodes(n)`, `n > 256`,
//! i.e. BEYOND the capacity of the index type (no check in `with_nodes`): outside the property's quantifier, recorded
//! as an observation that is compared exactly with the mirror and never judged.
use crate::common::*;
use crate::rng::Rng;
use petgraph::adj::{EdgeIndex as AEdgeIndex, List};
use petgraph::csr::{Csr, EdgesNotSorted};
use petgraph::data::{Build, DataMap, DataMapMut};
use petgraph::graph::IndexType;
use crate::iterlaws::{iter_laws, iter_laws_de, iter_laws_exact, law_verdict};
use petgraph::visit::{
    EdgeCount, EdgeRef, GetAdjacencyMatrix, GraphProp, IntoEdgeReferences, IntoEdges, IntoNeighbors,
    IntoNodeIdentifiers, IntoNodeReferences, NodeCount, NodeIndexable, NodeRef, VisitMap, Visitable,
};
use petgraph::{Directed, EdgeType, Undirected};

fn rows(v: Vec<String>) -> String {
    if v.is_empty() {
        "~".to_string()
    } else {
        v.join("|")
    }
}

fn recs(v: Vec<String>) -> String {
    if v.is_empty() {
        "-".to_string()
    } else {
        v.join(";")
    }
}

fn or_panic(x: Option<String>) -> String {
    x.unwrap_or_else(|| "panic".to_string())
}

// ------------------------------------------------------------------------------------------------
// Csr

type G<Ty, Ix> = Csr<i32, i32, Ty, Ix>;
type FromSorted<Ty, Ix> = fn(&[(Ix, Ix, i32)]) -> Result<G<Ty, Ix>, EdgesNotSorted>;

fn dump_csr<Ty: EdgeType, Ix: IndexType>(ctx: &mut Ctx, g: &G<Ty, Ix>) {
    dump_csr_as(ctx, g, "dump")
}

/// the full observation through the public API; every per-node reader is called with `Ix::new(i)`, `i` in `0..n`
/// (the identity within the capacity of the index type; beyond it — `obs` cases — the index wraps, and so does the mirror)
fn dump_csr_as<Ty: EdgeType, Ix: IndexType>(ctx: &mut Ctx, g: &G<Ty, Ix>, req: &str) {
    let r = catch(|| csr_dump_string(g));
    ctx.line(req, &or_panic(r));
}

/// the text of a `dump` answer (may panic where a reader panics)
fn csr_dump_string<Ty: EdgeType, Ix: IndexType>(g: &G<Ty, Ix>) -> String {
    {
        let n = g.node_count();
        let ix = |i: usize| Ix::new(i);
        let nw = list((0..n).map(|i| g[ix(i)]));
        let nids = list(g.node_identifiers().map(|x| x.index()));
        let nrefs = recs(g.node_references().map(|(i, w)| format!("{}:{}", i.index(), w)).collect());
        let nb = rows((0..n).map(|i| list(g.neighbors_slice(ix(i)).iter().map(|x| x.index()))).collect());
        let ew = rows((0..n).map(|i| list(g.edges_slice(ix(i)).iter())).collect());
        let deg = list((0..n).map(|i| g.out_degree(ix(i))));
        let ed = rows(
            (0..n)
                .map(|i| {
                    recs(g.edges(ix(i))
                        .map(|e| format!("{}:{}:{}:{}", e.id(), e.source().index(), e.target().index(), e.weight()))
                        .collect())
                })
                .collect(),
        );
        let er = recs(g.edge_references()
            .map(|e| format!("{}:{}:{}:{}", e.id(), e.source().index(), e.target().index(), e.weight()))
            .collect());
        format!(
            "n={} ec={} nw={} nids={} nrefs={} nb={} ew={} deg={} ed={} er={}",
            n,
            g.edge_count(),
            nw,
            nids,
            nrefs,
            nb,
            ew,
            deg,
            ed,
            er
        )
    }
}

fn crow<Ty: EdgeType, Ix: IndexType>(ctx: &mut Ctx, g: &G<Ty, Ix>, a: usize, kmax: usize) {
    let n = g.node_count();
    let hi = if kmax >= n { n + 1 } else { kmax + 1 };
    // the driver asks b in 0..=n; when n itself is not representable the row stops at kmax
    let r = catch(|| list((0..hi).filter(|&b| g.contains_edge(Ix::new(a), Ix::new(b)))));
    ctx.line(&format!("crow {}", a), &or_panic(r));
}

struct Args {
    kmax: usize,
}

impl Args {
    /// a node argument: in range with probability ~0.87, otherwise n, n+1.., or the largest index
    fn node(&self, rng: &mut Rng, n: usize) -> usize {
        let want_bad = n == 0 || rng.chance(13);
        if want_bad && n <= self.kmax {
            match rng.below(4) {
                0 | 1 => n,
                2 => (n + 1 + rng.below(3)).min(self.kmax),
                _ => self.kmax,
            }
        } else if n > 0 {
            rng.below(n)
        } else {
            0
        }
    }
}

fn edges_str(es: &[(usize, usize, i32)]) -> String {
    recs(es.iter().map(|(a, b, w)| format!("{}:{}:{}", a, b, w)).collect())
}

/// an edge list for `from_sorted_edges`: sorted and duplicate-free, then possibly damaged
fn gen_sorted(rng: &mut Rng, kmax: usize, big: bool) -> Vec<(usize, usize, i32)> {
    if rng.chance(6) {
        return vec![];
    }
    let n = if big { 34 + rng.below(10) } else { 1 + rng.below(8) }.min(kmax.saturating_add(1));
    let mut es: Vec<(usize, usize, i32)> = vec![];
    let dens = *rng.pick(&[10u32, 25, 50, 80]);
    let hub = rng.below(n);
    let hub_len = if big { *rng.pick(&[31usize, 32, 33, 40]) } else { 0 }.min(n);
    let mut hub_targets: Vec<usize> = (0..n).collect();
    rng.shuffle(&mut hub_targets);
    hub_targets.truncate(hub_len);
    for a in 0..n {
        for b in 0..n {
            let take = if big {
                (a == hub && hub_targets.contains(&b)) || (a != hub && rng.chance(3))
            } else {
                rng.chance(dens)
            };
            if take {
                es.push((a, b, rng.range(-3, 4) as i32));
            }
        }
    }
    if es.is_empty() {
        return es;
    }
    // damage
    match rng.below(10) {
        0 => {
            let i = rng.below(es.len());
            let mut d = es[i];
            d.2 = rng.range(-3, 4) as i32;
            es.insert(i + 1, d); // adjacent duplicate
        }
        1 => {
            let i = rng.below(es.len());
            let d = es[i];
            let j = rng.below(es.len() + 1);
            es.insert(j, d); // duplicate somewhere
        }
        2 => {
            if es.len() >= 2 {
                let i = rng.below(es.len() - 1);
                es.swap(i, i + 1); // adjacent swap
            }
        }
        3 => {
            let i = rng.below(es.len());
            let j = rng.below(es.len());
            es.swap(i, j);
        }
        4 => {
            es.reverse();
        }
        _ => {}
    }
    es
}

fn run_csr<Ty: EdgeType + std::fmt::Debug + Clone, Ix: IndexType>(
    ctx: &mut Ctx,
    rng: &mut Rng,
    case: u64,
    w: u32,
    from_sorted: Option<FromSorted<Ty, Ix>>,
) {
    let directed = Ty::is_directed();
    ctx.raw(&format!(
        "case {} csr {} w={} dbg={}",
        case,
        if directed { "dir" } else { "undir" },
        w,
        if cfg!(debug_assertions) { 1 } else { 0 }
    ));
    let kmax: usize = <Ix as IndexType>::max().index();
    let cap_nodes: usize = if w == 8 { 256 } else { usize::MAX };
    let args = Args { kmax };
    let thorough = ctx.tier_thorough;

    // ---- kind of case
    let kind = match rng.below(100) {
        0..=39 => 0,                          // small random history
        40..=71 => 1,                         // rows around the binary-search cut-off
        72..=91 => if directed { 2 } else { 0 }, // from_sorted_edges first
        _ => if w == 8 { 3 } else { 1 },      // u8: right at the capacity of the index type
    };

    // ---- constructor
    let mut g: G<Ty, Ix> = Csr::new();
    let mut constructed = false;
    if let (Some(fs), true) = (from_sorted, kind == 2 || (kind == 0 && rng.chance(15))) {
        // one or several constructions in a row; the last successful one is the graph the history continues on
        let tries = if kind == 2 { 1 + rng.below(4) } else { 1 };
        for _ in 0..tries {
            let big = kind == 2 && rng.chance(30);
            let es = gen_sorted(rng, kmax, big);
            let typed: Vec<(Ix, Ix, i32)> = es.iter().map(|&(a, b, w)| (Ix::new(a), Ix::new(b), w)).collect();
            match fs(&typed) {
                Ok(x) => {
                    ctx.line(&format!("from_sorted {}", edges_str(&es)), "ok");
                    g = x;
                    constructed = true;
                    dump_csr(ctx, &g);
                }
                Err(e) => {
                    // EdgesNotSorted { first_error: (a, b) }
                    let dbg = format!("{:?}", e);
                    let nums: Vec<&str> = dbg.split(|c: char| !c.is_ascii_digit()).filter(|s| !s.is_empty()).collect();
                    ctx.line(&format!("from_sorted {}", edges_str(&es)), &format!("err {}", nums.join(" ")));
                }
            }
        }
    }
    // planned insertions (hub rows), processed in `plan` order
    let mut plan: Vec<(usize, usize)> = vec![];
    let mut hubs: Vec<usize> = vec![];
    if !constructed {
        let n0 = match kind {
            1 => 41 + rng.below(6),
            3 => 250 + rng.below(7),
            _ => match rng.below(8) { 0 => 0, 1 => 1, _ => 2 + rng.below(7) },
        }
        .min(cap_nodes);
        match rng.below(3) {
            0 => {
                g = Csr::with_nodes(n0);
                ctx.line(&format!("with_nodes {}", n0), "ok");
            }
            1 => {
                ctx.line("new", "ok");
                for _ in 0..n0 {
                    let wt = rng.range(-2, 9) as i32;
                    let r = g.add_node(wt);
                    ctx.line(&format!("add_node {}", wt), &r.index().to_string());
                }
            }
            _ => {
                // Default + with_nodes of a part, the rest node by node later (add_node with edges present)
                let part = if n0 > 0 { rng.below(n0 + 1) } else { 0 };
                g = Csr::with_nodes(part);
                ctx.line(&format!("with_nodes {}", part), "ok");
                if kind != 0 {
                    for _ in part..n0 {
                        let wt = rng.range(-2, 9) as i32;
                        let r = g.add_node(wt);
                        ctx.line(&format!("add_node {}", wt), &r.index().to_string());
                    }
                }
            }
        }
        dump_csr(ctx, &g);
    }
    if kind == 1 || (kind == 3 && rng.chance(50)) {
        let n = g.node_count();
        let nh = 1 + rng.below(3);
        for _ in 0..nh {
            let hub = rng.below(n.max(1));
            let len = (*rng.pick(&[0usize, 1, 31, 31, 32, 32, 33, 33, 40, 40])).min(n);
            let mut ts: Vec<usize> = (0..n).collect();
            rng.shuffle(&mut ts);
            ts.truncate(len);
            match rng.below(5) {
                0 => ts.sort(),
                1 => { ts.sort(); ts.reverse(); }
                _ => {}
            }
            hubs.push(hub);
            for t in ts {
                // for Undirected the hub row also grows through the mirrored insert
                if !directed && rng.chance(50) { plan.push((t, hub)); } else { plan.push((hub, t)); }
            }
        }
        if rng.chance(60) {
            // interleave the hubs' insertions
            rng.shuffle(&mut plan);
        }
        plan.reverse(); // popped from the back
    }

    let nops = match kind {
        0 => 25 + rng.below(if thorough { 120 } else { 60 }),
        1 => plan.len() + 10 + rng.below(30),
        2 => 10 + rng.below(30),
        _ => plan.len() + 15 + rng.below(25),
    };
    let mut done: Vec<(usize, usize)> = vec![];
    for _ in 0..nops {
        let n = g.node_count();
        let mut mutating = false;
        // planned insertion?
        let planned = !plan.is_empty() && rng.chance(if kind == 0 { 0 } else { 72 });
        if planned {
            let (a, b) = plan.pop().unwrap();
            let wt = rng.range(-3, 4) as i32;
            if rng.chance(50) {
                let r = catch(|| g.add_edge(Ix::new(a), Ix::new(b), wt));
                ctx.line(&format!("add_edge {} {} {}", a, b, wt), &r.map(|v| v.to_string()).unwrap_or("panic".into()));
            } else {
                let r = match g.try_add_edge(Ix::new(a), Ix::new(b), wt) {
                    Ok(v) => format!("ok {}", v),
                    Err(petgraph::csr::CsrError::IndicesOutBounds(x, y)) => format!("err {} {}", x, y),
                };
                ctx.line(&format!("try_add_edge {} {} {}", a, b, wt), &r);
            }
            done.push((a, b));
            dump_csr(ctx, &g);
            for &h in &[a, b] {
                if hubs.contains(&h) {
                    let d = g.out_degree(Ix::new(h));
                    if (30..=34).contains(&d) || rng.chance(12) {
                        crow(ctx, &g, h, kmax);
                    }
                }
            }
            continue;
        }
        let k = rng.weighted(&[7, 26, 20, 2, 4, 2, 9, 3, 4, 2, 3, 4, 2, 4, 2, 6]);
        match k {
            0 => {
                if n < cap_nodes && (kind != 3 || rng.chance(60)) {
                    let wt = rng.range(-2, 9) as i32;
                    let r = g.add_node(wt);
                    ctx.line(&format!("add_node {}", wt), &r.index().to_string());
                    mutating = true;
                } else if n >= cap_nodes {
                    // full for the index type: the documented panic; the dump below observes "unchanged"
                    let wt = rng.range(-2, 9) as i32;
                    let r = catch(|| g.add_node(wt).index());
                    ctx.line(&format!("add_node {}", wt), &r.map(|x| x.to_string()).unwrap_or("panic".into()));
                    mutating = true;
                }
            }
            1 | 2 | 15 => {
                // k = 15: re-insert an edge that was inserted before (must answer false, nothing changes)
                let (a, b) = if k == 15 && !done.is_empty() {
                    let (x, y) = *rng.pick(&done);
                    if !directed && rng.chance(50) { (y, x) } else { (x, y) }
                } else if kind == 3 && rng.chance(50) && n > 0 {
                    // the top of the index range
                    (n - 1 - rng.below(n.min(3)), n - 1 - rng.below(n.min(3)))
                } else {
                    (args.node(rng, n), args.node(rng, n))
                };
                let wt = rng.range(-3, 4) as i32;
                if k == 1 || (k == 15 && rng.chance(50)) {
                    let r = catch(|| g.add_edge(Ix::new(a), Ix::new(b), wt));
                    ctx.line(&format!("add_edge {} {} {}", a, b, wt), &r.map(|v| v.to_string()).unwrap_or("panic".into()));
                } else {
                    let r = match g.try_add_edge(Ix::new(a), Ix::new(b), wt) {
                        Ok(v) => format!("ok {}", v),
                        Err(petgraph::csr::CsrError::IndicesOutBounds(x, y)) => format!("err {} {}", x, y),
                    };
                    ctx.line(&format!("try_add_edge {} {} {}", a, b, wt), &r);
                }
                if a < n && b < n {
                    done.push((a, b));
                }
                mutating = true;
            }
            3 => {
                if kind == 0 || rng.chance(15) {
                    g.clear_edges();
                    ctx.line("clear_edges", "ok");
                    done.clear();
                    mutating = true;
                }
            }
            4 => {
                let a = args.node(rng, n);
                let wt = rng.range(-2, 9) as i32;
                let r = catch(|| { g[Ix::new(a)] = wt; });
                ctx.line(&format!("set_weight {} {}", a, wt), if r.is_some() { "ok" } else { "panic" });
                mutating = true;
            }
            5 => {
                g = g.clone();
                ctx.line("clone", "ok");
                mutating = true;
            }
            6 => {
                let (a, b) = if !done.is_empty() && rng.chance(40) { *rng.pick(&done) } else { (args.node(rng, n), args.node(rng, n)) };
                let r = catch(|| g.contains_edge(Ix::new(a), Ix::new(b)));
                ctx.line(&format!("contains {} {}", a, b), &r.map(|v| v.to_string()).unwrap_or("panic".into()));
            }
            7 => {
                let a = args.node(rng, n);
                let r = catch(|| g.out_degree(Ix::new(a)));
                ctx.line(&format!("out_degree {}", a), &r.map(|v| v.to_string()).unwrap_or("panic".into()));
            }
            8 => {
                let a = args.node(rng, n);
                let r = catch(|| list(g.neighbors_slice(Ix::new(a)).iter().map(|x| x.index())));
                ctx.line(&format!("nslice {}", a), &or_panic(r));
            }
            9 => {
                let a = args.node(rng, n);
                let r = catch(|| list((&g).neighbors(Ix::new(a)).map(|x| x.index())));
                ctx.line(&format!("neighbors {}", a), &or_panic(r));
            }
            10 => {
                let a = args.node(rng, n);
                let r = catch(|| list(g.edges_slice(Ix::new(a)).iter()));
                ctx.line(&format!("eslice {}", a), &or_panic(r));
            }
            11 => {
                let a = args.node(rng, n);
                let r = catch(|| {
                    recs(IntoEdges::edges(&g, Ix::new(a))
                        .map(|e| format!("{}:{}:{}:{}", e.id(), e.source().index(), e.target().index(), e.weight()))
                        .collect())
                });
                ctx.line(&format!("edges {}", a), &or_panic(r));
            }
            12 => {
                let a = args.node(rng, n);
                let r = catch(|| g[Ix::new(a)]);
                ctx.line(&format!("index {}", a), &r.map(|v| v.to_string()).unwrap_or("panic".into()));
            }
            13 => {
                if n > 0 && n <= 64 {
                    let a = if !hubs.is_empty() && rng.chance(60) { *rng.pick(&hubs) } else { rng.below(n) };
                    if a < n {
                        crow(ctx, &g, a, kmax);
                    }
                }
            }
            _ => {
                dump_csr(ctx, &g);
            }
        }
        if mutating {
            dump_csr(ctx, &g);
            // the laws: always on a graph whose edges were just cleared, otherwise now and then mid-history
            if k == 3 || rng.chance(6) {
                csr_laws(ctx, rng, &g, &hubs);
            }
        }
    }
    // final observation: every row's contains_edge answers, then the full dump
    let n = g.node_count();
    if n <= 64 {
        for a in 0..n {
            crow(ctx, &g, a, kmax);
        }
    } else {
        for &h in &hubs {
            if h < n { crow(ctx, &g, h, kmax); }
        }
    }
    dump_csr(ctx, &g);
    csr_laws(ctx, rng, &g, &hubs);
    // finding D31 (fixed by 8cab180): beyond the index type's capacity `add_node` used to wrap silently
    // (`Ix::new(i)`); now it is the documented panic and the graph is unchanged.  Probe it at the end of some
    // u8 cases: fill up, call `add_node` on the full graph, observe the whole structure again, and check that
    // the graph is still usable at the top of the index range.
    if w == 8 && rng.chance(30) {
        while g.node_count() < 256 {
            let r = g.add_node(0);
            ctx.line("add_node 0", &r.index().to_string());
        }
        dump_csr(ctx, &g);
        for _ in 0..1 + rng.below(2) {
            let wt = rng.range(-2, 9) as i32;
            let r = catch(|| g.add_node(wt).index());
            ctx.line(&format!("add_node {}", wt), &r.map(|x| x.to_string()).unwrap_or("panic".into()));
            dump_csr(ctx, &g);
        }
        let (a, b) = (255 - rng.below(3), 255 - rng.below(3));
        let wt = rng.range(-3, 4) as i32;
        let r = match g.try_add_edge(Ix::new(a), Ix::new(b), wt) {
            Ok(v) => format!("ok {}", v),
            Err(petgraph::csr::CsrError::IndicesOutBounds(x, y)) => format!("err {} {}", x, y),
        };
        ctx.line(&format!("try_add_edge {} {} {}", a, b, wt), &r);
        dump_csr(ctx, &g);
        let r = catch(|| g.add_node(1).index());
        ctx.line("add_node 1", &r.map(|x| x.to_string()).unwrap_or("panic".into()));
        dump_csr(ctx, &g);
        // the laws on a graph that is full for its index type
        csr_laws(ctx, rng, &g, &hubs);
    }
}

// ------------------------------------------------------------------------------------------------
// adj::List

fn eix<Ix: IndexType>(e: &AEdgeIndex<Ix>) -> String {
    // `EdgeIndex { from: 0, successor_index: 12 }` — the fields are private
    let dbg = format!("{:?}", e);
    let nums: Vec<&str> = dbg.split(|c: char| !c.is_ascii_digit()).filter(|s| !s.is_empty()).collect();
    nums.join(":")
}

fn dump_list<Ix: IndexType>(ctx: &mut Ctx, g: &List<i32, Ix>, hs: &[AEdgeIndex<Ix>]) {
    let r = catch(|| list_dump_string(g, hs));
    ctx.line(&format!("dump {}", recs(hs.iter().map(eix).collect())), &or_panic(r));
}

/// the text of a `dump` answer (may panic where a reader panics)
fn list_dump_string<Ix: IndexType>(g: &List<i32, Ix>, hs: &[AEdgeIndex<Ix>]) -> String {
    {
        let n = g.node_count();
        let nids = list(g.node_indices().map(|x| x.index()));
        let ids = recs(g.edge_indices().map(|e| eix(&e)).collect());
        let er = recs(g.edge_references()
            .map(|e| format!("{}:{}:{}", eix(&e.id()), e.target().index(), e.weight()))
            .collect());
        let nb = rows((0..n).map(|a| list(g.neighbors(Ix::new(a)).map(|x| x.index()))).collect());
        let fr = rows((0..n).map(|a| recs(g.edge_indices_from(Ix::new(a)).map(|e| eix(&e)).collect())).collect());
        let ed = rows(
            (0..n)
                .map(|a| {
                    recs(IntoEdges::edges(g, Ix::new(a))
                        .map(|e| format!("{}:{}:{}", eix(&e.id()), e.target().index(), e.weight()))
                        .collect())
                })
                .collect(),
        );
        let h = recs(hs
            .iter()
            .map(|e| match (g.edge_endpoints(*e), g.edge_weight(*e)) {
                (Some((a, b)), Some(w)) => format!("{}:{}:{}", a.index(), b.index(), w),
                _ => "none".to_string(),
            })
            .collect());
        format!(
            "n={} ec={} nids={} eix={} er={} nb={} fr={} ed={} h={}",
            n,
            EdgeCount::edge_count(g),
            nids,
            ids,
            er,
            nb,
            fr,
            ed,
            h
        )
    }
}

fn run_list<Ix: IndexType>(ctx: &mut Ctx, rng: &mut Rng, case: u64, w: u32) {
    ctx.raw(&format!("case {} list w={}", case, w));
    let kmax: usize = <Ix as IndexType>::max().index();
    let cap_nodes: usize = if w == 8 { 256 } else { usize::MAX };
    let args = Args { kmax };
    let thorough = ctx.tier_thorough;
    let kind = match rng.below(100) {
        0..=59 => 0,                         // small random history, many parallel edges
        60..=84 => 1,                        // long rows
        _ => if w == 8 { 2 } else { 0 },     // u8: capacity of the index type
    };
    let mut g: List<i32, Ix> = if rng.chance(50) {
        ctx.line("new", "ok");
        List::new()
    } else {
        let k = rng.below(9);
        ctx.line(&format!("with_capacity {}", k), "ok");
        List::with_capacity(k)
    };
    // handles: every EdgeIndex handed out since the last clear; stale: handed out before it;
    // foreign: indices of another list (rows longer than anything here)
    let mut handles: Vec<AEdgeIndex<Ix>> = vec![];
    let mut stale: Vec<AEdgeIndex<Ix>> = vec![];
    let mut foreign: Vec<AEdgeIndex<Ix>> = vec![];
    {
        let mut other: List<i32, Ix> = List::new();
        for _ in 0..3 { other.add_node(); }
        for i in 0..6 { foreign.push(other.add_edge(Ix::new(i % 3), Ix::new(0), 0)); }
        let far = 7usize.min(kmax);
        let mut other2: List<i32, Ix> = List::new();
        for _ in 0..=far { other2.add_node(); }
        foreign.push(other2.add_edge(Ix::new(far), Ix::new(0), 0));
    }
    let pick_dump = |rng: &mut Rng, handles: &Vec<AEdgeIndex<Ix>>, stale: &Vec<AEdgeIndex<Ix>>, foreign: &Vec<AEdgeIndex<Ix>>| {
        let mut hs: Vec<AEdgeIndex<Ix>> = vec![];
        if handles.len() <= 40 {
            hs.extend(handles.iter().cloned());
        } else {
            for _ in 0..40 { hs.push(*rng.pick(handles)); }
        }
        for _ in 0..2 { if !stale.is_empty() { hs.push(*rng.pick(stale)); } }
        hs.push(*rng.pick(foreign));
        hs
    };
    let n0 = match kind { 0 => rng.below(6), 1 => 1 + rng.below(5), _ => 249 + rng.below(8) }.min(cap_nodes);
    for _ in 0..n0 {
        let r = g.add_node();
        ctx.line("add_node", &r.index().to_string());
    }
    {
        let hs = pick_dump(rng, &handles, &stale, &foreign);
        dump_list(ctx, &g, &hs);
    }
    let nops = match kind {
        0 => 25 + rng.below(if thorough { 140 } else { 70 }),
        1 => 60 + rng.below(60),
        _ => 20 + rng.below(30),
    };
    for _ in 0..nops {
        let n = g.node_count();
        let mut mutating = false;
        let pick_handle = |rng: &mut Rng| -> Option<AEdgeIndex<Ix>> {
            let r = rng.below(100);
            if r < 72 && !handles.is_empty() { Some(*rng.pick(&handles)) }
            else if r < 88 && !stale.is_empty() { Some(*rng.pick(&stale)) }
            else if r < 94 { Some(*rng.pick(&foreign)) }
            else if !handles.is_empty() { Some(*rng.pick(&handles)) }
            else { None }
        };
        // targets from a tiny range -> many parallel edges
        let tgt = |rng: &mut Rng, args: &Args| -> usize {
            if n > 0 && rng.chance(60) { rng.below(n.min(3)) } else { args.node(rng, n) }
        };
        let k = rng.weighted(&[7, 3, 24, 5, 18, 8, 1, 6, 5, 5, 4, 3, 3, 3, 1, 1, 2]);
        match k {
            0 => {
                if n < cap_nodes {
                    match rng.below(3) {
                        0 => { let r = g.add_node(); ctx.line("add_node", &r.index().to_string()); }
                        1 => { let c = rng.below(5); let r = g.add_node_with_capacity(c); ctx.line(&format!("add_node_cap {}", c), &r.index().to_string()); }
                        _ => { let r = Build::add_node(&mut g, ()); ctx.line("build_add_node", &r.index().to_string()); }
                    }
                    mutating = true;
                } else {
                    // full for the index type: the documented panic; the dump below observes "unchanged"
                    let v = rng.below(4);
                    full_add_node(ctx, rng, &mut g, v);
                    mutating = true;
                }
            }
            1 => {
                if n < cap_nodes && n <= kmax {
                    // successors among the existing nodes and the new node itself
                    let len = if rng.chance(15) { 33 + rng.below(8) } else { rng.below(5) };
                    let es: Vec<(usize, i32)> = (0..len).map(|_| (rng.below(n + 1), rng.range(-3, 4) as i32)).collect();
                    let r = g.add_node_from_edges(es.iter().map(|&(b, w)| (Ix::new(b), w)));
                    ctx.line(
                        &format!("add_node_from {}", recs(es.iter().map(|(b, w)| format!("{}:{}", b, w)).collect())),
                        &r.index().to_string(),
                    );
                    // their indices become known through find_edge / iteration
                    for e in g.edge_indices_from(r) { handles.push(e); }
                    mutating = true;
                }
            }
            2 | 3 | 4 => {
                let a = if kind == 1 && n > 0 && rng.chance(70) { 0 } else { args.node(rng, n) };
                let b = tgt(rng, &args);
                let wt = rng.range(-3, 4) as i32;
                let (name, r): (&str, Option<(AEdgeIndex<Ix>, String)>) = match k {
                    2 => ("add_edge", catch(|| g.add_edge(Ix::new(a), Ix::new(b), wt)).map(|e| (e, eix(&e)))),
                    3 => ("build_add_edge", catch(|| Build::add_edge(&mut g, Ix::new(a), Ix::new(b), wt)).map(|e| match e {
                        Some(e) => (e, format!("some {}", eix(&e))),
                        None => (foreign[0], "none".to_string()),
                    })),
                    _ => ("update_edge", catch(|| g.update_edge(Ix::new(a), Ix::new(b), wt)).map(|e| (e, eix(&e)))),
                };
                match r {
                    Some((e, s)) => {
                        ctx.line(&format!("{} {} {} {}", name, a, b, wt), &s);
                        if s != "none" && !handles.contains(&e) { handles.push(e); }
                    }
                    None => ctx.line(&format!("{} {} {} {}", name, a, b, wt), "panic"),
                }
                mutating = true;
            }
            5 => {
                if let Some(e) = pick_handle(rng) {
                    let wt = rng.range(-3, 4) as i32;
                    let r = match g.edge_weight_mut(e) {
                        Some(x) => { *x = wt; "ok" }
                        None => "none",
                    };
                    ctx.line(&format!("set_eweight {} {}", eix(&e), wt), r);
                    mutating = true;
                }
            }
            6 => {
                if kind != 2 || rng.chance(20) {
                    g.clear();
                    ctx.line("clear", "ok");
                    stale.extend(handles.drain(..));
                    if stale.len() > 50 { stale.truncate(50); }
                    mutating = true;
                }
            }
            7 => {
                let (a, b) = (args.node(rng, n), tgt(rng, &args));
                let r = g.find_edge(Ix::new(a), Ix::new(b));
                ctx.line(&format!("find_edge {} {}", a, b), &match r { Some(e) => format!("some {}", eix(&e)), None => "none".into() });
            }
            8 => {
                let (a, b) = (args.node(rng, n), tgt(rng, &args));
                ctx.line(&format!("contains {} {}", a, b), &g.contains_edge(Ix::new(a), Ix::new(b)).to_string());
            }
            9 => {
                if let Some(e) = pick_handle(rng) {
                    let r = g.edge_endpoints(e);
                    ctx.line(&format!("endpoints {}", eix(&e)), &match r { Some((a, b)) => format!("some {} {}", a.index(), b.index()), None => "none".into() });
                }
            }
            10 => {
                if let Some(e) = pick_handle(rng) {
                    ctx.line(&format!("eweight {}", eix(&e)), &opt(g.edge_weight(e)));
                }
            }
            11 => {
                let a = args.node(rng, n);
                let r = catch(|| recs(g.edge_indices_from(Ix::new(a)).map(|e| eix(&e)).collect()));
                ctx.line(&format!("from {}", a), &or_panic(r));
            }
            12 => {
                let a = args.node(rng, n);
                let r = catch(|| list(g.neighbors(Ix::new(a)).map(|x| x.index())));
                ctx.line(&format!("neighbors {}", a), &or_panic(r));
            }
            13 => {
                let a = args.node(rng, n);
                let r = catch(|| {
                    recs(IntoEdges::edges(&g, Ix::new(a))
                        .map(|e| format!("{}:{}:{}", eix(&e.id()), e.target().index(), e.weight()))
                        .collect())
                });
                ctx.line(&format!("edges {}", a), &or_panic(r));
            }
            14 => {
                let a = args.node(rng, n);
                ctx.line(&format!("node_weight {}", a), if g.node_weight(Ix::new(a)).is_some() { "some" } else { "none" });
                let _ = g.node_weight_mut(Ix::new(a));
            }
            15 => {
                g = g.clone();
                ctx.line("clone", "ok");
                mutating = true;
            }
            _ => {
                let hs = pick_dump(rng, &handles, &stale, &foreign);
                dump_list(ctx, &g, &hs);
            }
        }
        if mutating {
            let hs = pick_dump(rng, &handles, &stale, &foreign);
            dump_list(ctx, &g, &hs);
            // the laws: always on a list that was just cleared, otherwise now and then mid-history
            if k == 6 || rng.chance(6) {
                list_laws(ctx, rng, &g, &hs);
            }
        }
    }
    let hs = pick_dump(rng, &handles, &stale, &foreign);
    dump_list(ctx, &g, &hs);
    list_laws(ctx, rng, &g, &hs);
    // finding D31 (fixed by 8cab180, see run_csr): fill up, call every `add_node` variant on the full list
    // (documented panic), observe the whole structure after each, and check that the list is still usable
    if w == 8 && rng.chance(30) {
        while g.node_count() < 256 {
            let r = g.add_node();
            ctx.line("add_node", &r.index().to_string());
        }
        let hs = pick_dump(rng, &handles, &stale, &foreign);
        dump_list(ctx, &g, &hs);
        let mut order = [0usize, 1, 2, 3];
        rng.shuffle(&mut order);
        for &v in &order {
            full_add_node(ctx, rng, &mut g, v);
            let hs = pick_dump(rng, &handles, &stale, &foreign);
            dump_list(ctx, &g, &hs);
        }
        let (a, b) = (255 - rng.below(3), 255 - rng.below(3));
        let wt = rng.range(-3, 4) as i32;
        match catch(|| g.add_edge(Ix::new(a), Ix::new(b), wt)) {
            Some(e) => { ctx.line(&format!("add_edge {} {} {}", a, b, wt), &eix(&e)); handles.push(e); }
            None => ctx.line(&format!("add_edge {} {} {}", a, b, wt), "panic"),
        }
        let hs = pick_dump(rng, &handles, &stale, &foreign);
        dump_list(ctx, &g, &hs);
        full_add_node(ctx, rng, &mut g, 0);
        let hs = pick_dump(rng, &handles, &stale, &foreign);
        dump_list(ctx, &g, &hs);
        // the laws on a list that is full for its index type
        list_laws(ctx, rng, &g, &hs);
    }
}

/// one `add_node` variant on a list that may be full for its index type: the answer is the new index or `panic`
/// (`variant`: 0 `add_node`, 1 `add_node_with_capacity`, 2 `Build::add_node`, 3 `add_node_from_edges`)
fn full_add_node<Ix: IndexType>(ctx: &mut Ctx, rng: &mut Rng, g: &mut List<i32, Ix>, variant: usize) {
    let show = |r: Option<usize>| r.map(|x| x.to_string()).unwrap_or("panic".into());
    match variant {
        0 => {
            let r = catch(|| g.add_node().index());
            ctx.line("add_node", &show(r));
        }
        1 => {
            let c = rng.below(5);
            let r = catch(|| g.add_node_with_capacity(c).index());
            ctx.line(&format!("add_node_cap {}", c), &show(r));
        }
        2 => {
            let r = catch(|| Build::add_node(g, ()).index());
            ctx.line("build_add_node", &show(r));
        }
        _ => {
            // successors among the existing nodes only (the new node's own index is not representable)
            let n = g.node_count();
            let len = rng.below(4);
            let es: Vec<(usize, i32)> = (0..len).map(|_| (rng.below(n.max(1)), rng.range(-3, 4) as i32)).collect();
            let r = catch(|| g.add_node_from_edges(es.iter().map(|&(b, w)| (Ix::new(b), w))).index());
            ctx.line(
                &format!("add_node_from {}", recs(es.iter().map(|(b, w)| format!("{}:{}", b, w)).collect())),
                &show(r),
            );
        }
    }
}

// ------------------------------------------------------------------------------------------------
// recorded observation: `with_nodes(n)` beyond the capacity of the index type (u8)

/// `Csr::<_, _, Ty, u8>::with_nodes(n)`, `n > 256`: `with_nodes` does no capacity check, the nodes `256..n` cannot be
/// named.  Outside the property's quantifier (props/C05.json, `C05_csr_with_nodes_beyond_capacity`): every line is
/// prefixed `obs` — the driver compares it exactly with the mirror and judges nothing.  Node arguments are printed as
/// the index the API really receives (`Ix::new(u).index()` = `u mod 256`).
fn run_csr_obs<Ty: EdgeType>(ctx: &mut Ctx, rng: &mut Rng, case: u64) {
    type Ix = u8;
    let directed = Ty::is_directed();
    ctx.raw(&format!(
        "case {} csr {} w=8 dbg={}",
        case,
        if directed { "dir" } else { "undir" },
        if cfg!(debug_assertions) { 1 } else { 0 }
    ));
    let n = match rng.below(8) {
        0 => 257,
        1 => 258,
        2 => 300,
        3 => 511,
        4 => 512,
        5 => 513,
        _ => 257 + rng.below(344),
    };
    let mut g: G<Ty, Ix> = Csr::with_nodes(n);
    ctx.line(&format!("obs with_nodes {}", n), "ok");
    dump_csr_as(ctx, &g, "obs dump");
    let ix = |u: usize| <Ix as IndexType>::new(u);
    let nops = 12 + rng.below(25);
    for _ in 0..nops {
        // a node the caller would like to name: anywhere in 0..n+2, mostly in the part that wraps
        let node = |rng: &mut Rng| -> usize {
            match rng.below(4) {
                0 => rng.below(256),
                1 => 256 + rng.below(n - 256),
                2 => rng.below(8),
                _ => rng.below(n + 2),
            }
        };
        let mut mutating = false;
        match rng.weighted(&[30, 4, 3, 5, 3, 8, 6, 5, 5, 5, 5, 5]) {
            0 => {
                let (a, b) = (ix(node(rng)), ix(node(rng)));
                let wt = rng.range(-3, 4) as i32;
                if rng.chance(50) {
                    let r = catch(|| g.add_edge(a, b, wt));
                    ctx.line(&format!("obs add_edge {} {} {}", a.index(), b.index(), wt), &r.map(|v| v.to_string()).unwrap_or("panic".into()));
                } else {
                    let r = match g.try_add_edge(a, b, wt) {
                        Ok(v) => format!("ok {}", v),
                        Err(petgraph::csr::CsrError::IndicesOutBounds(x, y)) => format!("err {} {}", x, y),
                    };
                    ctx.line(&format!("obs try_add_edge {} {} {}", a.index(), b.index(), wt), &r);
                }
                mutating = true;
            }
            1 => {
                // more nodes than the index type has values: the capacity assert of add_node fires
                let wt = rng.range(-2, 9) as i32;
                let r = catch(|| g.add_node(wt).index());
                ctx.line(&format!("obs add_node {}", wt), &r.map(|x| x.to_string()).unwrap_or("panic".into()));
                mutating = true;
            }
            2 => {
                g.clear_edges();
                ctx.line("obs clear_edges", "ok");
                mutating = true;
            }
            3 => {
                let a = ix(node(rng));
                let wt = rng.range(-2, 9) as i32;
                let r = catch(|| { g[a] = wt; });
                ctx.line(&format!("obs set_weight {} {}", a.index(), wt), if r.is_some() { "ok" } else { "panic" });
                mutating = true;
            }
            4 => {
                g = g.clone();
                ctx.line("obs clone", "ok");
                mutating = true;
            }
            5 => {
                let (a, b) = (ix(node(rng)), ix(node(rng)));
                let r = catch(|| g.contains_edge(a, b));
                ctx.line(&format!("obs contains {} {}", a.index(), b.index()), &r.map(|v| v.to_string()).unwrap_or("panic".into()));
            }
            6 => {
                let a = ix(node(rng));
                let r = catch(|| g.out_degree(a));
                ctx.line(&format!("obs out_degree {}", a.index()), &r.map(|v| v.to_string()).unwrap_or("panic".into()));
            }
            7 => {
                let a = ix(node(rng));
                let r = catch(|| list(g.neighbors_slice(a).iter().map(|x| x.index())));
                ctx.line(&format!("obs nslice {}", a.index()), &or_panic(r));
            }
            8 => {
                let a = ix(node(rng));
                let r = catch(|| list(g.edges_slice(a).iter()));
                ctx.line(&format!("obs eslice {}", a.index()), &or_panic(r));
            }
            9 => {
                let a = ix(node(rng));
                let r = catch(|| {
                    recs(IntoEdges::edges(&g, a)
                        .map(|e| format!("{}:{}:{}:{}", e.id(), e.source().index(), e.target().index(), e.weight()))
                        .collect())
                });
                ctx.line(&format!("obs edges {}", a.index()), &or_panic(r));
            }
            10 => {
                let a = ix(node(rng));
                let r = catch(|| g[a]);
                ctx.line(&format!("obs index {}", a.index()), &r.map(|v| v.to_string()).unwrap_or("panic".into()));
            }
            _ => dump_csr_as(ctx, &g, "obs dump"),
        }
        if mutating {
            dump_csr_as(ctx, &g, "obs dump");
        }
    }
    dump_csr_as(ctx, &g, "obs dump");
}

// ------------------------------------------------------------------------------------------------
// `<[T]>::binary_search` itself (what `find_edge_pos` calls on rows of 32 and more entries)

/// sorted slices of 0–80 entries (lengths on both sides of the cut-off), strictly ascending (the shape of a `Csr`
/// row: exact comparison with the mirror's search) or with repeated entries (any matching position is allowed:
/// judged by the documented contract only); keys: hits, gaps, below the first and above the last entry.
/// Element types `u8` / `u32` / `usize` — the `NodeIndex<Ix>` instantiations `find_edge_pos` searches.
fn run_bsearch(ctx: &mut Ctx, rng: &mut Rng, case: u64) {
    ctx.raw(&format!("case {} bsearch", case));
    let nslices = 6 + rng.below(5);
    for _ in 0..nslices {
        let len = match rng.below(10) {
            0 => 0,
            1 => 1,
            2 => 2 + rng.below(3),
            3 => 31,
            4 => 32,
            5 => 33,
            6 => 80,
            _ => rng.below(81),
        };
        let strict = !rng.chance(25);
        // values: step 1 (dense, every key hits), small steps, or large steps (mostly misses)
        let step_max = *rng.pick(&[1usize, 2, 3, 3, 5]);
        let mut xs: Vec<usize> = Vec::with_capacity(len);
        let mut cur = rng.below(4);
        for _ in 0..len {
            let step = if strict { 1 + rng.below(step_max) } else { rng.below(step_max.max(2)) };
            cur += step;
            xs.push(cur);
        }
        let top = xs.last().copied().unwrap_or(3) + 3;
        let ety = if top <= 255 { rng.below(3) } else { 1 + rng.below(2) };
        let mut keys: Vec<usize> = vec![];
        if !xs.is_empty() {
            keys.push(xs[0]);
            keys.push(*xs.last().unwrap());
            keys.push(xs[0].saturating_sub(1));
            for _ in 0..4 { keys.push(*rng.pick(&xs)); }
        }
        keys.push(0);
        keys.push(top);
        for _ in 0..5 { keys.push(rng.below(top + 1)); }
        if len >= 31 && len <= 33 {
            // around the cut-off: every key
            keys = (0..=top).collect();
        }
        let shown = list(xs.iter());
        for x in keys {
            let r = match ety {
                0 => {
                    let v: Vec<u8> = xs.iter().map(|&y| y as u8).collect();
                    v.binary_search(&(x as u8))
                }
                1 => {
                    let v: Vec<u32> = xs.iter().map(|&y| y as u32).collect();
                    v.binary_search(&(x as u32))
                }
                _ => xs.binary_search(&x),
            };
            let ans = match r { Ok(i) => format!("ok {}", i), Err(i) => format!("err {}", i) };
            ctx.line(&format!("bsearch {} {}", shown, x), &ans);
        }
    }
}


// ------------------------------------------------------------------------------------------------
// wave 6: laws checked in the harness against the implementation itself (`law <name> => ok | VIOLATED <why>`;
// the driver expects `ok`).  Iterator laws (crate::iterlaws) on EVERY iterator of csr.rs / adj.rs — fresh and
// mid-iteration, on empty / full / cleared structures —, the visit-trait views against the inherent readers,
// `Visitable` (visit_map / reset_map on maps made for a smaller and a larger graph) incl. the `VisitMap` calls on
// the map type, `Clone` (incl. `clone_from` onto an arbitrary prior value), `Default`, `Debug`.

/// forwards EVERY consuming method to the wrapped iterator (so that an override of `nth`, `count`, `last`, `fold`,
/// `nth_back`, `rfold`, `len` in petgraph is really the code that runs) and maps the items to a comparable type
struct Fwd<I: Iterator, T> {
    it: I,
    f: fn(I::Item) -> T,
}

impl<I: Iterator + Clone, T> Clone for Fwd<I, T> {
    fn clone(&self) -> Self {
        Fwd { it: self.it.clone(), f: self.f }
    }
}

impl<I: Iterator, T> Iterator for Fwd<I, T> {
    type Item = T;
    fn next(&mut self) -> Option<T> {
        self.it.next().map(self.f)
    }
    fn nth(&mut self, n: usize) -> Option<T> {
        self.it.nth(n).map(self.f)
    }
    fn size_hint(&self) -> (usize, Option<usize>) {
        self.it.size_hint()
    }
    fn count(self) -> usize {
        self.it.count()
    }
    fn last(self) -> Option<T> {
        let f = self.f;
        self.it.last().map(f)
    }
    fn fold<B, H>(self, init: B, mut h: H) -> B
    where
        H: FnMut(B, T) -> B,
    {
        let f = self.f;
        self.it.fold(init, move |acc, x| h(acc, f(x)))
    }
}

impl<I: DoubleEndedIterator, T> DoubleEndedIterator for Fwd<I, T> {
    fn next_back(&mut self) -> Option<T> {
        self.it.next_back().map(self.f)
    }
    fn nth_back(&mut self, n: usize) -> Option<T> {
        self.it.nth_back(n).map(self.f)
    }
    fn rfold<B, H>(self, init: B, mut h: H) -> B
    where
        H: FnMut(B, T) -> B,
    {
        let f = self.f;
        self.it.rfold(init, move |acc, x| h(acc, f(x)))
    }
}

impl<I: ExactSizeIterator, T> ExactSizeIterator for Fwd<I, T> {
    fn len(&self) -> usize {
        self.it.len()
    }
}

fn steps_of(n: usize) -> Vec<usize> {
    let mut ks = vec![0, 1, n / 2, n.saturating_sub(1), n];
    ks.retain(|&k| k <= n);
    ks.sort();
    ks.dedup();
    ks
}

fn len_by_next<I: Iterator + Clone>(it: &I) -> usize {
    let mut c = it.clone();
    let mut n = 0;
    while c.next().is_some() {
        n += 1;
        if n > 1_000_000 {
            panic!("an iterator does not end");
        }
    }
    n
}

/// `iter_laws` on the fresh iterator and after 1, len/2, len-1, len calls of `next`
fn it_laws<I>(what: &str, it: I) -> Option<String>
where
    I: Iterator + Clone,
    I::Item: PartialEq + std::fmt::Debug,
{
    let n = len_by_next(&it);
    for k in steps_of(n) {
        let mut m = it.clone();
        for _ in 0..k {
            m.next();
        }
        if let Some(e) = iter_laws(m) {
            return Some(format!("{} after {} of {} items: {}", what, k, n, e));
        }
    }
    None
}

/// the double-ended and exact-size laws, fresh, after steps from the front, from the back and from both ends
fn it_laws_de_exact<I>(what: &str, it: I) -> Option<String>
where
    I: DoubleEndedIterator + ExactSizeIterator + Clone,
    I::Item: PartialEq + std::fmt::Debug,
{
    let n = len_by_next(&it);
    for k in steps_of(n) {
        for back in steps_of(n - k) {
            if back > 2 && back < n - k {
                continue;
            }
            let mut m = it.clone();
            for _ in 0..k {
                m.next();
            }
            for _ in 0..back {
                m.next_back();
            }
            if let Some(e) = iter_laws_de(m.clone()) {
                return Some(format!("{} after {} x next and {} x next_back of {} items: {}", what, k, back, n, e));
            }
            if let Some(e) = iter_laws_exact(m) {
                return Some(format!("{} after {} x next and {} x next_back of {} items: {}", what, k, back, n, e));
            }
        }
    }
    None
}

/// one protocol line `law <name> => ok | VIOLATED <why>`; a panic inside a law is a violation too
fn law(ctx: &mut Ctx, name: &str, f: impl FnOnce() -> Option<String>) {
    let r = match catch_msg(f) {
        Ok(r) => r,
        Err(m) => Some(format!("panic: {}", m.replace('\n', " "))),
    };
    ctx.line(&format!("law {}", name), &law_verdict(r));
}

/// the nodes the per-node laws look at: all of them on small graphs, otherwise the hubs, both ends and a sample
fn sample_nodes(rng: &mut Rng, n: usize, hubs: &[usize]) -> Vec<usize> {
    if n <= 12 {
        return (0..n).collect();
    }
    let mut v: Vec<usize> = hubs.iter().cloned().filter(|&h| h < n).collect();
    v.push(0);
    v.push(n - 1);
    for _ in 0..5 {
        v.push(rng.below(n));
    }
    v.sort();
    v.dedup();
    v
}

macro_rules! first_some {
    ($($e:expr),+ $(,)?) => {{
        let mut r: Option<String> = None;
        $( if r.is_none() { r = $e; } )+
        r
    }};
}

fn need(cond: bool, why: impl FnOnce() -> String) -> Option<String> {
    if cond { None } else { Some(why()) }
}

/// the `VisitMap` contract on a map handed out by `Visitable::visit_map` / repaired by `reset_map`
fn visit_map_laws<M: VisitMap<Ix>, Ix: IndexType>(m: &mut M, nodes: &[usize], n: usize) -> Option<String> {
    for i in 0..n {
        if m.is_visited(&Ix::new(i)) {
            return Some(format!("node {} is visited in a fresh / reset map", i));
        }
    }
    for &x in nodes {
        let ix = Ix::new(x);
        let others: Vec<bool> = (0..n).map(|i| m.is_visited(&Ix::new(i))).collect();
        if m.unvisit(ix) {
            return Some(format!("unvisit({}) = true on a node that is not visited", x));
        }
        if m.is_visited(&ix) {
            return Some(format!("unvisit({}) on a node that is not visited marks it visited", x));
        }
        if !m.visit(ix) {
            return Some(format!("first visit({}) = false", x));
        }
        if !m.is_visited(&ix) {
            return Some(format!("is_visited({}) = false after visit", x));
        }
        if m.visit(ix) {
            return Some(format!("second visit({}) = true", x));
        }
        if !m.unvisit(ix) {
            return Some(format!("unvisit({}) = false on a visited node", x));
        }
        if m.is_visited(&ix) {
            return Some(format!("is_visited({}) = true after unvisit", x));
        }
        if m.unvisit(ix) {
            return Some(format!("second unvisit({}) = true", x));
        }
        let after: Vec<bool> = (0..n).map(|i| m.is_visited(&Ix::new(i))).collect();
        if others != after {
            return Some(format!("visit / unvisit of {} changed the state of another node", x));
        }
        // leave every second one visited: the next rounds run on a partly filled map
        if x % 2 == 0 {
            m.visit(ix);
        }
    }
    None
}

fn cer<'a, Ty: EdgeType, Ix: IndexType>(e: petgraph::csr::EdgeReference<'a, i32, Ty, Ix>) -> (usize, usize, usize, i32) {
    (e.id(), e.source().index(), e.target().index(), *e.weight())
}

/// an arbitrary prior value for `clone_from`
fn some_csr<Ty: EdgeType, Ix: IndexType>(rng: &mut Rng, kmax: usize) -> G<Ty, Ix> {
    let k = match rng.below(4) { 0 => 0, 1 => 1, _ => 2 + rng.below(40) }.min(kmax);
    let mut a: G<Ty, Ix> = Csr::with_nodes(k);
    if k > 0 {
        for _ in 0..rng.below(2 * k + 1) {
            a.add_edge(Ix::new(rng.below(k)), Ix::new(rng.below(k)), rng.range(-3, 4) as i32);
        }
        a[Ix::new(rng.below(k))] = 7;
    }
    a
}

fn csr_laws<Ty: EdgeType + std::fmt::Debug + Clone, Ix: IndexType>(ctx: &mut Ctx, rng: &mut Rng, g: &G<Ty, Ix>, hubs: &[usize]) {
    let n = g.node_count();
    let kmax: usize = <Ix as IndexType>::max().index();
    let nodes = sample_nodes(rng, n, hubs);
    let ix = |i: usize| Ix::new(i);
    law(ctx, "iter csr.edges", || {
        for &a in &nodes {
            if let Some(e) = it_laws(&format!("edges({})", a), Fwd { it: g.edges(ix(a)), f: cer::<Ty, Ix> }) {
                return Some(e);
            }
            if let Some(e) = it_laws(&format!("IntoEdges::edges({})", a), Fwd { it: IntoEdges::edges(g, ix(a)), f: cer::<Ty, Ix> }) {
                return Some(e);
            }
        }
        None
    });
    law(ctx, "iter csr.edge_references", || {
        it_laws("edge_references()", Fwd { it: g.edge_references(), f: cer::<Ty, Ix> })
    });
    law(ctx, "iter csr.neighbors", || {
        for &a in &nodes {
            if let Some(e) = it_laws(&format!("neighbors({})", a), g.neighbors(ix(a))) {
                return Some(e);
            }
        }
        None
    });
    law(ctx, "iter csr.node_identifiers", || it_laws("node_identifiers()", g.node_identifiers()));
    law(ctx, "iter csr.node_references", || it_laws_de_exact("node_references()", g.node_references()));
    let small = n <= 64;
    law(ctx, "traits csr", || {
        first_some!(
            need(NodeCount::node_count(g) == n, || "NodeCount::node_count differs from node_count()".into()),
            need(EdgeCount::edge_count(g) == g.edge_count(), || "EdgeCount::edge_count differs from edge_count()".into()),
            need(NodeIndexable::node_bound(g) == n, || format!("node_bound = {} with {} nodes", NodeIndexable::node_bound(g), n)),
            need(GraphProp::is_directed(g) == Ty::is_directed() && g.is_directed() == Ty::is_directed(), || "is_directed differs from the edge type".into()),
            need(g.node_identifiers().map(|x| x.index()).collect::<Vec<_>>() == (0..n).collect::<Vec<_>>(), || "node_identifiers is not 0..node_count".into()),
            need(g.node_references().map(|r| (NodeRef::id(&r).index(), *NodeRef::weight(&r))).collect::<Vec<_>>()
                == (0..n).map(|i| (i, g[ix(i)])).collect::<Vec<_>>(), || "node_references differs from Index".into()),
            {
                let mut r = None;
                for &a in &nodes {
                    let nb: Vec<usize> = g.neighbors(ix(a)).map(|x| x.index()).collect();
                    let sl: Vec<usize> = g.neighbors_slice(ix(a)).iter().map(|x| x.index()).collect();
                    let ws: Vec<i32> = g.edges_slice(ix(a)).to_vec();
                    let ed: Vec<(usize, usize, i32)> = g.edges(ix(a)).map(|e| (e.source().index(), e.target().index(), *e.weight())).collect();
                    let want: Vec<(usize, usize, i32)> = sl.iter().zip(ws.iter()).map(|(&t, &w)| (a, t, w)).collect();
                    if nb != sl || ed != want || g.out_degree(ix(a)) != sl.len() || sl.len() != ws.len() {
                        r = Some(format!("node {}: neighbors {:?}, neighbors_slice {:?}, edges_slice {:?}, edges {:?}, out_degree {}", a, nb, sl, ws, ed, g.out_degree(ix(a))));
                        break;
                    }
                    if NodeIndexable::to_index(g, NodeIndexable::from_index(g, a)) != a || NodeIndexable::to_index(g, ix(a)) != a {
                        r = Some(format!("to_index / from_index are not inverse at {}", a));
                        break;
                    }
                }
                r
            },
            if small {
                // edge_references is the concatenation of the rows (ids, endpoints, weights)
                let all: Vec<(usize, usize, usize, i32)> = g.edge_references().map(cer::<Ty, Ix>).collect();
                let cat: Vec<(usize, usize, usize, i32)> = (0..n).flat_map(|a| g.edges(ix(a)).map(cer::<Ty, Ix>).collect::<Vec<_>>()).collect();
                need(all == cat, || format!("edge_references {:?} is not the concatenation of edges(a) {:?}", all, cat))
            } else { None },
            {
                let m = g.adjacency_matrix();
                let mut r = None;
                'o: for &a in &nodes {
                    for b in 0..n {
                        if !small && b % 7 != a % 7 { continue; }
                        let want = g.contains_edge(ix(a), ix(b));
                        if g.is_adjacent(&m, ix(a), ix(b)) != want {
                            r = Some(format!("is_adjacent({}, {}) = {} but contains_edge = {}", a, b, !want, want));
                            break 'o;
                        }
                    }
                }
                r
            }
        )
    });
    let (lo, hi) = (n / 2, (n + 5).min(kmax));
    law(ctx, "visitmap csr", || {
        let mut m = g.visit_map();
        first_some!(
            visit_map_laws::<_, Ix>(&mut m, &nodes, n),
            {
                // a map in use, reset for the same graph
                g.reset_map(&mut m);
                visit_map_laws::<_, Ix>(&mut m, &nodes, n)
            },
            {
                // a map made for a smaller graph
                let small_g: G<Ty, Ix> = Csr::with_nodes(lo);
                let mut m = small_g.visit_map();
                for i in 0..lo { m.visit(ix(i)); }
                g.reset_map(&mut m);
                visit_map_laws::<_, Ix>(&mut m, &nodes, n).map(|e| format!("reset_map of a map made for {} nodes: {}", lo, e))
            },
            {
                // a map made for a larger graph, bits beyond node_count set
                let big_g: G<Ty, Ix> = Csr::with_nodes(hi);
                let mut m = big_g.visit_map();
                for i in 0..hi { m.visit(ix(i)); }
                g.reset_map(&mut m);
                let stale = m.count_ones(..);
                first_some!(
                    need(stale == 0, || format!("reset_map of a map made for {} nodes leaves {} bits set", hi, stale)),
                    visit_map_laws::<_, Ix>(&mut m, &nodes, n).map(|e| format!("reset_map of a map made for {} nodes: {}", hi, e))
                )
            }
        )
    });
    let prior: G<Ty, Ix> = some_csr(rng, kmax);
    let extra = rng.range(-2, 9) as i32;
    law(ctx, "clone csr", || {
        let want = csr_dump_string(g);
        let c = g.clone();
        let mut a = prior;
        a.clone_from(g);
        let mut b: G<Ty, Ix> = Csr::new();
        b.clone_from(g);
        first_some!(
            need(csr_dump_string(&c) == want, || format!("clone() is observably different: {}", csr_dump_string(&c))),
            need(csr_dump_string(&a) == want, || format!("clone_from onto a prior value differs from clone(): {}", csr_dump_string(&a))),
            need(csr_dump_string(&b) == want, || format!("clone_from onto an empty graph differs from clone(): {}", csr_dump_string(&b))),
            {
                // clone, then mutate both: the two values are independent
                let mut c = c;
                let mut o = g.clone();
                let full = n > kmax;
                if !full { c.add_node(extra); }
                if n > 0 { o[ix(0)] = extra.wrapping_add(1); c.add_edge(ix(n - 1), ix(0), extra); }
                let mut r = need(csr_dump_string(g) == want, || "mutating a clone changed the original".into());
                if r.is_none() && !full {
                    r = need(o.node_count() == n && c.node_count() == n + 1, || "clones are not independent".into());
                }
                r
            }
        )
    });
    law(ctx, "default csr", || {
        let d: G<Ty, Ix> = Default::default();
        let w: G<Ty, Ix> = Csr::new();
        let z: G<Ty, Ix> = Csr::with_nodes(0);
        let mut d2: G<Ty, Ix> = Default::default();
        let mut w2: G<Ty, Ix> = Csr::new();
        for x in [&mut d2, &mut w2] {
            let a = x.add_node(1);
            let b = x.add_node(2);
            x.add_edge(a, b, 3);
        }
        first_some!(
            need(csr_dump_string(&d) == csr_dump_string(&w), || format!("Default::default() is not new(): {}", csr_dump_string(&d))),
            need(csr_dump_string(&z) == csr_dump_string(&w), || format!("with_nodes(0) is not new(): {}", csr_dump_string(&z))),
            need(csr_dump_string(&d2) == csr_dump_string(&w2), || format!("a graph grown from Default::default() differs: {}", csr_dump_string(&d2)))
        )
    });
    law(ctx, "debug csr", || {
        let mut total = 0usize;
        total += format!("{:?}", g).len() + format!("{:#?}", g).len();
        total += format!("{:?} {:?} {:?} {:?}", g.edge_references(), g.node_identifiers(), g.node_references(), g.visit_map()).len();
        for &a in nodes.iter().take(3) {
            let mut it = g.edges(ix(a));
            total += format!("{:?} {:#?} {:?}", it, g.neighbors(ix(a)), it.clone()).len();
            if let Some(e) = it.next() {
                let e2 = e; // EdgeReference is Copy
                total += format!("{:?} {:?}", e, e2.clone()).len();
                if e2.weight() != e.weight() || e2.id() != e.id() {
                    return Some("a copied EdgeReference differs".into());
                }
            }
        }
        let err = petgraph::csr::CsrError::IndicesOutBounds(n, n + 1);
        let shown = format!("{} / {:?}", err, err);
        total += shown.len();
        first_some!(
            need(total > 0, || "empty Debug output".into()),
            need(err == err.clone(), || "CsrError != its clone".into()),
            need(shown.contains(&n.to_string()), || format!("CsrError does not show its payload: {}", shown))
        )
    });
}

fn ler<'a, Ix: IndexType>(e: petgraph::adj::EdgeReference<'a, i32, Ix>) -> (usize, usize, usize, i32) {
    (e.source().index(), e.target().index(), {
        let s = eix(&e.id());
        s.split(':').nth(1).and_then(|x| x.parse().ok()).unwrap_or(usize::MAX)
    }, *e.weight())
}

fn some_list<Ix: IndexType>(rng: &mut Rng, kmax: usize) -> List<i32, Ix> {
    let k = match rng.below(4) { 0 => 0, 1 => 1, _ => 2 + rng.below(12) }.min(kmax);
    let mut a: List<i32, Ix> = List::new();
    for _ in 0..k { a.add_node(); }
    if k > 0 {
        for _ in 0..rng.below(3 * k + 1) {
            a.add_edge(Ix::new(rng.below(k)), Ix::new(rng.below(k)), rng.range(-3, 4) as i32);
        }
    }
    a
}

fn list_laws<Ix: IndexType>(ctx: &mut Ctx, rng: &mut Rng, g: &List<i32, Ix>, hs: &[AEdgeIndex<Ix>]) {
    let n = g.node_count();
    let kmax: usize = <Ix as IndexType>::max().index();
    let nodes = sample_nodes(rng, n, &[]);
    let ix = |i: usize| Ix::new(i);
    law(ctx, "iter list.edge_indices_from", || {
        for &a in &nodes {
            if let Some(e) = it_laws(&format!("edge_indices_from({})", a), g.edge_indices_from(ix(a))) { return Some(e); }
        }
        None
    });
    law(ctx, "iter list.neighbors", || {
        for &a in &nodes {
            if let Some(e) = it_laws_de_exact(&format!("neighbors({})", a), g.neighbors(ix(a))) { return Some(e); }
        }
        None
    });
    law(ctx, "iter list.edges", || {
        for &a in &nodes {
            if let Some(e) = it_laws(&format!("edges({})", a), IntoEdges::edges(g, ix(a))) { return Some(e); }
        }
        None
    });
    law(ctx, "iter list.edge_indices", || it_laws("edge_indices()", g.edge_indices()));
    law(ctx, "iter list.edge_references", || it_laws("edge_references()", g.edge_references()));
    law(ctx, "iter list.node_indices", || {
        first_some!(
            it_laws_de_exact("node_indices()", g.node_indices()),
            it_laws_de_exact("node_identifiers()", g.node_identifiers()),
            it_laws_de_exact("node_references()", g.node_references())
        )
    });
    let small = n <= 64;
    law(ctx, "traits list", || {
        let refs: Vec<(usize, usize, usize, i32)> = g.edge_references().map(ler::<Ix>).collect();
        first_some!(
            need(NodeCount::node_count(g) == n, || "NodeCount::node_count differs".into()),
            need(EdgeCount::edge_count(g) == g.edge_count() && g.edge_count() == refs.len(), || format!("edge_count = {} / {} but edge_references yields {}", g.edge_count(), EdgeCount::edge_count(g), refs.len())),
            need(NodeIndexable::node_bound(g) == n, || format!("node_bound = {} with {} nodes", NodeIndexable::node_bound(g), n)),
            need(GraphProp::is_directed(g), || "is_directed() = false".into()),
            need(g.node_identifiers().map(|x| x.index()).collect::<Vec<_>>() == (0..n).collect::<Vec<_>>(), || "node_identifiers is not 0..node_count".into()),
            need(g.node_references().map(|r| { let () = *NodeRef::weight(&r); NodeRef::id(&r).index() }).collect::<Vec<_>>() == (0..n).collect::<Vec<_>>(), || "node_references is not 0..node_count".into()),
            {
                // the edge indices of the whole graph name exactly the edge references, in the same order
                let ids: Vec<AEdgeIndex<Ix>> = g.edge_indices().collect();
                let mut r = need(ids.len() == refs.len(), || format!("edge_indices yields {} indices, edge_references {} edges", ids.len(), refs.len()));
                if r.is_none() {
                    for (e, rf) in ids.iter().zip(g.edge_references()) {
                        let ok = e == &rf.id()
                            && g.edge_endpoints(*e) == Some((rf.source(), rf.target()))
                            && g.edge_weight(*e) == Some(rf.weight());
                        if !ok {
                            r = Some(format!("edge index {} does not name the edge reference {:?}", eix(e), ler::<Ix>(rf)));
                            break;
                        }
                    }
                }
                r
            },
            {
                let mut r = None;
                for &a in &nodes {
                    let nb: Vec<usize> = g.neighbors(ix(a)).map(|x| x.index()).collect();
                    let ed: Vec<(usize, usize, usize, i32)> = IntoEdges::edges(g, ix(a)).map(ler::<Ix>).collect();
                    let of_a: Vec<(usize, usize, usize, i32)> = refs.iter().cloned().filter(|r| r.0 == a).collect();
                    let fr: Vec<AEdgeIndex<Ix>> = g.edge_indices_from(ix(a)).collect();
                    let fr_ok = fr.len() == ed.len() && fr.iter().zip(IntoEdges::edges(g, ix(a))).all(|(e, rf)| *e == rf.id());
                    if ed != of_a || nb != ed.iter().map(|r| r.1).collect::<Vec<_>>() || !fr_ok {
                        r = Some(format!("node {}: neighbors {:?}, edges {:?}, edge_references of it {:?}, edge_indices_from {:?}", a, nb, ed, of_a, fr.iter().map(eix).collect::<Vec<_>>()));
                        break;
                    }
                    if NodeIndexable::to_index(g, NodeIndexable::from_index(g, a)) != a {
                        r = Some(format!("to_index / from_index are not inverse at {}", a));
                        break;
                    }
                    if g.node_weight(ix(a)).is_none() {
                        r = Some(format!("node_weight({}) = None on an existing node", a));
                        break;
                    }
                }
                r
            },
            need(g.node_weight(ix(n.min(kmax))).is_none() || n > kmax, || "node_weight(node_count) is Some".into()),
            {
                let m = g.adjacency_matrix();
                let mut r = None;
                'o: for &a in &nodes {
                    for b in 0..n {
                        if !small && b % 7 != a % 7 { continue; }
                        let want = g.contains_edge(ix(a), ix(b));
                        if g.is_adjacent(&m, ix(a), ix(b)) != want || g.find_edge(ix(a), ix(b)).is_some() != want {
                            r = Some(format!("contains_edge({}, {}) = {}, is_adjacent = {}, find_edge = {:?}", a, b, want, g.is_adjacent(&m, ix(a), ix(b)), g.find_edge(ix(a), ix(b)).map(|e| eix(&e))));
                            break 'o;
                        }
                    }
                }
                r
            }
        )
    });
    let (lo, hi) = (n / 2, (n + 5).min(kmax));
    law(ctx, "visitmap list", || {
        let mut m = g.visit_map();
        let mk = |k: usize| { let mut l: List<i32, Ix> = List::new(); for _ in 0..k { l.add_node(); } l };
        first_some!(
            visit_map_laws::<_, Ix>(&mut m, &nodes, n),
            {
                g.reset_map(&mut m);
                visit_map_laws::<_, Ix>(&mut m, &nodes, n)
            },
            {
                let mut m = mk(lo).visit_map();
                for i in 0..lo { m.visit(ix(i)); }
                g.reset_map(&mut m);
                visit_map_laws::<_, Ix>(&mut m, &nodes, n).map(|e| format!("reset_map of a map made for {} nodes: {}", lo, e))
            },
            {
                let mut m = mk(hi).visit_map();
                for i in 0..hi { m.visit(ix(i)); }
                g.reset_map(&mut m);
                let stale = m.count_ones(..);
                first_some!(
                    need(stale == 0, || format!("reset_map of a map made for {} nodes leaves {} bits set", hi, stale)),
                    visit_map_laws::<_, Ix>(&mut m, &nodes, n).map(|e| format!("reset_map of a map made for {} nodes: {}", hi, e))
                )
            }
        )
    });
    let prior: List<i32, Ix> = some_list(rng, kmax);
    let cap = rng.below(9);
    law(ctx, "clone list", || {
        let want = list_dump_string(g, hs);
        let c = g.clone();
        let mut a = prior;
        a.clone_from(g);
        let mut b: List<i32, Ix> = List::new();
        b.clone_from(g);
        first_some!(
            need(list_dump_string(&c, hs) == want, || format!("clone() is observably different: {}", list_dump_string(&c, hs))),
            need(list_dump_string(&a, hs) == want, || format!("clone_from onto a prior value differs from clone(): {}", list_dump_string(&a, hs))),
            need(list_dump_string(&b, hs) == want, || format!("clone_from onto an empty list differs from clone(): {}", list_dump_string(&b, hs))),
            {
                let mut c = c;
                if n > 0 { c.add_edge(ix(n - 1), ix(0), 9); }
                if n <= kmax { c.add_node(); }
                need(list_dump_string(g, hs) == want, || "mutating a clone changed the original".into())
            }
        )
    });
    law(ctx, "default list", || {
        let d: List<i32, Ix> = Default::default();
        let w: List<i32, Ix> = List::new();
        let z: List<i32, Ix> = List::with_capacity(cap);
        let mut d2: List<i32, Ix> = Default::default();
        let mut w2: List<i32, Ix> = List::new();
        let mut hs2 = vec![];
        for x in [&mut d2, &mut w2] {
            let a = x.add_node();
            let b = x.add_node_with_capacity(cap);
            hs2.push(x.add_edge(a, b, 3));
            hs2.push(x.add_edge(a, b, 4));
        }
        first_some!(
            need(list_dump_string(&d, &[]) == list_dump_string(&w, &[]), || format!("Default::default() is not new(): {}", list_dump_string(&d, &[]))),
            need(list_dump_string(&z, &[]) == list_dump_string(&w, &[]), || format!("with_capacity({}) is not new(): {}", cap, list_dump_string(&z, &[]))),
            need(list_dump_string(&d2, &hs2) == list_dump_string(&w2, &hs2), || format!("a list grown from Default::default() differs: {}", list_dump_string(&d2, &hs2)))
        )
    });
    law(ctx, "debug list", || {
        let shown = format!("{:?}", g);
        let mut total = shown.len() + format!("{:#?}", g).len();
        total += format!("{:?} {:#?} {:?} {:?} {:?}", g.edge_references(), g.edge_references(), g.edge_indices(), g.node_indices(), g.visit_map()).len();
        for &a in nodes.iter().take(3) {
            total += format!("{:?} {:?} {:?}", g.neighbors(ix(a)), g.edge_indices_from(ix(a)), IntoEdges::edges(g, ix(a))).len();
            if let Some(e) = IntoEdges::edges(g, ix(a)).next() {
                let e2 = e;
                total += format!("{:?} {:?}", e, e.id()).len();
                if e2 != e.clone() { return Some("a copied EdgeReference differs".into()); }
            }
        }
        // the unit-weight instantiation takes the other branch of `Debug for EdgeReferences`
        let mut u: List<(), Ix> = List::new();
        for _ in 0..n.min(6) { u.add_node(); }
        for (s, t, _, _) in g.edge_references().map(ler::<Ix>).filter(|r| r.0 < 6 && r.1 < 6) { u.add_edge(ix(s), ix(t), ()); }
        let ushown = format!("{:?}", u);
        total += ushown.len() + format!("{:#?}", u).len();
        first_some!(
            need(total > 0, || "empty Debug output".into()),
            need(shown.contains(&format!("node_count: {}", n)) && shown.contains(&format!("edge_count: {}", g.edge_count())), || format!("Debug does not show the counts: {}", shown)),
            need(ushown.contains(&format!("edge_count: {}", u.edge_count())), || format!("Debug of the unit-weight list does not show the counts: {}", ushown))
        )
    });
}

pub fn run(ctx: &mut Ctx, case: u64) {
    // a panic outside the per-call `catch`es is a harness bug (or an implementation panic in a place
    // where none is possible): report it instead of dying silently
    if let Err(m) = catch_msg(|| run_inner(ctx, case)) {
        ctx.line("harness-panic", &m.replace('\n', " "));
    }
}

fn run_inner(ctx: &mut Ctx, case: u64) {
    let mut rng = Rng::for_case(ctx.seed, "C05", case);
    let fs8: FromSorted<Directed, u8> = |e| Csr::from_sorted_edges(e);
    let fs16: FromSorted<Directed, u16> = |e| Csr::from_sorted_edges(e);
    let fs32: FromSorted<Directed, u32> = |e| Csr::from_sorted_edges(e);
    let fs64: FromSorted<Directed, usize> = |e| Csr::from_sorted_edges(e);
    // the two extra kinds take fixed residues of the case number (2.5 % of the cases each), so every other case
    // is generated exactly as before
    match case % 40 {
        13 => return run_bsearch(ctx, &mut rng, case),
        27 => {
            return if (case / 40) % 2 == 0 {
                run_csr_obs::<Directed>(ctx, &mut rng, case)
            } else {
                run_csr_obs::<Undirected>(ctx, &mut rng, case)
            }
        }
        _ => {}
    }
    match rng.below(12) {
        0 => run_csr::<Directed, u8>(ctx, &mut rng, case, 8, Some(fs8)),
        1 => run_csr::<Directed, u16>(ctx, &mut rng, case, 16, Some(fs16)),
        2 => run_csr::<Directed, u32>(ctx, &mut rng, case, 32, Some(fs32)),
        3 => run_csr::<Directed, usize>(ctx, &mut rng, case, 64, Some(fs64)),
        4 => run_csr::<Undirected, u8>(ctx, &mut rng, case, 8, None),
        5 => run_csr::<Undirected, u16>(ctx, &mut rng, case, 16, None),
        6 => run_csr::<Undirected, u32>(ctx, &mut rng, case, 32, None),
        7 => run_csr::<Undirected, usize>(ctx, &mut rng, case, 64, None),
        8 => run_list::<u8>(ctx, &mut rng, case, 8),
        9 => run_list::<u16>(ctx, &mut rng, case, 16),
        10 => run_list::<u32>(ctx, &mut rng, case, 32),
        _ => run_list::<usize>(ctx, &mut rng, case, 64),
    }
}
