//! C11 — bellman_ford, find_negative_cycle (f64 via FloatMeasure), spfa, floyd_warshall,
//! floyd_warshall_path (i32 / i64 / f64 via BoundedMeasure) on every storage type whose trait
//! bounds admit the call, with mixed-sign, tie-heavy, integer-valued costs.
//!
//! One concrete graph per case; its edge weights are `f64` (integer-valued); the bounded-measure
//! algorithms get their cost type through the `edge_cost` closure.  Answers are printed in abstract
//! node ids:
//!   bf <s>        => ok a:d:p,a:d:p,…      (d = `i` for +inf, p = `x` for None)   | err | panic
//!   fnc <s>       => some a,b,c|<bf> / none|<bf>   (<bf> = ok|err: what bellman_ford answers)
//!   spfa <ty> <s> => ok a:d:p,…            (d = `i` for K::max())                  | err | panic
//!   fw <ty>       => ok u.v:d,…            | err
//!   fwp <ty>      => ok u.v:d:p,…          (p = prev[u][v] mapped to abstract ids) | err
use crate::common::*;
use crate::graphs::*;
use crate::rng::Rng;
use petgraph::adj::List;
use petgraph::algo::floyd_warshall::floyd_warshall_path;
use petgraph::algo::{bellman_ford, find_negative_cycle, floyd_warshall, spfa, BoundedMeasure};
use petgraph::csr::Csr;
use petgraph::graphmap::GraphMap;
use petgraph::matrix_graph::MatrixGraph;
use petgraph::visit::{
    EdgeRef, GraphProp, IntoEdgeReferences, IntoEdges, IntoNodeIdentifiers, NodeCompactIndexable, NodeCount,
    NodeIndexable, Visitable,
};
use petgraph::{Directed, EdgeType, Undirected};
use std::hash::Hash;

/// the three cost types the bounded-measure algorithms are exercised with
trait Cost: BoundedMeasure + Copy + PartialEq {
    const NAME: &'static str;
    fn of(x: f64) -> Self;
    fn show(self) -> String;
}
impl Cost for i32 {
    const NAME: &'static str = "i32";
    fn of(x: f64) -> i32 { x as i32 }
    fn show(self) -> String { if self == i32::MAX { "i".into() } else { self.to_string() } }
}
impl Cost for i64 {
    const NAME: &'static str = "i64";
    fn of(x: f64) -> i64 { x as i64 }
    fn show(self) -> String { if self == i64::MAX { "i".into() } else { self.to_string() } }
}
impl Cost for f64 {
    const NAME: &'static str = "f64";
    fn of(x: f64) -> f64 { x }
    fn show(self) -> String { show_f(self, f64::MAX) }
}

/// floats are only ever produced from small integers: print them as integers, anything else is
/// printed so that the driver cannot parse it (and reports it)
fn show_f(x: f64, inf: f64) -> String {
    if x == inf {
        "i".into()
    } else if x.fract() == 0.0 && x.abs() < 9.0e15 {
        format!("{}", x as i64)
    } else {
        format!("?{:e}", x)
    }
}

fn show_pred(p: Option<usize>) -> String {
    match p {
        Some(x) => x.to_string(),
        None => "x".into(),
    }
}

/// bellman_ford + find_negative_cycle (FloatMeasure: the graph's own f64 weights)
fn calls_float<G>(ctx: &mut Ctx, g: G, n: usize, abs: &dyn Fn(G::NodeId) -> usize, conc: &dyn Fn(usize) -> G::NodeId, sources: &[usize])
where
    G: NodeCount + IntoNodeIdentifiers + IntoEdges<EdgeWeight = f64> + NodeIndexable + Visitable + Copy,
{
    for &s in sources {
        let r = catch(|| match bellman_ford(g, conc(s)) {
            Ok(p) => {
                let items: Vec<String> = (0..n)
                    .map(|a| {
                        let i = g.to_index(conc(a));
                        format!("{}:{}:{}", a, show_f(p.distances[i], f64::INFINITY), show_pred(p.predecessors[i].map(abs)))
                    })
                    .collect();
                format!("ok {}", list(items))
            }
            Err(_) => "err".to_string(),
        });
        let bf = r.unwrap_or("panic".into());
        ctx.line(&format!("bf {}", s), &bf);
        let bfword = bf.split(' ').next().unwrap_or("panic").to_string();
        let r = catch(|| match find_negative_cycle(g, conc(s)) {
            Some(seq) => format!("some {}", list(seq.into_iter().map(abs))),
            None => "none".to_string(),
        });
        ctx.line(&format!("fnc {}", s), &format!("{}|{}", r.unwrap_or("panic".into()), bfword));
    }
}

/// spfa with cost type K
fn call_spfa<G, K: Cost>(ctx: &mut Ctx, g: G, n: usize, abs: &dyn Fn(G::NodeId) -> usize, conc: &dyn Fn(usize) -> G::NodeId, s: usize)
where
    G: IntoNodeIdentifiers + IntoEdges<EdgeWeight = f64> + NodeIndexable + Copy,
{
    let r = catch(|| match spfa(g, conc(s), |e| K::of(*e.weight())) {
        Ok(p) => {
            let items: Vec<String> = (0..n)
                .map(|a| {
                    let i = g.to_index(conc(a));
                    format!("{}:{}:{}", a, p.distances[i].show(), show_pred(p.predecessors[i].map(abs)))
                })
                .collect();
            format!("ok {}", list(items))
        }
        Err(_) => "err".to_string(),
    });
    ctx.line(&format!("spfa {} {}", K::NAME, s), &r.unwrap_or("panic".into()));
}

fn calls_spfa<G>(ctx: &mut Ctx, g: G, n: usize, abs: &dyn Fn(G::NodeId) -> usize, conc: &dyn Fn(usize) -> G::NodeId, sources: &[usize])
where
    G: IntoNodeIdentifiers + IntoEdges<EdgeWeight = f64> + NodeIndexable + Copy,
{
    for &s in sources {
        call_spfa::<G, i32>(ctx, g, n, abs, conc, s);
        call_spfa::<G, i64>(ctx, g, n, abs, conc, s);
        call_spfa::<G, f64>(ctx, g, n, abs, conc, s);
    }
}

fn call_fw<G, K: Cost>(ctx: &mut Ctx, g: G, n: usize, abs: &dyn Fn(G::NodeId) -> usize, conc: &dyn Fn(usize) -> G::NodeId)
where
    G: NodeCompactIndexable + IntoEdgeReferences<EdgeWeight = f64> + IntoNodeIdentifiers + GraphProp + Copy,
    G::NodeId: Eq + Hash,
{
    let r = catch(|| match floyd_warshall(g, |e| K::of(*e.weight())) {
        Ok(m) => {
            let mut items = Vec::new();
            for u in 0..n {
                for v in 0..n {
                    items.push(match m.get(&(conc(u), conc(v))) {
                        Some(d) => format!("{}.{}:{}", u, v, d.show()),
                        None => format!("{}.{}:missing", u, v),
                    });
                }
            }
            if m.len() != n * n {
                items.push(format!("len{}", m.len()));
            }
            format!("ok {}", list(items))
        }
        Err(_) => "err".to_string(),
    });
    ctx.line(&format!("fw {}", K::NAME), &r.unwrap_or("panic".into()));
    let r = catch(|| match floyd_warshall_path(g, |e| K::of(*e.weight())) {
        Ok((m, prev)) => {
            let mut items = Vec::new();
            for u in 0..n {
                for v in 0..n {
                    let (iu, iv) = (g.to_index(conc(u)), g.to_index(conc(v)));
                    let p = prev[iu][iv].map(|k| abs(g.from_index(k)));
                    items.push(match m.get(&(conc(u), conc(v))) {
                        Some(d) => format!("{}.{}:{}:{}", u, v, d.show(), show_pred(p)),
                        None => format!("{}.{}:missing", u, v),
                    });
                }
            }
            if m.len() != n * n || prev.len() != n || prev.iter().any(|r| r.len() != n) {
                items.push("shape".to_string());
            }
            format!("ok {}", list(items))
        }
        Err(_) => "err".to_string(),
    });
    ctx.line(&format!("fwp {}", K::NAME), &r.unwrap_or("panic".into()));
}

fn calls_fw<G>(ctx: &mut Ctx, g: G, n: usize, abs: &dyn Fn(G::NodeId) -> usize, conc: &dyn Fn(usize) -> G::NodeId)
where
    G: NodeCompactIndexable + IntoEdgeReferences<EdgeWeight = f64> + IntoNodeIdentifiers + GraphProp + Copy,
    G::NodeId: Eq + Hash,
{
    call_fw::<G, i32>(ctx, g, n, abs, conc);
    call_fw::<G, i64>(ctx, g, n, abs, conc);
    call_fw::<G, f64>(ctx, g, n, abs, conc);
}

// ------------------------------------------------------------------------------------------------
// f64-weighted twins of the encoders of graphs.rs that have no `map` (same construction histories)

fn enc_matrix_f<Ty: EdgeType>(rng: &mut Rng, ag: &AG, node_order: &[usize], edge_order: &[usize]) -> MatrixGraph<usize, f64, std::collections::hash_map::RandomState, Ty> {
    let mut g = MatrixGraph::<usize, f64, std::collections::hash_map::RandomState, Ty>::with_capacity(rng.below(5));
    let mut cidx = vec![Default::default(); ag.n];
    let mut dummies = Vec::new();
    for &a in node_order {
        if rng.chance(35) {
            dummies.push(g.add_node(usize::MAX));
        }
        cidx[a] = g.add_node(a);
    }
    for d in dummies {
        g.remove_node(d);
    }
    for &k in edge_order {
        let (a, b, w) = ag.edges[k];
        g.add_edge(cidx[a], cidx[b], w as f64);
    }
    g
}

fn enc_map_f<Ty: EdgeType>(ag: &AG, node_order: &[usize], edge_order: &[usize]) -> GraphMap<usize, f64, Ty> {
    let mut g = GraphMap::<usize, f64, Ty>::new();
    for &a in node_order {
        g.add_node(a);
    }
    for &k in edge_order {
        let (a, b, w) = ag.edges[k];
        g.add_edge(a, b, w as f64);
    }
    g
}

fn enc_csr_f<Ty: EdgeType>(ag: &AG, node_order: &[usize], edge_order: &[usize]) -> Csr<usize, f64, Ty> {
    let mut g = Csr::<usize, f64, Ty>::new();
    let mut cidx = vec![0u32; ag.n];
    for &a in node_order {
        cidx[a] = g.add_node(a);
    }
    for &k in edge_order {
        let (a, b, w) = ag.edges[k];
        g.add_edge(cidx[a], cidx[b], w as f64);
    }
    g
}

fn enc_list_f(ag: &AG, node_order: &[usize], edge_order: &[usize]) -> List<f64> {
    let mut g = List::<f64>::new();
    let mut cidx = vec![0u32; ag.n];
    for &a in node_order {
        cidx[a] = g.add_node();
    }
    for &k in edge_order {
        let (a, b, w) = ag.edges[k];
        g.add_edge(cidx[a], cidx[b], w as f64);
    }
    g
}

macro_rules! with_ty {
    ($directed:expr, $f:ident, $($args:expr),*) => {
        if $directed { $f::<Directed>($($args),*) } else { $f::<Undirected>($($args),*) }
    };
}

fn case_ty<Ty: EdgeType>(ctx: &mut Ctx, rng: &mut Rng, ag: &AG, sources: &[usize], hint: &Option<Vec<usize>>) {
    let n = ag.n;
    let mut node_order = random_perm(rng, n);
    let mut edge_order = random_perm(rng, ag.edges.len());
    if let Some(ord) = hint {
        // monotone insertion (either direction) of nodes and edges
        node_order = ord.clone();
        edge_order = (0..ag.edges.len()).collect();
        if rng.chance(50) { node_order.reverse(); }
        if rng.chance(50) { edge_order.reverse(); }
    }
    let mut inv = vec![0usize; n];
    for (i, &a) in node_order.iter().enumerate() {
        inv[a] = i;
    }
    let simple = ag.is_simple();
    let mut choices = vec![0, 0, 1, 2, 2];
    if simple {
        choices.extend([3, 4, 4, 5, 5]);
        if ag.directed {
            choices.extend([6, 6]);
        }
    }
    match *rng.pick(&choices) {
        0 => {
            let e = enc_graph::<Ty, u32>(ag, &node_order, &edge_order);
            let g0 = e.g.map(|_, a| *a, |_, w| *w as f64);
            let g = &g0;
            let abs = |x: petgraph::graph::NodeIndex<u32>| g[x];
            let conc = |a: usize| petgraph::graph::NodeIndex::<u32>::new(inv[a]);
            ctx.line(&view_line(ag, g, &abs, &|er, _| e.eid[EdgeRef::id(&er).index()]), "ok");
            calls_float(ctx, g, n, &abs, &conc, sources);
            calls_spfa(ctx, g, n, &abs, &conc, sources);
            calls_fw(ctx, g, n, &abs, &conc);
        }
        1 => {
            let e = enc_graph::<Ty, u8>(ag, &node_order, &edge_order);
            let g0 = e.g.map(|_, a| *a, |_, w| *w as f64);
            let g = &g0;
            let abs = |x: petgraph::graph::NodeIndex<u8>| g[x];
            let conc = |a: usize| petgraph::graph::NodeIndex::<u8>::new(inv[a]);
            ctx.line(&view_line(ag, g, &abs, &|er, _| e.eid[EdgeRef::id(&er).index()]), "ok");
            calls_float(ctx, g, n, &abs, &conc, sources);
            calls_spfa(ctx, g, n, &abs, &conc, sources);
            calls_fw(ctx, g, n, &abs, &conc);
        }
        2 => {
            let e = enc_stable::<Ty, u32>(rng, ag, &node_order, &edge_order, true);
            let g0 = e.g.map(|_, a| *a, |_, w| *w as f64);
            let g = &g0;
            let cidx: Vec<_> = { let mut v = vec![petgraph::graph::NodeIndex::<u32>::new(0); n]; for x in g.node_indices() { v[g[x]] = x; } v };
            let abs = |x: petgraph::graph::NodeIndex<u32>| g[x];
            let conc = |a: usize| cidx[a];
            ctx.line(&view_line(ag, g, &abs, &|er, _| e.eid[EdgeRef::id(&er).index()]), "ok");
            calls_float(ctx, g, n, &abs, &conc, sources);
            calls_spfa(ctx, g, n, &abs, &conc, sources);
        }
        3 => {
            let g0 = enc_matrix_f::<Ty>(rng, ag, &node_order, &edge_order);
            let g = &g0;
            let cidx: Vec<_> = { let mut v = vec![petgraph::matrix_graph::NodeIndex::new(0); n]; for x in g.node_identifiers() { v[*g.node_weight(x)] = x; } v };
            let abs = |x: petgraph::matrix_graph::NodeIndex| *g.node_weight(x);
            let conc = |a: usize| cidx[a];
            ctx.line(&view_line_out_only(ag, g, &abs, &|er, used| { let (s, t) = (abs(EdgeRef::source(&er)), abs(EdgeRef::target(&er))); eid_by_lookup(ag, s, t, *EdgeRef::weight(&er) as i64, used) }), "ok");
            calls_float(ctx, g, n, &abs, &conc, sources);
            calls_spfa(ctx, g, n, &abs, &conc, sources);
        }
        4 => {
            let g0 = enc_map_f::<Ty>(ag, &node_order, &edge_order);
            let g = &g0;
            let abs = |x: usize| x;
            let conc = |a: usize| a;
            ctx.line(&view_line(ag, g, &abs, &|er, used| eid_by_lookup(ag, EdgeRef::source(&er), EdgeRef::target(&er), *EdgeRef::weight(&er) as i64, used)), "ok");
            calls_float(ctx, g, n, &abs, &conc, sources);
            calls_spfa(ctx, g, n, &abs, &conc, sources);
            calls_fw(ctx, g, n, &abs, &conc);
        }
        5 => {
            let g0 = enc_csr_f::<Ty>(ag, &node_order, &edge_order);
            let g = &g0;
            let abs = |x: u32| g[x];
            let conc = |a: usize| inv[a] as u32;
            ctx.line(&view_line_out_only(ag, g, &abs, &|er, used| eid_by_lookup(ag, abs(EdgeRef::source(&er)), abs(EdgeRef::target(&er)), *EdgeRef::weight(&er) as i64, used)), "ok");
            calls_float(ctx, g, n, &abs, &conc, sources);
            calls_spfa(ctx, g, n, &abs, &conc, sources);
            calls_fw(ctx, g, n, &abs, &conc);
        }
        _ => {
            let g0 = enc_list_f(ag, &node_order, &edge_order);
            let g = &g0;
            let abs = |x: u32| node_order[x as usize];
            let conc = |a: usize| inv[a] as u32;
            ctx.line(&view_line_out_only(ag, g, &abs, &|er, used| eid_by_lookup(ag, abs(EdgeRef::source(&er)), abs(EdgeRef::target(&er)), *EdgeRef::weight(&er) as i64, used)), "ok");
            calls_float(ctx, g, n, &abs, &conc, sources);
            calls_spfa(ctx, g, n, &abs, &conc, sources);
            calls_fw(ctx, g, n, &abs, &conc);
        }
    }
}

/// A bound, computable before the encoding is chosen, on the `L = |V|*node_bound*M + |V|` the driver
/// computes from the view (Model/C11Checks.lean `spfaLenC`): `node_bound <= 4n+8` in every encoding
/// (enc_stable inserts at most 3 dummies per node and one more at the end, enc_matrix_f at most one per
/// node), and no out-list is longer than `2m` (an undirected self-loop may be listed twice).
fn len_bound(ag: &AG) -> i64 {
    let (n, m) = (ag.n as i64, ag.edges.len() as i64);
    (n * (4 * n + 8) * (2 * m).max(1) + n).max(1)
}

fn max_abs_cost(ag: &AG) -> i64 {
    ag.edges.iter().map(|e| e.2.abs()).max().unwrap_or(0)
}

/// The largest cost magnitude for which the driver's width checks hold for `i32`, the narrowest cost
/// type the case is run with: `L*Wm < i32::MAX` (`fitSpfaB`); it implies `fitFloydB` (2|V| <= L), the
/// `i64` instances, and the exact-integer range `2^53` of the `f64` instances and of bellman_ford.
fn cost_limit(ag: &AG) -> i64 {
    (i32::MAX as i64 - 1) / len_bound(ag)
}

/// the generator keeps the costs inside the proved no-overflow range (never needed by the families
/// below, whose costs stay under 200; the driver re-checks with the exact `L` of the view and answers
/// `SPECFAIL generator left the proved range` otherwise)
fn keep_in_range(ag: &mut AG) -> bool {
    let lim = cost_limit(ag);
    let mut clamped = false;
    for e in ag.edges.iter_mut() {
        if e.2.abs() > lim {
            e.2 = e.2.clamp(-lim, lim);
            clamped = true;
        }
    }
    clamped
}

/// structure-directed weighted graphs: see props/C11.json `rule`
fn gen_case(rng: &mut Rng, thorough: bool) -> (AG, String, Option<Vec<usize>>) {
    let mut hint: Option<Vec<usize>> = None;
    let directed = rng.chance(70);
    let max_n = if thorough { 11 } else { 8 };
    let simple = rng.chance(50);
    let mk = |wlo: i64, whi: i64, rng: &mut Rng| {
        if simple { GenOpts { max_n, loops: rng.chance(50), parallel: false, wlo, whi } } else { GenOpts::multi(max_n, wlo, whi) }
    };
    let tag;
    let mut ag;
    if rng.chance(7) {
        // tiny dense graphs: the whole space of (multi)graphs on <= 3 nodes with costs in [-2,2] is
        // sampled densely (minimal witnesses live here: D13, D14, D15)
        tag = "tiny";
        let n = 1 + rng.below(3);
        let mut edges = Vec::new();
        for a in 0..n {
            for b in 0..n {
                if !directed && b < a { continue; }
                if rng.chance(45) {
                    edges.push((a, b, rng.range(-2, 2)));
                    if !simple && rng.chance(15) { edges.push((a, b, rng.range(-2, 2))); }
                }
            }
        }
        ag = AG { directed, n, edges };
    } else if directed {
        match rng.weighted(&[20, 10, 8, 12, 24, 16, 10]) {
            0 => { tag = "mixed"; let o = mk(-3, 4, rng); ag = gen_graph(rng, true, o).0; }
            1 => { tag = "mild"; let o = mk(-1, 3, rng); ag = gen_graph(rng, true, o).0; }
            2 => { tag = "nonneg"; let o = mk(0, 2, rng); ag = gen_graph(rng, true, o).0; }
            3 => {
                // prefer the larger ones: the work-list blow-ups need 6+ nodes
                tag = "dagexp";
                let o = mk(-64, 64, rng);
                ag = gen_family(rng, true, 14, o);
                for _ in 0..3 {
                    if ag.n + 2 >= max_n { break; }
                    ag = gen_family(rng, true, 14, o);
                }
            }
            6 => {
                // complete DAG along a hidden order with convex costs (j-i)^2 (every extra hop is
                // cheaper: the family on which a LIFO work list re-expands suffixes exponentially,
                // cf. D26), a few edges dropped or perturbed, shifted by a random potential so that
                // the signs are mixed
                tag = "convexdag";
                let n = max_n - rng.below(3);
                let ord = random_perm(rng, n);
                let mut edges = Vec::new();
                for i in 0..n {
                    for j in (i + 1)..n {
                        if rng.chance(92) {
                            let d = (j - i) as i64;
                            let w = d * d + if rng.chance(10) { rng.range(0, 1) } else { 0 };
                            edges.push((ord[i], ord[j], w));
                        }
                    }
                }
                // 70 %: keep the edges in hidden-order and tell the encoder (ordered insertion makes the
                // neighbour iteration monotone along the hidden order in every storage type)
                if rng.chance(70) { hint = Some(ord.clone()); } else { rng.shuffle(&mut edges); }
                let pi: Vec<i64> = (0..n).map(|_| rng.range(-4, 4)).collect();
                for e in edges.iter_mut() {
                    e.2 += pi[e.0] - pi[e.1];
                }
                ag = AG { directed: true, n, edges };
            }
            4 => {
                // non-negative reduced costs + a random potential: negative edges, zero-cost cycles,
                // but no negative cycle
                tag = "potential";
                let o = mk(0, 2, rng);
                ag = gen_graph(rng, true, o).0;
                let pi: Vec<i64> = (0..ag.n).map(|_| rng.range(-3, 3)).collect();
                for e in ag.edges.iter_mut() {
                    e.2 += pi[e.0] - pi[e.1];
                }
            }
            _ => {
                tag = "acyclic";
                let fam = *rng.pick(&[3usize, 4, 4, 6, 9, 13]);
                let o = GenOpts { loops: false, ..mk(-3, 4, rng) };
                ag = gen_family(rng, true, fam, o);
            }
        }
    } else {
        match rng.weighted(&[45, 30, 25]) {
            0 => { tag = "u-nonneg"; let o = mk(0, 3, rng); ag = gen_graph(rng, false, o).0; }
            1 => {
                // one negative edge somewhere (possibly in a part the source cannot reach)
                tag = "u-oneneg";
                let o = mk(0, 3, rng);
                ag = gen_graph(rng, false, o).0;
                if !ag.edges.is_empty() {
                    let k = rng.below(ag.edges.len());
                    ag.edges[k].2 = -rng.range(1, 3);
                }
            }
            _ => { tag = "u-mixed"; let o = mk(-1, 4, rng); let fam = *rng.pick(&[0usize, 3, 9, 15, 13]); ag = gen_family(rng, false, fam, o); }
        }
    }
    // plants
    let n = ag.n;
    let mut tags = tag.to_string();
    if n > 0 && !simple && rng.chance(8) {
        let a = rng.below(n);
        ag.edges.push((a, a, -rng.range(1, 2)));
        tags.push_str("+negloop");
    } else if n > 0 && simple && !ag.has_loop() && rng.chance(6) {
        let a = rng.below(n);
        ag.edges.push((a, a, -1));
        tags.push_str("+negloop");
    }
    if directed && n >= 2 && !simple && rng.chance(10) {
        // a negative 2-cycle between two random nodes
        let a = rng.below(n);
        let b = (a + 1 + rng.below(n - 1)) % n;
        ag.edges.push((a, b, 1));
        ag.edges.push((b, a, -2));
        tags.push_str("+neg2cycle");
    }
    // large magnitudes: all costs multiplied by one factor (signs of all walk and cycle costs are
    // kept), half of the time the largest one that keeps `L*Wm < i32::MAX`, i.e. the edge of the
    // range for which the i32 instances are proved free of overflow
    if rng.chance(12) {
        let (lim, wm) = (cost_limit(&ag), max_abs_cost(&ag));
        if wm > 0 && lim / wm >= 2 {
            let kmax = lim / wm;
            let k = if rng.chance(50) { kmax } else { 2 + rng.below((kmax - 1) as usize) as i64 };
            for e in ag.edges.iter_mut() {
                e.2 *= k;
            }
            tags.push_str("+scaled");
        }
    }
    if keep_in_range(&mut ag) {
        tags.push_str("+clamped");
    }
    (ag, tags, hint)
}

pub fn run(ctx: &mut Ctx, case: u64) {
    let mut rng = Rng::for_case(ctx.seed, "C11", case);
    let (ag, tags, hint) = gen_case(&mut rng, ctx.tier_thorough);
    ctx.raw(&format!("case {} {} n={} m={}", case, tags, ag.n, ag.edges.len()));
    let n = ag.n;
    let mut sources = vec![rng.below(n)];
    if n > 1 {
        let t = (sources[0] + 1 + rng.below(n - 1)) % n;
        sources.push(t);
    }
    // the convex DAG's interesting source is the first node of the hidden order
    if let Some(ord) = &hint {
        if rng.chance(70) { sources[0] = ord[0]; if sources.len() > 1 && sources[1] == ord[0] { sources[1] = ord[1]; } }
    }
    with_ty!(ag.directed, case_ty, ctx, &mut rng, &ag, &sources, &hint);
}
