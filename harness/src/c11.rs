//! C11 — bellman_ford, find_negative_cycle (FloatMeasure: f64 and f32 edge weights), spfa,
//! floyd_warshall, floyd_warshall_path (BoundedMeasure: all 12 integer types, f32, f64) on every
//! storage type and every graph adaptor whose trait bounds admit the call, with mixed-sign, tie-heavy,
//! integer-valued costs; plus the rarely used public surface of the anchored files (`Paths`,
//! `NegativeCycle`, the `FloatMeasure` / `BoundedMeasure` impls) as laws.
//!
//! One abstract graph per case.  A case consists of one or more SECTIONS; each section starts with a
//! `graph …` line (the view of one concrete graph or adaptor, in abstract node ids) followed by requests:
//!   bf <s> / bf32 <s>   => ok a:d:p,a:d:p,…  (d = `i` for +inf, p = `x` for None)   | err | panic
//!   fnc <s> / fnc32 <s> => some a,b,c|<bf> / none|<bf>   (<bf> = ok|err: what bellman_ford answers)
//!   spfa <ty> <s>       => ok a:d:p,…        (d = `i` for K::max())                  | err | panic
//!   fw <ty>             => ok u.v:d,…        | err
//!   fwp <ty>            => ok u.v:d:p,…      (p = prev[u][v] mapped to abstract ids) | err
//! and, anywhere in a case, lines that do not depend on the graph:
//!   consts <ty>         => max=<num> min=<num> zero=<num>          (BoundedMeasure::max/min, Default)
//!   oadd <ty> <a> <b>   => <num>|inf|-inf <true|false>             (BoundedMeasure::overflowing_add)
//!   law <name> …        => ok | VIOLATED <why>                     (checked here against the implementation itself)
//! `<num>` is a decimal integer or `MpE` = M·2^E (floats beyond 2^63).
//! `graph` lines of adaptors that expose an open finding carry `quirk=d23` (UndirectedAdaptor::edges keeps the
//! orientation of incoming edges) or `quirk=d6` (MatrixGraph::edges_directed(_, Incoming) swaps the endpoints,
//! seen through `Reversed`): the driver then classifies a wrong answer as KNOWN only if it is the right answer
//! for the graph those edge references describe.
#![allow(clippy::too_many_arguments, clippy::type_complexity)]
use crate::common::*;
use crate::graphs::*;
use crate::rng::Rng;
use petgraph::adj::List;
use petgraph::algo::bellman_ford::Paths;
use petgraph::algo::floyd_warshall::floyd_warshall_path;
use petgraph::algo::{bellman_ford, find_negative_cycle, floyd_warshall, spfa, BoundedMeasure, FloatMeasure, NegativeCycle};
use petgraph::csr::Csr;
use petgraph::graph::{Frozen, Graph, IndexType};
use petgraph::graphmap::GraphMap;
use petgraph::matrix_graph::MatrixGraph;
use petgraph::visit::{
    EdgeFiltered, EdgeRef, GraphProp, IntoEdgeReferences, IntoEdges, IntoEdgesDirected, IntoNodeIdentifiers,
    NodeCompactIndexable, NodeCount, NodeFiltered, NodeIndexable, Reversed, UndirectedAdaptor, Visitable,
};
use petgraph::{Directed, EdgeType, Undirected};
use std::fmt::Debug;
use std::hash::{BuildHasher, BuildHasherDefault, Hash};

type Fx = BuildHasherDefault<fxhash::FxHasher>;
type Rs = std::collections::hash_map::RandomState;

// ------------------------------------------------------------------------------------------------
// numbers in the protocol

/// exact value of a finite float as `M` or `MpE` (= M·2^E); `?…` for anything that is not an integer
fn num_f64(x: f64) -> String {
    if x.is_nan() { return "nan".into(); }
    if x.is_infinite() { return if x > 0.0 { "inf".into() } else { "-inf".into() }; }
    if x == 0.0 { return "0".into(); }
    let bits = x.to_bits();
    let neg = bits >> 63 != 0;
    let e = ((bits >> 52) & 0x7ff) as i32;
    let mut m: u64 = if e == 0 { (bits & 0xf_ffff_ffff_ffff) << 1 } else { (bits & 0xf_ffff_ffff_ffff) | 0x10_0000_0000_0000 };
    let mut ex = e - 1075;
    while m % 2 == 0 && m != 0 { m /= 2; ex += 1; }
    if ex < 0 { return format!("?{:e}", x); }
    let sign = if neg { "-" } else { "" };
    if ex <= 10 { format!("{}{}", sign, (m as u128) << ex) } else { format!("{}{}p{}", sign, m, ex) }
}

/// floats are only ever produced from small integers: print them as integers, anything else is
/// printed so that the driver cannot parse it (and reports it)
fn show_f(x: f64, inf: f64) -> String {
    if x == inf {
        "i".into()
    } else if x.fract() == 0.0 && x.abs() < 9.0e15 {
        format!("{}", x as i64)
    } else {
        format!("?{:e}", x)
    }
}

fn show_pred(p: Option<usize>) -> String {
    match p {
        Some(x) => x.to_string(),
        None => "x".into(),
    }
}

// ------------------------------------------------------------------------------------------------
// the edge-weight types of the graphs (FloatMeasure: what bellman_ford / find_negative_cycle accept)

trait Wt: FloatMeasure + Copy + PartialOrd + Debug + 'static {
    /// request-name suffix: `bf`/`fnc` for f64, `bf32`/`fnc32` for f32
    const SUF: &'static str;
    /// integers below 2^MANT are represented and added exactly
    const MANT: u32;
    fn from_i(x: i64) -> Self;
    fn to64(self) -> f64;
}
impl Wt for f64 {
    const SUF: &'static str = "";
    const MANT: u32 = 53;
    fn from_i(x: i64) -> f64 { x as f64 }
    fn to64(self) -> f64 { self }
}
impl Wt for f32 {
    const SUF: &'static str = "32";
    const MANT: u32 = 24;
    fn from_i(x: i64) -> f32 { x as f32 }
    fn to64(self) -> f64 { self as f64 }
}

// ------------------------------------------------------------------------------------------------
// the cost types of spfa / floyd_warshall (BoundedMeasure: 12 integer types, f32, f64)

trait Cost: BoundedMeasure + Copy + PartialEq + PartialOrd + Debug + 'static {
    const NAME: &'static str;
    const UNSIGNED: bool;
    fn of(x: f64) -> Self;
    /// a distance: `i` for `max()`
    fn show(self) -> String;
    /// exact value as a protocol number
    fn num(self) -> String;
    /// (max, min) of the range within which the driver's model theorems apply: `max()`/`min()` of the
    /// integer types (saturated to i128; the signed twin for the unsigned types), and the range of exactly
    /// represented integers `±2^53` / `±2^24` for the float types
    fn limits() -> (i128, i128);
    /// operand pairs for `overflowing_add` whose exact sum is representable unless it overflows
    fn oadd_samples(rng: &mut Rng) -> Vec<(Self, Self)>;
    /// `from_f32` / `from_f64` are the `as` casts
    fn from_law() -> Option<String>;
}

const FROM_SAMPLES: [f64; 19] = [
    0.0, -0.0, 1.0, -1.0, 1.5, -1.5, 127.0, 128.0, -129.0, 255.0, 256.0, 65536.5, 1.0e10, -1.0e10, 1.0e20, 1.0e40,
    f64::MAX, f64::MIN, f64::INFINITY,
];

macro_rules! int_cost {
    ($($t:ident $unsigned:expr),*) => {$(
        impl Cost for $t {
            const NAME: &'static str = stringify!($t);
            const UNSIGNED: bool = $unsigned;
            fn of(x: f64) -> $t { x as $t }
            fn show(self) -> String { if self == <$t>::MAX { "i".into() } else { self.to_string() } }
            fn num(self) -> String { self.to_string() }
            fn limits() -> (i128, i128) {
                let mx = i128::try_from(<$t>::MAX).unwrap_or(i128::MAX);
                if $unsigned { (mx, if mx == i128::MAX { i128::MIN } else { -mx - 1 }) } else { (mx, i128::try_from(<$t>::MIN).unwrap_or(i128::MIN)) }
            }
            fn oadd_samples(rng: &mut Rng) -> Vec<(Self, Self)> {
                let (mx, mn) = (<$t>::MAX, <$t>::MIN);
                let small = |rng: &mut Rng| -> $t { let k = rng.range(0, 100) as $t; if !$unsigned && rng.chance(50) { (0 as $t).wrapping_sub(k) } else { k } };
                let specials = [mx, mx - 1, mx / 2, mx / 2 + 1, mn, mn + 1, mn / 2, 0, 1, (0 as $t).wrapping_sub(1)];
                let mut v = Vec::new();
                for _ in 0..3 {
                    let a = if rng.chance(70) { *rng.pick(&specials) } else { small(rng) };
                    let b = if rng.chance(70) { *rng.pick(&specials) } else { small(rng) };
                    v.push((a, b));
                }
                v
            }
            fn from_law() -> Option<String> {
                for &x in FROM_SAMPLES.iter().chain([f64::NEG_INFINITY, f64::NAN].iter()) {
                    if <$t as BoundedMeasure>::from_f64(x) != (x as $t) { return Some(format!("from_f64({:e}) = {:?}", x, <$t as BoundedMeasure>::from_f64(x))); }
                    if <$t as BoundedMeasure>::from_f32(x as f32) != (x as f32 as $t) { return Some(format!("from_f32({:e}) = {:?}", x as f32, <$t as BoundedMeasure>::from_f32(x as f32))); }
                }
                None
            }
        }
    )*};
}
int_cost!(i8 false, i16 false, i32 false, i64 false, i128 false, isize false, u8 true, u16 true, u32 true, u64 true, u128 true, usize true);

macro_rules! float_cost {
    ($($t:ident $mant:expr, $top:expr);*) => {$(
        impl Cost for $t {
            const NAME: &'static str = stringify!($t);
            const UNSIGNED: bool = false;
            fn of(x: f64) -> $t { x as $t }
            fn show(self) -> String { show_f(self as f64, <$t>::MAX as f64) }
            fn num(self) -> String { num_f64(self as f64) }
            fn limits() -> (i128, i128) { (1i128 << $mant, -(1i128 << $mant)) }
            fn oadd_samples(rng: &mut Rng) -> Vec<(Self, Self)> {
                // two grids on which sums are exact: the integers below 2^(p-1), and the multiples k·2^top
                // with |k| < 2^p (`MAX = (2^p-1)·2^top`): there `a + b` overflows iff |ka + kb| >= 2^p
                let p: i64 = $mant;
                let full = (1i64 << p) - 1;
                let half = (1i64 << (p - 1)) - 1;
                let scale = (2.0 as $t).powi($top);
                let mut v = Vec::new();
                for _ in 0..3 {
                    if rng.chance(35) {
                        let ks = [0, 1, -1, half, -half, half - 1, rng.range(-1000, 1000)];
                        v.push((*rng.pick(&ks) as $t, *rng.pick(&ks) as $t));
                    } else {
                        let ks = [full, -full, full - 1, -(full - 1), half + 1, -(half + 1), half, -half, 1, -1, 0, rng.range(-full, full), rng.range(-full, full)];
                        v.push(((*rng.pick(&ks) as $t) * scale, (*rng.pick(&ks) as $t) * scale));
                    }
                }
                v
            }
            fn from_law() -> Option<String> {
                let same = |a: $t, b: $t| a == b || (a.is_nan() && b.is_nan());
                for &x in FROM_SAMPLES.iter().chain([f64::NEG_INFINITY, f64::NAN].iter()) {
                    if !same(<$t as BoundedMeasure>::from_f64(x), x as $t) { return Some(format!("BoundedMeasure::from_f64({:e})", x)); }
                    if !same(<$t as BoundedMeasure>::from_f32(x as f32), x as f32 as $t) { return Some(format!("BoundedMeasure::from_f32({:e})", x)); }
                    if !same(<$t as FloatMeasure>::from_f64(x), x as $t) { return Some(format!("FloatMeasure::from_f64({:e})", x)); }
                    if !same(<$t as FloatMeasure>::from_f32(x as f32), x as f32 as $t) { return Some(format!("FloatMeasure::from_f32({:e})", x)); }
                }
                let (z, inf) = (<$t as FloatMeasure>::zero(), <$t as FloatMeasure>::infinite());
                if z != 0.0 || z.is_sign_negative() { return Some("FloatMeasure::zero() is not +0".into()); }
                if !(inf.is_infinite() && inf > 0.0) { return Some("FloatMeasure::infinite() is not +inf".into()); }
                None
            }
        }
    )*};
}
float_cost!(f64 53, 971; f32 24, 104);

const EXTRA_NARROW: [&str; 5] = ["i8", "u8", "i16", "u16", "f32"];
const EXTRA_WIDE: [&str; 6] = ["i128", "isize", "u32", "u64", "u128", "usize"];

/// run `$f::<…, K>(args)` for the cost type named `$name`
macro_rules! by_cost {
    ($name:expr, $f:ident, [$($g:ty),*], ($($args:expr),*)) => {
        match $name {
            "i8" => $f::<$($g,)* i8>($($args),*), "i16" => $f::<$($g,)* i16>($($args),*), "i32" => $f::<$($g,)* i32>($($args),*),
            "i64" => $f::<$($g,)* i64>($($args),*), "i128" => $f::<$($g,)* i128>($($args),*), "isize" => $f::<$($g,)* isize>($($args),*),
            "u8" => $f::<$($g,)* u8>($($args),*), "u16" => $f::<$($g,)* u16>($($args),*), "u32" => $f::<$($g,)* u32>($($args),*),
            "u64" => $f::<$($g,)* u64>($($args),*), "u128" => $f::<$($g,)* u128>($($args),*), "usize" => $f::<$($g,)* usize>($($args),*),
            "f32" => $f::<$($g,)* f32>($($args),*), _ => $f::<$($g,)* f64>($($args),*),
        }
    };
}

// ------------------------------------------------------------------------------------------------
// laws of the helper types (checked against the implementation itself)

fn law_line(ctx: &mut Ctx, name: &str, r: Option<Option<String>>) {
    let ans = match r {
        None => "VIOLATED panic".to_string(),
        Some(None) => "ok".to_string(),
        Some(Some(why)) => format!("VIOLATED {}", why.replace(" => ", " -> ")),
    };
    ctx.line(&format!("law {}", name), &ans);
}

/// `Paths`: `Clone` (incl. `clone_from` onto an arbitrary prior value) and `Debug`
fn paths_laws<N: Copy + PartialEq + Debug, K: Copy + PartialEq + Debug>(p: &Paths<N, K>, prior: Paths<N, K>) -> Option<String> {
    let same = |a: &Paths<N, K>, b: &Paths<N, K>| a.distances == b.distances && a.predecessors == b.predecessors;
    let c = p.clone();
    if !same(&c, p) {
        return Some("clone() differs from the original".into());
    }
    let mut q = prior;
    q.clone_from(p);
    if !same(&q, p) {
        return Some("clone_from() differs from clone()".into());
    }
    let (d1, d2) = (format!("{:?}", p), format!("{:#?}", p));
    if d1.is_empty() || d2.is_empty() {
        return Some("empty Debug output".into());
    }
    None
}

/// `NegativeCycle`: `Clone`, `PartialEq`, `Debug`
fn negcycle_laws(e: &NegativeCycle) -> Option<String> {
    let c = e.clone();
    if c != *e || !(c == *e) {
        return Some("clone() != original".into());
    }
    let mut f = NegativeCycle(());
    f.clone_from(e);
    if f != *e {
        return Some("clone_from() != original".into());
    }
    if format!("{:?}", e).is_empty() || format!("{:#?}", e).is_empty() {
        return Some("empty Debug output".into());
    }
    None
}

/// `consts`, `oadd` (judged by the driver against `Meas`) and the conversion law for one cost type
fn measure_lines<K: Cost>(ctx: &mut Ctx, rng: &mut Rng) {
    let r = catch(|| format!("max={} min={} zero={}", <K as BoundedMeasure>::max().num(), <K as BoundedMeasure>::min().num(), K::default().num()));
    ctx.line(&format!("consts {}", K::NAME), &r.unwrap_or("panic".into()));
    for (a, b) in K::oadd_samples(rng) {
        let r = catch(|| {
            let (s, o) = <K as BoundedMeasure>::overflowing_add(a, b);
            format!("{} {}", s.num(), o)
        });
        ctx.line(&format!("oadd {} {} {}", K::NAME, a.num(), b.num()), &r.unwrap_or("panic".into()));
    }
    law_line(ctx, &format!("measure-from {}", K::NAME), catch(K::from_law));
}

// ------------------------------------------------------------------------------------------------
// the calls

/// what one section runs, and on which abstract nodes
struct Sec<'a> {
    /// the abstract graph this section's graph describes
    ag: &'a AG,
    /// abstract ids of its nodes
    ids: &'a [usize],
    sources: &'a [usize],
    /// candidate extra cost types, in order of preference
    pool: &'a [&'static str],
    /// emit the laws of `Paths` / `NegativeCycle` on the values obtained here
    laws: bool,
    /// 0: all of floyd_warshall, 1: one cost type only, 2: none (large graphs)
    big: u8,
}

/// the quantities of the driver's width checks (Model/C11Checks.lean): |V|, node_bound, M, Wm
struct Dims {
    nv: i128,
    nb: i128,
    m: i128,
    wm: i128,
    nonneg: bool,
}

impl Dims {
    fn within<K: Cost>(&self, x: i128) -> bool {
        let (mx, mn) = K::limits();
        x < mx && mn <= -x && (!K::UNSIGNED || self.nonneg)
    }
    fn fit_spfa<K: Cost>(&self) -> bool { self.within::<K>((self.nv * self.nb * self.m + self.nv) * self.wm) }
    fn fit_fw<K: Cost>(&self) -> bool { self.within::<K>(2 * self.nv * self.wm) }
}
fn fit_spfa_k<K: Cost>(d: &Dims) -> bool { d.fit_spfa::<K>() }
fn fit_fw_k<K: Cost>(d: &Dims) -> bool { d.fit_fw::<K>() }

fn dims_edges<G>(sec: &Sec, g: G) -> Dims
where
    G: IntoNodeIdentifiers + IntoEdges + NodeIndexable + Copy,
{
    let m = g.node_identifiers().map(|n| g.edges(n).count()).max().unwrap_or(0);
    Dims { nv: sec.ids.len() as i128, nb: g.node_bound() as i128, m: m as i128, wm: max_abs_cost(sec.ag) as i128, nonneg: sec.ag.edges.iter().all(|e| e.2 >= 0) }
}

/// up to two extra cost types of the pool that pass `fit`
fn pick_extras(sec: &Sec, d: &Dims, spfa_not_fw: bool) -> Vec<&'static str> {
    let mut v = Vec::new();
    for &t in sec.pool {
        let ok = if spfa_not_fw { by_cost!(t, fit_spfa_k, [], (d)) } else { by_cost!(t, fit_fw_k, [], (d)) };
        if ok {
            v.push(t);
            if v.len() == 3 { break; }
        }
    }
    v
}

/// bellman_ford + find_negative_cycle (FloatMeasure: the graph's own weights)
fn calls_float<G, W: Wt>(ctx: &mut Ctx, sec: &Sec, g: G, abs: &dyn Fn(G::NodeId) -> usize, conc: &dyn Fn(usize) -> G::NodeId)
where
    G: NodeCount + IntoNodeIdentifiers + IntoEdges<EdgeWeight = W> + NodeIndexable + Visitable + Copy,
    G::NodeId: Debug,
{
    // the driver's `fitBfB` / `fitBf32B`: every label and candidate sum stays an exactly represented integer
    let d = dims_edges(sec, g);
    if ((d.nv - 1).max(0) * (d.nv * d.m) + 1) * d.wm >= (1i128 << W::MANT) {
        return;
    }
    let mut law_done = !sec.laws;
    for &s in sec.sources {
        let mut kept: Option<Result<Paths<G::NodeId, W>, NegativeCycle>> = None;
        let r = catch(|| {
            let res = bellman_ford(g, conc(s));
            let txt = match &res {
                Ok(p) => {
                    let items: Vec<String> = sec.ids.iter().map(|&a| {
                        let i = g.to_index(conc(a));
                        format!("{}:{}:{}", a, show_f(p.distances[i].to64(), f64::INFINITY), show_pred(p.predecessors[i].map(abs)))
                    }).collect();
                    format!("ok {}", list(items))
                }
                Err(_) => "err".to_string(),
            };
            kept = Some(res);
            txt
        });
        let bf = r.unwrap_or("panic".into());
        ctx.line(&format!("bf{} {}", W::SUF, s), &bf);
        let bfword = bf.split(' ').next().unwrap_or("panic").to_string();
        let r = catch(|| match find_negative_cycle(g, conc(s)) {
            Some(seq) => format!("some {}", list(seq.into_iter().map(abs))),
            None => "none".to_string(),
        });
        ctx.line(&format!("fnc{} {}", W::SUF, s), &format!("{}|{}", r.unwrap_or("panic".into()), bfword));
        if !law_done {
            match &kept {
                Some(Ok(p)) => {
                    let prior = Paths { distances: vec![W::from_i(7); 3], predecessors: vec![Some(conc(s))] };
                    law_line(ctx, &format!("paths bf{} {}", W::SUF, s), catch(|| paths_laws(p, prior)));
                    law_done = true;
                }
                Some(Err(e)) => law_line(ctx, &format!("negcycle bf{} {}", W::SUF, s), catch(|| negcycle_laws(e))),
                None => {}
            }
        }
    }
}

/// spfa with cost type K
fn call_spfa<G, W: Wt, K: Cost>(ctx: &mut Ctx, sec: &Sec, g: G, abs: &dyn Fn(G::NodeId) -> usize, conc: &dyn Fn(usize) -> G::NodeId, s: usize, laws: bool)
where
    G: IntoNodeIdentifiers + IntoEdges<EdgeWeight = W> + NodeIndexable + Copy,
    G::NodeId: Debug,
{
    let mut kept: Option<Result<Paths<G::NodeId, K>, NegativeCycle>> = None;
    let r = catch(|| {
        let res = spfa(g, conc(s), |e| K::of((*e.weight()).to64()));
        let txt = match &res {
            Ok(p) => {
                let items: Vec<String> = sec.ids.iter().map(|&a| {
                    let i = g.to_index(conc(a));
                    format!("{}:{}:{}", a, p.distances[i].show(), show_pred(p.predecessors[i].map(abs)))
                }).collect();
                format!("ok {}", list(items))
            }
            Err(_) => "err".to_string(),
        };
        kept = Some(res);
        txt
    });
    ctx.line(&format!("spfa {} {}", K::NAME, s), &r.unwrap_or("panic".into()));
    if laws {
        match &kept {
            Some(Ok(p)) => {
                let prior = Paths { distances: vec![K::default(); 2], predecessors: vec![None; 5] };
                law_line(ctx, &format!("paths spfa {} {}", K::NAME, s), catch(|| paths_laws(p, prior)));
            }
            Some(Err(e)) => law_line(ctx, &format!("negcycle spfa {} {}", K::NAME, s), catch(|| negcycle_laws(e))),
            None => {}
        }
    }
}

/// level A (the storage types' own sections): i32, i64, f64 from every source
fn calls_spfa_a<G, W: Wt>(ctx: &mut Ctx, sec: &Sec, g: G, abs: &dyn Fn(G::NodeId) -> usize, conc: &dyn Fn(usize) -> G::NodeId)
where
    G: IntoNodeIdentifiers + IntoEdges<EdgeWeight = W> + NodeIndexable + Copy,
    G::NodeId: Debug,
{
    for (k, &s) in sec.sources.iter().enumerate() {
        call_spfa::<G, W, i32>(ctx, sec, g, abs, conc, s, false);
        call_spfa::<G, W, i64>(ctx, sec, g, abs, conc, s, sec.laws && k == 0);
        call_spfa::<G, W, f64>(ctx, sec, g, abs, conc, s, false);
    }
}

/// level B (non-default instantiations, f32 weights, adaptors): i32 and f64
fn calls_spfa_b<G, W: Wt>(ctx: &mut Ctx, sec: &Sec, g: G, abs: &dyn Fn(G::NodeId) -> usize, conc: &dyn Fn(usize) -> G::NodeId)
where
    G: IntoNodeIdentifiers + IntoEdges<EdgeWeight = W> + NodeIndexable + Copy,
    G::NodeId: Debug,
{
    for &s in sec.sources {
        call_spfa::<G, W, i32>(ctx, sec, g, abs, conc, s, false);
        call_spfa::<G, W, f64>(ctx, sec, g, abs, conc, s, false);
    }
}

fn call_fw<G, W: Wt, K: Cost>(ctx: &mut Ctx, sec: &Sec, g: G, abs: &dyn Fn(G::NodeId) -> usize, conc: &dyn Fn(usize) -> G::NodeId)
where
    G: NodeCompactIndexable + IntoEdgeReferences<EdgeWeight = W> + IntoNodeIdentifiers + GraphProp + Copy,
    G::NodeId: Eq + Hash,
{
    let n = sec.ids.len();
    let r = catch(|| match floyd_warshall(g, |e| K::of((*e.weight()).to64())) {
        Ok(m) => {
            let mut items = Vec::new();
            for &u in sec.ids {
                for &v in sec.ids {
                    items.push(match m.get(&(conc(u), conc(v))) {
                        Some(d) => format!("{}.{}:{}", u, v, d.show()),
                        None => format!("{}.{}:missing", u, v),
                    });
                }
            }
            if m.len() != n * n {
                items.push(format!("len{}", m.len()));
            }
            format!("ok {}", list(items))
        }
        Err(_) => "err".to_string(),
    });
    ctx.line(&format!("fw {}", K::NAME), &r.unwrap_or("panic".into()));
    let r = catch(|| match floyd_warshall_path(g, |e| K::of((*e.weight()).to64())) {
        Ok((m, prev)) => {
            let mut items = Vec::new();
            for &u in sec.ids {
                for &v in sec.ids {
                    let (iu, iv) = (g.to_index(conc(u)), g.to_index(conc(v)));
                    let p = prev[iu][iv].map(|k| abs(g.from_index(k)));
                    items.push(match m.get(&(conc(u), conc(v))) {
                        Some(d) => format!("{}.{}:{}:{}", u, v, d.show(), show_pred(p)),
                        None => format!("{}.{}:missing", u, v),
                    });
                }
            }
            if m.len() != n * n || prev.len() != n || prev.iter().any(|r| r.len() != n) {
                items.push("shape".to_string());
            }
            format!("ok {}", list(items))
        }
        Err(_) => "err".to_string(),
    });
    ctx.line(&format!("fwp {}", K::NAME), &r.unwrap_or("panic".into()));
}

fn calls_fw_a<G, W: Wt>(ctx: &mut Ctx, sec: &Sec, g: G, abs: &dyn Fn(G::NodeId) -> usize, conc: &dyn Fn(usize) -> G::NodeId)
where
    G: NodeCompactIndexable + IntoEdgeReferences<EdgeWeight = W> + IntoNodeIdentifiers + GraphProp + Copy,
    G::NodeId: Eq + Hash,
{
    if sec.big >= 2 {
        return;
    }
    if sec.big == 1 {
        match (sec.ag.edges.len() + sec.ids.len()) % 3 {
            0 => call_fw::<G, W, i32>(ctx, sec, g, abs, conc),
            1 => call_fw::<G, W, i64>(ctx, sec, g, abs, conc),
            _ => call_fw::<G, W, f64>(ctx, sec, g, abs, conc),
        }
        return;
    }
    call_fw::<G, W, i32>(ctx, sec, g, abs, conc);
    call_fw::<G, W, i64>(ctx, sec, g, abs, conc);
    call_fw::<G, W, f64>(ctx, sec, g, abs, conc);
}

fn calls_fw_b<G, W: Wt>(ctx: &mut Ctx, sec: &Sec, g: G, abs: &dyn Fn(G::NodeId) -> usize, conc: &dyn Fn(usize) -> G::NodeId)
where
    G: NodeCompactIndexable + IntoEdgeReferences<EdgeWeight = W> + IntoNodeIdentifiers + GraphProp + Copy,
    G::NodeId: Eq + Hash,
{
    if sec.big >= 2 {
        return;
    }
    call_fw::<G, W, i64>(ctx, sec, g, abs, conc);
}

// the capability profiles of a graph type (level A / level B)

macro_rules! profiles {
    ($full:ident, $nofw:ident, $spfa:ident, $fw:ident) => {
        /// everything: Graph, GraphMap, Csr, adj::List and the adaptors that keep all of their traits
        fn $full<G, W: Wt>(ctx: &mut Ctx, sec: &Sec, g: G, abs: &dyn Fn(G::NodeId) -> usize, conc: &dyn Fn(usize) -> G::NodeId)
        where
            G: NodeCount + IntoNodeIdentifiers + IntoEdges<EdgeWeight = W> + NodeIndexable + Visitable + NodeCompactIndexable + GraphProp + Copy,
            G::NodeId: Debug + Eq + Hash,
        {
            calls_float(ctx, sec, g, abs, conc);
            $spfa(ctx, sec, g, abs, conc);
            $fw(ctx, sec, g, abs, conc);
        }

        /// not NodeCompactIndexable (StableGraph, MatrixGraph): no floyd_warshall
        fn $nofw<G, W: Wt>(ctx: &mut Ctx, sec: &Sec, g: G, abs: &dyn Fn(G::NodeId) -> usize, conc: &dyn Fn(usize) -> G::NodeId)
        where
            G: NodeCount + IntoNodeIdentifiers + IntoEdges<EdgeWeight = W> + NodeIndexable + Visitable + Copy,
            G::NodeId: Debug,
        {
            calls_float(ctx, sec, g, abs, conc);
            $spfa(ctx, sec, g, abs, conc);
        }
    };
}
profiles!(run_full_a, run_nofw_a, calls_spfa_a, calls_fw_a);
profiles!(run_full_b, run_nofw_b, calls_spfa_b, calls_fw_b);

/// NodeFiltered: spfa only (no NodeCount, not NodeCompactIndexable)
fn run_spfa_only<G, W: Wt>(ctx: &mut Ctx, sec: &Sec, g: G, abs: &dyn Fn(G::NodeId) -> usize, conc: &dyn Fn(usize) -> G::NodeId)
where
    G: IntoNodeIdentifiers + IntoEdges<EdgeWeight = W> + NodeIndexable + Copy,
    G::NodeId: Debug,
{
    calls_spfa_b(ctx, sec, g, abs, conc);
}

/// level A or B, chosen per instantiation at compile time (keeps the number of monomorphic copies down)
trait Level {
    fn full<G, W: Wt>(ctx: &mut Ctx, sec: &Sec, g: G, abs: &dyn Fn(G::NodeId) -> usize, conc: &dyn Fn(usize) -> G::NodeId)
    where
        G: NodeCount + IntoNodeIdentifiers + IntoEdges<EdgeWeight = W> + NodeIndexable + Visitable + NodeCompactIndexable + GraphProp + Copy,
        G::NodeId: Debug + Eq + Hash;
    fn nofw<G, W: Wt>(ctx: &mut Ctx, sec: &Sec, g: G, abs: &dyn Fn(G::NodeId) -> usize, conc: &dyn Fn(usize) -> G::NodeId)
    where
        G: NodeCount + IntoNodeIdentifiers + IntoEdges<EdgeWeight = W> + NodeIndexable + Visitable + Copy,
        G::NodeId: Debug;
}
struct LA;
struct LB;
macro_rules! level_impl {
    ($l:ident, $full:ident, $nofw:ident) => {
        impl Level for $l {
            fn full<G, W: Wt>(ctx: &mut Ctx, sec: &Sec, g: G, abs: &dyn Fn(G::NodeId) -> usize, conc: &dyn Fn(usize) -> G::NodeId)
            where
                G: NodeCount + IntoNodeIdentifiers + IntoEdges<EdgeWeight = W> + NodeIndexable + Visitable + NodeCompactIndexable + GraphProp + Copy,
                G::NodeId: Debug + Eq + Hash,
            {
                $full(ctx, sec, g, abs, conc)
            }
            fn nofw<G, W: Wt>(ctx: &mut Ctx, sec: &Sec, g: G, abs: &dyn Fn(G::NodeId) -> usize, conc: &dyn Fn(usize) -> G::NodeId)
            where
                G: NodeCount + IntoNodeIdentifiers + IntoEdges<EdgeWeight = W> + NodeIndexable + Visitable + Copy,
                G::NodeId: Debug,
            {
                $nofw(ctx, sec, g, abs, conc)
            }
        }
    };
}
level_impl!(LA, run_full_a, run_nofw_a);
level_impl!(LB, run_full_b, run_nofw_b);

// ------------------------------------------------------------------------------------------------
// views

/// abstract edge id of an edge reference by endpoints + weight among the ids not yet used; the reported
/// orientation is tried first, then the opposite one (undirected graphs; the D6 orientation of MatrixGraph)
fn eid_any(ag: &AG, a: usize, b: usize, w: i64, used: &mut Vec<usize>) -> usize {
    // passes 2, 3: an edge listed a second time in the same row (`UndirectedAdaptor` chains the in- and the
    // out-list, so a self-loop comes twice)
    for pass in 0..4 {
        for (k, &(x, y, ww)) in ag.edges.iter().enumerate() {
            if ww == w && ((pass % 2 == 0 && x == a && y == b) || (pass % 2 == 1 && x == b && y == a)) && (pass >= 2 || !used.contains(&k)) {
                used.push(k);
                return k;
            }
        }
    }
    usize::MAX
}

/// the `graph` line of a section whose graph offers `IntoEdges` (out-lists in its iteration order)
fn emit_view<G, W: Wt>(ctx: &mut Ctx, ag: &AG, g: G, abs: &dyn Fn(G::NodeId) -> usize, what: &str, quirk: &str)
where
    G: IntoNodeIdentifiers + IntoEdges<EdgeWeight = W> + NodeIndexable + GraphProp + Copy,
{
    let mut line = view_line_out_only(ag, g, abs, &|er, used| eid_any(ag, abs(er.source()), abs(er.target()), er.weight().to64() as i64, used));
    line.push_str(&format!(" what={}", what));
    if !quirk.is_empty() {
        line.push_str(&format!(" quirk={}", quirk));
    }
    ctx.line(&line, "ok");
}

/// the `graph` line of a section whose graph offers only `IntoEdgeReferences` (adaptors over Csr / adj::List):
/// out-lists derived from `edge_references()` in its order
fn emit_view_refs<G, W: Wt>(ctx: &mut Ctx, ag: &AG, g: G, abs: &dyn Fn(G::NodeId) -> usize, what: &str)
where
    G: NodeCompactIndexable + IntoEdgeReferences<EdgeWeight = W> + IntoNodeIdentifiers + GraphProp + Copy,
{
    let nodes: Vec<G::NodeId> = g.node_identifiers().collect();
    let mut out: Vec<Vec<String>> = vec![Vec::new(); ag.n];
    let mut used = Vec::new();
    for er in g.edge_references() {
        let (s, t) = (abs(er.source()), abs(er.target()));
        let k = eid_any(ag, s, t, er.weight().to64() as i64, &mut used);
        out[s].push(format!("{}/{}", t, k));
        if !ag.directed && s != t {
            out[t].push(format!("{}/{}", s, k));
        }
    }
    let edges = if ag.edges.is_empty() { "-".to_string() } else { ag.edges.iter().enumerate().map(|(k, &(a, b, w))| format!("{}:{}:{}:{}", k, a, b, w)).collect::<Vec<_>>().join(";") };
    let outs: Vec<String> = nodes.iter().map(|&x| { let a = abs(x); format!("{}:{}", a, if out[a].is_empty() { "-".into() } else { out[a].join(",") }) }).collect();
    let line = format!(
        "graph d={} nb={} nodes={} ix={} edges={} out={} in=- hasin=0 what={}",
        if ag.directed { 1 } else { 0 },
        g.node_bound(),
        list(nodes.iter().map(|&x| abs(x))),
        list(nodes.iter().map(|&x| format!("{}:{}", abs(x), g.to_index(x)))),
        edges,
        if outs.is_empty() { "-".into() } else { outs.join(";") },
        what,
    );
    ctx.line(&line, "ok");
}

// ------------------------------------------------------------------------------------------------
// encoders with weight type W (twins of those of graphs.rs: same construction histories)

type WConv<'a, W> = &'a dyn Fn(i64) -> W;

fn enc_matrix_w<Ty: EdgeType, W: Wt, S: BuildHasher + Default, Ix: IndexType>(rng: &mut Rng, ag: &AG, node_order: &[usize], edge_order: &[usize], wc: WConv<W>, cap: Option<usize>) -> MatrixGraph<usize, W, S, Ty, Option<W>, Ix> {
    let mut g = MatrixGraph::<usize, W, S, Ty, Option<W>, Ix>::with_capacity(cap.unwrap_or_else(|| rng.below(5)));
    let mut cidx = vec![Default::default(); ag.n];
    let mut dummies = Vec::new();
    for &a in node_order {
        if ag.n <= 12 && rng.chance(35) {
            dummies.push(g.add_node(usize::MAX));
        }
        cidx[a] = g.add_node(a);
    }
    for d in dummies {
        g.remove_node(d);
    }
    for &k in edge_order {
        let (a, b, w) = ag.edges[k];
        g.add_edge(cidx[a], cidx[b], wc(w));
    }
    g
}

fn enc_map_w<Ty: EdgeType, W: Wt, S: BuildHasher + Default>(ag: &AG, node_order: &[usize], edge_order: &[usize], wc: WConv<W>) -> GraphMap<usize, W, Ty, S> {
    let mut g = GraphMap::<usize, W, Ty, S>::default();
    for &a in node_order {
        g.add_node(a);
    }
    for &k in edge_order {
        let (a, b, w) = ag.edges[k];
        g.add_edge(a, b, wc(w));
    }
    g
}

fn enc_csr_w<Ty: EdgeType, W: Wt, Ix: IndexType>(ag: &AG, node_order: &[usize], edge_order: &[usize], wc: WConv<W>) -> Csr<usize, W, Ty, Ix> {
    let mut g = Csr::<usize, W, Ty, Ix>::new();
    let mut cidx: Vec<Ix> = vec![Ix::new(0); ag.n];
    for &a in node_order {
        cidx[a] = g.add_node(a);
    }
    for &k in edge_order {
        let (a, b, w) = ag.edges[k];
        g.add_edge(cidx[a], cidx[b], wc(w));
    }
    g
}

fn enc_list_w<W: Wt, Ix: IndexType>(ag: &AG, node_order: &[usize], edge_order: &[usize], wc: WConv<W>) -> List<W, Ix> {
    let mut g = List::<W, Ix>::new();
    let mut cidx: Vec<Ix> = vec![Ix::new(0); ag.n];
    for &a in node_order {
        cidx[a] = g.add_node();
    }
    for &k in edge_order {
        let (a, b, w) = ag.edges[k];
        g.add_edge(cidx[a], cidx[b], wc(w));
    }
    g
}

/// Graph with one of four construction histories: plain; built reversed and `reverse()`d; a clone whose
/// original is cleared afterwards; junk edges added and `clear_edges()`ed before the real ones
fn enc_graph_hist<Ty: EdgeType, Ix: IndexType>(rng: &mut Rng, ag: &AG, node_order: &[usize], edge_order: &[usize]) -> (EncGraph<Ty, Ix>, &'static str) {
    match rng.weighted(&[70, 10, 10, 10]) {
        1 => {
            let rag = AG { directed: ag.directed, n: ag.n, edges: ag.edges.iter().map(|&(a, b, w)| (b, a, w)).collect() };
            let mut e = enc_graph::<Ty, Ix>(&rag, node_order, edge_order);
            e.g.reverse();
            (e, "reverse")
        }
        2 => {
            let mut e = enc_graph::<Ty, Ix>(ag, node_order, edge_order);
            let c = e.g.clone();
            e.g.clear();
            (EncGraph { g: c, eid: e.eid }, "clone")
        }
        3 => {
            let mut g = Graph::<usize, i64, Ty, Ix>::with_capacity(0, 0);
            let mut cidx = vec![Default::default(); ag.n];
            for &a in node_order {
                cidx[a] = g.add_node(a);
            }
            for _ in 0..rng.below(4) {
                if ag.n > 0 {
                    let (x, y) = (rng.below(ag.n), rng.below(ag.n));
                    g.add_edge(cidx[x], cidx[y], -999);
                }
            }
            g.clear_edges();
            let mut eid = Vec::new();
            for &k in edge_order {
                let (a, b, w) = ag.edges[k];
                g.add_edge(cidx[a], cidx[b], w);
                eid.push(k);
            }
            (EncGraph { g, eid }, "clear_edges")
        }
        _ => (enc_graph::<Ty, Ix>(ag, node_order, edge_order), "plain"),
    }
}

// ------------------------------------------------------------------------------------------------
// adaptor sections: the same algorithms on `Reversed`, `&EdgeFiltered`, `&NodeFiltered`,
// `UndirectedAdaptor`, `&Frozen` over the base graph `g` of the case (whose view was the first section)

fn ekey(ag: &AG, a: usize, b: usize, w: i64) -> (usize, usize, i64) {
    if ag.directed || a <= b { (a, b, w) } else { (b, a, w) }
}

/// a random subset of the edge classes (endpoints + cost) and the abstract graph it leaves
fn edge_filter_ag(rng: &mut Rng, ag: &AG) -> (AG, std::collections::HashSet<(usize, usize, i64)>) {
    let pct = *rng.pick(&[50u32, 70, 70, 90]);
    let mut kept = std::collections::HashSet::new();
    let mut dropped = std::collections::HashSet::new();
    let mut fag = AG { directed: ag.directed, n: ag.n, edges: Vec::new() };
    for &(a, b, w) in &ag.edges {
        let k = ekey(ag, a, b, w);
        if !kept.contains(&k) && !dropped.contains(&k) {
            if rng.chance(pct) { kept.insert(k); } else { dropped.insert(k); }
        }
        if kept.contains(&k) {
            fag.edges.push((a, b, w));
        }
    }
    (fag, kept)
}

fn node_filter_ag(rng: &mut Rng, sec: &Sec) -> (AG, Vec<bool>, Vec<usize>, Vec<usize>) {
    let ag = sec.ag;
    let mut keepn: Vec<bool> = (0..ag.n).map(|_| rng.chance(75)).collect();
    if let Some(&s) = sec.sources.first() {
        keepn[s] = true;
    }
    let fag = AG { directed: ag.directed, n: ag.n, edges: ag.edges.iter().cloned().filter(|&(a, b, _)| keepn[a] && keepn[b]).collect() };
    let ids: Vec<usize> = sec.ids.iter().cloned().filter(|&a| keepn[a]).collect();
    let sources: Vec<usize> = sec.sources.iter().cloned().filter(|&a| keepn[a]).collect();
    (fag, keepn, ids, sources)
}

/// `&NodeFiltered<G, F>` (any base)
fn adapt_nfilt<G, W: Wt>(ctx: &mut Ctx, rng: &mut Rng, sec: &Sec, g: G, abs: &dyn Fn(G::NodeId) -> usize, conc: &dyn Fn(usize) -> G::NodeId, base: &str)
where
    G: IntoNodeIdentifiers + IntoEdges<EdgeWeight = W> + NodeIndexable + GraphProp + Copy,
    G::NodeId: Debug,
{
    let (fag, keepn, ids, sources) = node_filter_ag(rng, sec);
    let f = NodeFiltered::from_fn(g, |x: G::NodeId| keepn[abs(x)]);
    let fg = &f;
    let sec2 = Sec { ag: &fag, ids: &ids, sources: &sources, laws: false, ..*sec };
    emit_view(ctx, &fag, fg, abs, &format!("nodefiltered-{}", base), "");
    run_spfa_only(ctx, &sec2, fg, abs, conc);
}

macro_rules! adapt_common {
    ($name:ident, $run:ident, [$($bound:tt)*]) => {
        /// `&EdgeFiltered<G, F>`, `&NodeFiltered<G, F>` or `&Frozen<G>` over the base `g`
        fn $name<G, W: Wt>(ctx: &mut Ctx, rng: &mut Rng, sec: &Sec, g: G, abs: &dyn Fn(G::NodeId) -> usize, conc: &dyn Fn(usize) -> G::NodeId, base: &str)
        where
            G: $($bound)*,
            G::NodeId: Debug + Eq + Hash,
        {
            match rng.weighted(&[40, 30, 30]) {
                0 => {
                    let (fag, kept) = edge_filter_ag(rng, sec.ag);
                    let f = EdgeFiltered::from_fn(g, |er: G::EdgeRef| kept.contains(&ekey(sec.ag, abs(er.source()), abs(er.target()), er.weight().to64() as i64)));
                    let fg = &f;
                    let sec2 = Sec { ag: &fag, laws: false, ..*sec };
                    emit_view(ctx, &fag, fg, abs, &format!("edgefiltered-{}", base), "");
                    $run(ctx, &sec2, fg, abs, conc);
                }
                1 => adapt_nfilt(ctx, rng, sec, g, abs, conc, base),
                _ => {
                    let mut gr = g;
                    let fz = Frozen::new(&mut gr);
                    let fg = &fz;
                    let sec2 = Sec { laws: false, ..*sec };
                    emit_view(ctx, sec.ag, fg, abs, &format!("frozen-{}", base), "");
                    $run(ctx, &sec2, fg, abs, conc);
                }
            }
        }
    };
}
adapt_common!(adapt_common_full, run_full_b, [NodeCount + IntoNodeIdentifiers + IntoEdges<EdgeWeight = W> + NodeIndexable + Visitable + NodeCompactIndexable + GraphProp + Copy]);
adapt_common!(adapt_common_nofw, run_nofw_b, [NodeCount + IntoNodeIdentifiers + IntoEdges<EdgeWeight = W> + NodeIndexable + Visitable + GraphProp + Copy]);

fn reversed_ag(ag: &AG) -> AG {
    AG { directed: ag.directed, n: ag.n, edges: ag.edges.iter().map(|&(a, b, w)| (b, a, w)).collect() }
}

macro_rules! adapt_dir {
    ($name:ident, $run:ident, [$($bound:tt)*]) => {
        /// `Reversed<G>` or (directed base) `UndirectedAdaptor<G>` over a base with `IntoEdgesDirected`;
        /// `qrev` / `qund` = the open finding the adaptor exposes on this base, if any
        fn $name<G, W: Wt>(ctx: &mut Ctx, rng: &mut Rng, sec: &Sec, g: G, abs: &dyn Fn(G::NodeId) -> usize, conc: &dyn Fn(usize) -> G::NodeId, base: &str, qrev: &str, qund: &str)
        where
            G: $($bound)*,
            G::NodeId: Debug + Eq + Hash,
        {
            if sec.ag.directed && rng.chance(50) {
                let uag = AG { directed: false, n: sec.ag.n, edges: sec.ag.edges.clone() };
                let sec2 = Sec { ag: &uag, laws: false, ..*sec };
                let ug = UndirectedAdaptor(g);
                emit_view(ctx, &uag, ug, abs, &format!("undirected-{}", base), qund);
                $run(ctx, &sec2, ug, abs, conc);
            } else {
                let rag = reversed_ag(sec.ag);
                let sec2 = Sec { ag: &rag, laws: false, ..*sec };
                let rg = Reversed(g);
                emit_view(ctx, &rag, rg, abs, &format!("reversed-{}", base), qrev);
                $run(ctx, &sec2, rg, abs, conc);
            }
        }
    };
}
adapt_dir!(adapt_dir_full, run_full_b, [NodeCount + IntoNodeIdentifiers + IntoEdgesDirected<EdgeWeight = W> + NodeIndexable + Visitable + NodeCompactIndexable + GraphProp + Copy]);
adapt_dir!(adapt_dir_nofw, run_nofw_b, [NodeCount + IntoNodeIdentifiers + IntoEdgesDirected<EdgeWeight = W> + NodeIndexable + Visitable + GraphProp + Copy]);

/// `Reversed<G>` / `UndirectedAdaptor<G>` over a directed base without `IntoEdgesDirected` (Csr, adj::List):
/// only `IntoEdgeReferences` survives, i.e. floyd_warshall(_path)
fn adapt_refs<G, W: Wt>(ctx: &mut Ctx, rng: &mut Rng, sec: &Sec, g: G, abs: &dyn Fn(G::NodeId) -> usize, conc: &dyn Fn(usize) -> G::NodeId, base: &str)
where
    G: NodeCompactIndexable + IntoEdgeReferences<EdgeWeight = W> + IntoNodeIdentifiers + GraphProp + Copy,
    G::NodeId: Debug + Eq + Hash,
{
    if rng.chance(50) {
        let uag = AG { directed: false, n: sec.ag.n, edges: sec.ag.edges.clone() };
        let sec2 = Sec { ag: &uag, laws: false, ..*sec };
        let ug = UndirectedAdaptor(g);
        emit_view_refs(ctx, &uag, ug, abs, &format!("undirected-{}", base));
        calls_fw_b(ctx, &sec2, ug, abs, conc);
    } else {
        let rag = reversed_ag(sec.ag);
        let sec2 = Sec { ag: &rag, laws: false, ..*sec };
        let rg = Reversed(g);
        emit_view_refs(ctx, &rag, rg, abs, &format!("reversed-{}", base));
        calls_fw_b(ctx, &sec2, rg, abs, conc);
    }
}

// ------------------------------------------------------------------------------------------------
// unusual-but-legal float costs: +inf, max(), NaN on EXTRA edges of a plain Graph.  An edge of cost
// +inf (FloatMeasure) or max() (BoundedMeasure: the algorithms' own "no path") can be on no walk of finite
// cost, so all answers must be those of the graph without it (which the driver has judged in this case).
// With NaN costs only the part of the answer no NaN edge can influence is determined.

struct Res {
    bf: Option<Vec<f64>>,
    fnc: bool,
    sp: Option<Vec<f64>>,
    fw: Option<Vec<f64>>,
    fwi: Option<Vec<i32>>,
}

fn results<Ty: EdgeType>(g: &Graph<usize, f64, Ty, u32>, s: usize) -> Res {
    let n = g.node_count();
    let src = petgraph::graph::NodeIndex::<u32>::new(s);
    Res {
        bf: bellman_ford(g, src).ok().map(|p| p.distances),
        fnc: find_negative_cycle(g, src).is_some(),
        sp: spfa(g, src, |e| *e.weight()).ok().map(|p| p.distances),
        fw: floyd_warshall(g, |e| *e.weight()).ok().map(|m| { let mut v = Vec::new(); for a in 0..n { for b in 0..n { v.push(*m.get(&(petgraph::graph::NodeIndex::new(a), petgraph::graph::NodeIndex::new(b))).unwrap_or(&f64::NAN)); } } v }),
        fwi: floyd_warshall(g, |e| *e.weight() as i32).ok().map(|m| { let mut v = Vec::new(); for a in 0..n { for b in 0..n { v.push(*m.get(&(petgraph::graph::NodeIndex::new(a), petgraph::graph::NodeIndex::new(b))).unwrap_or(&i32::MIN)); } } v }),
    }
}

fn special_cost_laws<Ty: EdgeType>(ctx: &mut Ctx, rng: &mut Rng, ag: &AG, s: usize) {
    let n = ag.n;
    let build = |extra: &[(usize, usize, f64)]| -> Graph<usize, f64, Ty, u32> {
        let mut g = Graph::<usize, f64, Ty, u32>::with_capacity(0, 0);
        for a in 0..n { g.add_node(a); }
        for &(a, b, w) in &ag.edges { g.add_edge(petgraph::graph::NodeIndex::new(a), petgraph::graph::NodeIndex::new(b), w as f64); }
        for &(a, b, w) in extra { g.add_edge(petgraph::graph::NodeIndex::new(a), petgraph::graph::NodeIndex::new(b), w); }
        g
    };
    let k = 1 + rng.below(3);
    let ends: Vec<(usize, usize)> = (0..k).map(|_| (rng.below(n), rng.below(n))).collect();
    let base = match catch(|| results(&build(&[]), s)) { Some(r) => r, None => { law_line(ctx, &format!("special-costs base {}", s), None); return; } };
    let same = |a: &Option<Vec<f64>>, b: &Option<Vec<f64>>| match (a, b) { (None, None) => true, (Some(x), Some(y)) => x == y, _ => false };
    for (name, w) in [("inf", f64::INFINITY), ("max", f64::MAX)] {
        let extra: Vec<(usize, usize, f64)> = ends.iter().map(|&(a, b)| (a, b, w)).collect();
        let r = catch(|| {
            let v = results(&build(&extra), s);
            if name == "inf" && !same(&v.bf, &base.bf) { return Some(format!("bellman_ford changes when edges {:?} of cost +inf are added", ends)); }
            if name == "inf" && v.fnc != base.fnc { return Some(format!("find_negative_cycle changes when edges {:?} of cost +inf are added", ends)); }
            if !same(&v.sp, &base.sp) { return Some(format!("spfa::<f64> changes when edges {:?} of cost {} are added", ends, name)); }
            if !same(&v.fw, &base.fw) { return Some(format!("floyd_warshall::<f64> changes when edges {:?} of cost {} are added", ends, name)); }
            if v.fwi != base.fwi { return Some(format!("floyd_warshall::<i32> changes when edges {:?} of cost i32::MAX are added", ends)); }
            None
        });
        law_line(ctx, &format!("special-costs {} {}", name, s), r);
    }
    // NaN: X = everything a walk through a NaN edge can end in
    let extra: Vec<(usize, usize, f64)> = ends.iter().map(|&(a, b)| (a, b, f64::NAN)).collect();
    let mut inx = vec![false; n];
    let mut stack: Vec<usize> = Vec::new();
    for &(a, b) in &ends { stack.push(b); if !ag.directed { stack.push(a); } }
    while let Some(x) = stack.pop() {
        if inx[x] { continue; }
        inx[x] = true;
        for &(a, b, _) in ag.edges.iter() { if a == x { stack.push(b); } if !ag.directed && b == x { stack.push(a); } }
        for &(a, b) in &ends { if a == x { stack.push(b); } if !ag.directed && b == x { stack.push(a); } }
    }
    let r = catch(|| {
        let v = results(&build(&extra), s);
        let single = |what: &str, b: &Option<Vec<f64>>, v: &Option<Vec<f64>>| -> Option<String> {
            match (b, v) {
                (None, Some(_)) => Some(format!("{}: Ok although a negative cycle without NaN edges is reachable", what)),
                (Some(x), Some(y)) => (0..n).find(|&a| !inx[a] && x[a] != y[a]).map(|a| format!("{}: distance of node {} (not behind a NaN edge) changes", what, a)),
                _ => None,
            }
        };
        if let Some(w) = single("bellman_ford", &base.bf, &v.bf) { return Some(w); }
        if let Some(w) = single("spfa::<f64>", &base.sp, &v.sp) { return Some(w); }
        if base.fnc && !v.fnc { return Some("find_negative_cycle: None although a negative cycle without NaN edges is reachable".into()); }
        match (&base.fw, &v.fw) {
            (None, Some(_)) => return Some("floyd_warshall: Ok although the graph has a negative cycle without NaN edges".into()),
            (Some(x), Some(y)) => { for a in 0..n { for b in 0..n { if !inx[b] && x[a * n + b] != y[a * n + b] { return Some(format!("floyd_warshall: entry ({},{}) (not behind a NaN edge) changes", a, b)); } } } }
            _ => {}
        }
        None
    });
    law_line(ctx, &format!("special-costs nan {}", s), r);
}
/// A bound, computable before the encoding is chosen, on the `L = |V|*node_bound*M + |V|` the driver
/// computes from the view (Model/C11Checks.lean `spfaLenC`): `node_bound <= 4n+8` in every encoding
/// (enc_stable inserts at most 3 dummies per node and one more at the end, enc_matrix_w at most one per
/// node; adaptors keep the node_bound of their base), and no out-list is longer than `2m` (an undirected self-loop may be listed twice; `UndirectedAdaptor`
/// chains the in- and the out-list).
fn len_bound(ag: &AG) -> i64 {
    let (n, m) = (ag.n as i64, ag.edges.len() as i64);
    (n * (4 * n + 8) * (2 * m).max(1) + n).max(1)
}

fn max_abs_cost(ag: &AG) -> i64 {
    ag.edges.iter().map(|e| e.2.abs()).max().unwrap_or(0)
}

/// The largest cost magnitude for which the driver's width checks hold for `i32`, the narrowest cost
/// type the case is run with: `L*Wm < i32::MAX` (`fitSpfaB`); it implies `fitFloydB` (2|V| <= L), the
/// `i64` instances, and the exact-integer range `2^53` of the `f64` instances and of bellman_ford.
fn cost_limit(ag: &AG) -> i64 {
    (i32::MAX as i64 - 1) / len_bound(ag)
}

/// the generator keeps the costs inside the proved no-overflow range (never needed by the families
/// below, whose costs stay under 200; the driver re-checks with the exact `L` of the view and answers
/// `SPECFAIL generator left the proved range` otherwise)
fn keep_in_range(ag: &mut AG) -> bool {
    let lim = cost_limit(ag);
    let mut clamped = false;
    for e in ag.edges.iter_mut() {
        if e.2.abs() > lim {
            e.2 = e.2.clamp(-lim, lim);
            clamped = true;
        }
    }
    clamped
}

/// structure-directed weighted graphs: see props/C11.json `rule`
fn gen_regular(rng: &mut Rng, thorough: bool) -> (AG, String, Option<Vec<usize>>) {
    let mut hint: Option<Vec<usize>> = None;
    let directed = rng.chance(70);
    let max_n = if thorough { 11 } else { 8 };
    let simple = rng.chance(50);
    let mk = |wlo: i64, whi: i64, rng: &mut Rng| {
        if simple { GenOpts { max_n, loops: rng.chance(50), parallel: false, wlo, whi } } else { GenOpts::multi(max_n, wlo, whi) }
    };
    let tag;
    let mut ag;
    if rng.chance(7) {
        // tiny dense graphs: the whole space of (multi)graphs on <= 3 nodes with costs in [-2,2] is
        // sampled densely (minimal witnesses live here: D13, D14, D15)
        tag = "tiny";
        let n = 1 + rng.below(3);
        let mut edges = Vec::new();
        for a in 0..n {
            for b in 0..n {
                if !directed && b < a { continue; }
                if rng.chance(45) {
                    edges.push((a, b, rng.range(-2, 2)));
                    if !simple && rng.chance(15) { edges.push((a, b, rng.range(-2, 2))); }
                }
            }
        }
        ag = AG { directed, n, edges };
    } else if directed {
        match rng.weighted(&[20, 10, 8, 12, 24, 16, 10]) {
            0 => { tag = "mixed"; let o = mk(-3, 4, rng); ag = gen_graph(rng, true, o).0; }
            1 => { tag = "mild"; let o = mk(-1, 3, rng); ag = gen_graph(rng, true, o).0; }
            2 => { tag = "nonneg"; let o = mk(0, 2, rng); ag = gen_graph(rng, true, o).0; }
            3 => {
                // prefer the larger ones: the work-list blow-ups need 6+ nodes
                tag = "dagexp";
                let o = mk(-64, 64, rng);
                ag = gen_family(rng, true, 14, o);
                for _ in 0..3 {
                    if ag.n + 2 >= max_n { break; }
                    ag = gen_family(rng, true, 14, o);
                }
            }
            6 => {
                // complete DAG along a hidden order with convex costs (j-i)^2 (every extra hop is
                // cheaper: the family on which a LIFO work list re-expands suffixes exponentially,
                // cf. D26), a few edges dropped or perturbed, shifted by a random potential so that
                // the signs are mixed
                tag = "convexdag";
                let n = max_n - rng.below(3);
                let ord = random_perm(rng, n);
                let mut edges = Vec::new();
                for i in 0..n {
                    for j in (i + 1)..n {
                        if rng.chance(92) {
                            let d = (j - i) as i64;
                            let w = d * d + if rng.chance(10) { rng.range(0, 1) } else { 0 };
                            edges.push((ord[i], ord[j], w));
                        }
                    }
                }
                // 70 %: keep the edges in hidden-order and tell the encoder (ordered insertion makes the
                // neighbour iteration monotone along the hidden order in every storage type)
                if rng.chance(70) { hint = Some(ord.clone()); } else { rng.shuffle(&mut edges); }
                let pi: Vec<i64> = (0..n).map(|_| rng.range(-4, 4)).collect();
                for e in edges.iter_mut() {
                    e.2 += pi[e.0] - pi[e.1];
                }
                ag = AG { directed: true, n, edges };
            }
            4 => {
                // non-negative reduced costs + a random potential: negative edges, zero-cost cycles,
                // but no negative cycle
                tag = "potential";
                let o = mk(0, 2, rng);
                ag = gen_graph(rng, true, o).0;
                let pi: Vec<i64> = (0..ag.n).map(|_| rng.range(-3, 3)).collect();
                for e in ag.edges.iter_mut() {
                    e.2 += pi[e.0] - pi[e.1];
                }
            }
            _ => {
                tag = "acyclic";
                let fam = *rng.pick(&[3usize, 4, 4, 6, 9, 13]);
                let o = GenOpts { loops: false, ..mk(-3, 4, rng) };
                ag = gen_family(rng, true, fam, o);
            }
        }
    } else {
        match rng.weighted(&[45, 30, 25]) {
            0 => { tag = "u-nonneg"; let o = mk(0, 3, rng); ag = gen_graph(rng, false, o).0; }
            1 => {
                // one negative edge somewhere (possibly in a part the source cannot reach)
                tag = "u-oneneg";
                let o = mk(0, 3, rng);
                ag = gen_graph(rng, false, o).0;
                if !ag.edges.is_empty() {
                    let k = rng.below(ag.edges.len());
                    ag.edges[k].2 = -rng.range(1, 3);
                }
            }
            _ => { tag = "u-mixed"; let o = mk(-1, 4, rng); let fam = *rng.pick(&[0usize, 3, 9, 15, 13]); ag = gen_family(rng, false, fam, o); }
        }
    }
    // plants
    let n = ag.n;
    let mut tags = tag.to_string();
    if n > 0 && !simple && rng.chance(8) {
        let a = rng.below(n);
        ag.edges.push((a, a, -rng.range(1, 2)));
        tags.push_str("+negloop");
    } else if n > 0 && simple && !ag.has_loop() && rng.chance(6) {
        let a = rng.below(n);
        ag.edges.push((a, a, -1));
        tags.push_str("+negloop");
    }
    if directed && n >= 2 && !simple && rng.chance(10) {
        // a negative 2-cycle between two random nodes
        let a = rng.below(n);
        let b = (a + 1 + rng.below(n - 1)) % n;
        ag.edges.push((a, b, 1));
        ag.edges.push((b, a, -2));
        tags.push_str("+neg2cycle");
    }
    // large magnitudes: all costs multiplied by one factor (signs of all walk and cycle costs are
    // kept), half of the time the largest one that keeps `L*Wm < i32::MAX`, i.e. the edge of the
    // range for which the i32 instances are proved free of overflow
    if rng.chance(12) {
        let (lim, wm) = (cost_limit(&ag), max_abs_cost(&ag));
        if wm > 0 && lim / wm >= 2 {
            let kmax = lim / wm;
            let k = if rng.chance(50) { kmax } else { 2 + rng.below((kmax - 1) as usize) as i64 };
            for e in ag.edges.iter_mut() {
                e.2 *= k;
            }
            tags.push_str("+scaled");
        }
    }
    if keep_in_range(&mut ag) {
        tags.push_str("+clamped");
    }
    (ag, tags, hint)
}


/// one generated case: the abstract graph, its tags, an insertion-order hint, a forced encoding, and how much
/// of floyd_warshall a graph of this size gets (`Sec::big`)
struct GenCase {
    ag: AG,
    tags: String,
    hint: Option<Vec<usize>>,
    force: Option<usize>,
    big: u8,
}

/// corner families (8.5 % of the cases) in front of the regular ones: the empty graph, a single node with
/// loops, graphs that fill the `u8` index type (255 nodes, or one below; 253..255 edges), rows of 31/32/33
/// entries (the linear / binary search cut-off of Csr), node counts around a power of two (MatrixGraph grows
/// its capacity in powers of two)
fn gen_case(rng: &mut Rng, thorough: bool) -> GenCase {
    let directed = rng.chance(70);
    match rng.weighted(&[915, 10, 25, 7, 18, 25]) {
        1 => GenCase { ag: AG { directed, n: 0, edges: Vec::new() }, tags: "empty".into(), hint: None, force: None, big: 0 },
        2 => {
            let mut edges = Vec::new();
            for _ in 0..rng.below(4) {
                edges.push((0, 0, rng.range(-2, 2)));
            }
            GenCase { ag: AG { directed, n: 1, edges }, tags: "single".into(), hint: None, force: None, big: 0 }
        }
        3 => {
            let n = 254 + rng.below(2);
            let target = 253 + rng.below(3);
            let mut edges: Vec<(usize, usize, i64)> = Vec::new();
            for b in 1..n {
                if rng.chance(97) && edges.len() < target {
                    let a = rng.below(b);
                    if directed && rng.chance(40) { edges.push((b, a, rng.range(0, 2))) } else { edges.push((a, b, rng.range(0, 2))) }
                }
            }
            while edges.len() < target {
                edges.push((rng.below(n), rng.below(n), rng.range(0, 2)));
            }
            let mut tags = "cap-u8".to_string();
            if directed {
                let pi: Vec<i64> = (0..n).map(|_| rng.range(-2, 2)).collect();
                for e in edges.iter_mut() {
                    e.2 += pi[e.0] - pi[e.1];
                }
                if rng.chance(10) {
                    let k = rng.below(edges.len());
                    edges[k].2 = -9;
                    tags.push_str("+neg");
                }
            } else if rng.chance(10) {
                let k = rng.below(edges.len());
                edges[k].2 = -1;
                tags.push_str("+neg");
            }
            GenCase { ag: AG { directed, n, edges }, tags, hint: None, force: Some(if rng.chance(60) { 1 } else { 9 }), big: 2 }
        }
        4 => {
            let d = 31 + rng.below(3);
            let n = d + 1 + rng.below(3);
            let p = random_perm(rng, n);
            let mut edges: Vec<(usize, usize, i64)> = (1..=d).map(|i| (p[0], p[i], rng.range(-1, 3))).collect();
            for _ in 0..rng.below(7) {
                let (a, b) = (rng.below(n), rng.below(n));
                if a != b && !edges.iter().any(|&(x, y, _)| (x == a && y == b) || (!directed && x == b && y == a)) {
                    edges.push((a, b, if directed { rng.range(-1, 3) } else { rng.range(0, 3) }));
                }
            }
            if !directed && rng.chance(70) {
                for e in edges.iter_mut() { e.2 = e.2.abs(); }
            }
            rng.shuffle(&mut edges);
            GenCase { ag: AG { directed, n, edges }, tags: format!("star{}", d), hint: None, force: if rng.chance(60) { Some(5) } else { None }, big: 1 }
        }
        5 => {
            let large = thorough && rng.chance(30);
            let n = if large { 31 + rng.below(3) } else { 15 + rng.below(3) };
            let mut edges = Vec::new();
            let nonneg = !directed && rng.chance(70);
            for a in 0..n {
                for b in 0..n {
                    if (directed || a <= b) && rng.chance(if large { 4 } else { 8 }) && (a != b || rng.chance(30)) {
                        edges.push((a, b, if nonneg { rng.range(0, 3) } else { rng.range(-1, 3) }));
                    }
                }
            }
            GenCase { ag: AG { directed, n, edges }, tags: format!("pow2-{}", n), hint: None, force: if rng.chance(70) { Some(if rng.chance(50) { 3 } else { 10 }) } else { None }, big: if large { 2 } else { 1 } }
        }
        _ => {
            let (ag, tags, hint) = gen_regular(rng, thorough);
            GenCase { ag, tags, hint, force: None, big: 0 }
        }
    }
}

macro_rules! with_ty {
    ($directed:expr, $f:ident, $($args:expr),*) => {
        if $directed { $f::<Directed>($($args),*) } else { $f::<Undirected>($($args),*) }
    };
}

/// orders of insertion and the inverse of the node order
struct Orders {
    node_order: Vec<usize>,
    edge_order: Vec<usize>,
    inv: Vec<usize>,
}

fn orders(rng: &mut Rng, ag: &AG, hint: &Option<Vec<usize>>) -> Orders {
    let n = ag.n;
    let mut node_order = random_perm(rng, n);
    let mut edge_order = random_perm(rng, ag.edges.len());
    if let Some(ord) = hint {
        // monotone insertion (either direction) of nodes and edges
        node_order = ord.clone();
        edge_order = (0..ag.edges.len()).collect();
        if rng.chance(50) { node_order.reverse(); }
        if rng.chance(50) { edge_order.reverse(); }
    }
    let mut inv = vec![0usize; n];
    for (i, &a) in node_order.iter().enumerate() {
        inv[a] = i;
    }
    Orders { node_order, edge_order, inv }
}

fn sec_graph<Ty: EdgeType, Ix: IndexType, W: Wt, L: Level>(ctx: &mut Ctx, rng: &mut Rng, sec: &Sec, o: &Orders, wc: WConv<W>, ixname: &str, adapt: bool) {
    let ag = sec.ag;
    let (e, hist) = enc_graph_hist::<Ty, Ix>(rng, ag, &o.node_order, &o.edge_order);
    let g0 = e.g.map(|_, a| *a, |_, w| wc(*w));
    let g = &g0;
    let abs = |x: petgraph::graph::NodeIndex<Ix>| g[x];
    let conc = |a: usize| petgraph::graph::NodeIndex::<Ix>::new(o.inv[a]);
    let line = view_line(ag, g, &abs, &|er, _| e.eid[EdgeRef::id(&er).index()]);
    ctx.line(&format!("{} what=graph-{}-{}", line, ixname, hist), "ok");
    L::full(ctx, sec, g, &abs, &conc);
    if adapt {
        if rng.chance(50) { adapt_common_full(ctx, rng, sec, g, &abs, &conc, "graph") } else { adapt_dir_full(ctx, rng, sec, g, &abs, &conc, "graph", "", "d23") }
    }
}

fn sec_stable<Ty: EdgeType, Ix: IndexType, W: Wt, L: Level>(ctx: &mut Ctx, rng: &mut Rng, sec: &Sec, o: &Orders, wc: WConv<W>, ixname: &str, adapt: bool) {
    let ag = sec.ag;
    let n = ag.n;
    let e = enc_stable::<Ty, Ix>(rng, ag, &o.node_order, &o.edge_order, n <= 40);
    let g0 = e.g.map(|_, a| *a, |_, w| wc(*w));
    let g = &g0;
    let cidx: Vec<_> = { let mut v = vec![petgraph::graph::NodeIndex::<Ix>::new(0); n]; for x in g.node_indices() { v[g[x]] = x; } v };
    let abs = |x: petgraph::graph::NodeIndex<Ix>| g[x];
    let conc = |a: usize| cidx[a];
    let line = view_line(ag, g, &abs, &|er, _| e.eid[EdgeRef::id(&er).index()]);
    ctx.line(&format!("{} what=stable-{}", line, ixname), "ok");
    L::nofw(ctx, sec, g, &abs, &conc);
    if adapt {
        if rng.chance(50) { adapt_common_nofw(ctx, rng, sec, g, &abs, &conc, "stable") } else { adapt_dir_nofw(ctx, rng, sec, g, &abs, &conc, "stable", "", "d23") }
    }
}

fn sec_matrix<Ty: EdgeType, S: BuildHasher + Default, Ix: IndexType, W: Wt, L: Level>(ctx: &mut Ctx, rng: &mut Rng, sec: &Sec, o: &Orders, wc: WConv<W>, name: &str, adapt: bool) {
    let ag = sec.ag;
    let n = ag.n;
    // capacities at and around the powers of two the matrix grows by
    let cap = if n > 12 && rng.chance(60) { Some(*rng.pick(&[n - 1, n, n + 1, 16, 32])) } else { None };
    let g0 = enc_matrix_w::<Ty, W, S, Ix>(rng, ag, &o.node_order, &o.edge_order, wc, cap);
    let g = &g0;
    let cidx: Vec<_> = { let mut v = vec![petgraph::matrix_graph::NodeIndex::<Ix>::new(0); n]; for x in g.node_identifiers() { v[*g.node_weight(x)] = x; } v };
    let abs = |x: petgraph::matrix_graph::NodeIndex<Ix>| *g.node_weight(x);
    let conc = |a: usize| cidx[a];
    emit_view(ctx, ag, g, &abs, name, "");
    L::nofw(ctx, sec, g, &abs, &conc);
    if adapt {
        adapt_common_nofw(ctx, rng, sec, g, &abs, &conc, "matrix");
    }
}

/// directed MatrixGraph also has `IntoEdgesDirected`: `Reversed` (exposes D6) and `UndirectedAdaptor`
/// (correct here: the D6 orientation of the incoming edges is the one the adaptor needs)
fn case_matrix_directed(ctx: &mut Ctx, rng: &mut Rng, sec: &Sec, o: &Orders) {
    let ag = sec.ag;
    let n = ag.n;
    let wc = |w: i64| w as f64;
    let g0 = enc_matrix_w::<Directed, f64, Rs, u16>(rng, ag, &o.node_order, &o.edge_order, &wc, None);
    let g = &g0;
    let cidx: Vec<_> = { let mut v = vec![petgraph::matrix_graph::NodeIndex::<u16>::new(0); n]; for x in g.node_identifiers() { v[*g.node_weight(x)] = x; } v };
    let abs = |x: petgraph::matrix_graph::NodeIndex<u16>| *g.node_weight(x);
    let conc = |a: usize| cidx[a];
    emit_view(ctx, ag, g, &abs, "matrix-directed", "");
    run_nofw_a(ctx, sec, g, &abs, &conc);
    adapt_dir_nofw(ctx, rng, sec, g, &abs, &conc, "matrix", "d6", "dup");
}

fn sec_map<Ty: EdgeType, S: BuildHasher + Default, W: Wt, L: Level>(ctx: &mut Ctx, rng: &mut Rng, sec: &Sec, o: &Orders, wc: WConv<W>, name: &str, adapt: bool) {
    let ag = sec.ag;
    let g0 = enc_map_w::<Ty, W, S>(ag, &o.node_order, &o.edge_order, wc);
    let g = &g0;
    let abs = |x: usize| x;
    let conc = |a: usize| a;
    let line = view_line(ag, g, &abs, &|er, used| eid_any(ag, EdgeRef::source(&er), EdgeRef::target(&er), EdgeRef::weight(&er).to64() as i64, used));
    ctx.line(&format!("{} what={}", line, name), "ok");
    L::full(ctx, sec, g, &abs, &conc);
    if adapt {
        if rng.chance(50) { adapt_common_full(ctx, rng, sec, g, &abs, &conc, "map") } else { adapt_dir_full(ctx, rng, sec, g, &abs, &conc, "map", "", "d23") }
    }
}

fn sec_csr<Ty: EdgeType, Ix: IndexType, W: Wt, L: Level>(ctx: &mut Ctx, rng: &mut Rng, sec: &Sec, o: &Orders, wc: WConv<W>, name: &str, adapt: bool) {
    let ag = sec.ag;
    let g0 = enc_csr_w::<Ty, W, Ix>(ag, &o.node_order, &o.edge_order, wc);
    let g = &g0;
    let abs = |x: Ix| g[x];
    let conc = |a: usize| Ix::new(o.inv[a]);
    emit_view(ctx, ag, g, &abs, name, "");
    L::full(ctx, sec, g, &abs, &conc);
    if adapt {
        if ag.directed && rng.chance(40) { adapt_refs(ctx, rng, sec, g, &abs, &conc, "csr") } else { adapt_common_full(ctx, rng, sec, g, &abs, &conc, "csr") }
    }
}

fn sec_list<Ix: IndexType, W: Wt, L: Level>(ctx: &mut Ctx, rng: &mut Rng, sec: &Sec, o: &Orders, wc: WConv<W>, name: &str, adapt: bool) {
    let ag = sec.ag;
    let g0 = enc_list_w::<W, Ix>(ag, &o.node_order, &o.edge_order, wc);
    let g = &g0;
    let abs = |x: Ix| o.node_order[x.index()];
    let conc = |a: usize| Ix::new(o.inv[a]);
    emit_view(ctx, ag, g, &abs, name, "");
    L::full(ctx, sec, g, &abs, &conc);
    if adapt {
        if rng.chance(40) { adapt_refs(ctx, rng, sec, g, &abs, &conc, "list") } else { adapt_common_full(ctx, rng, sec, g, &abs, &conc, "list") }
    }
}

fn case_ty<Ty: EdgeType>(ctx: &mut Ctx, rng: &mut Rng, sec: &Sec, o: &Orders, force: Option<usize>, negzero: bool) {
    let ag = sec.ag;
    let wcf = move |w: i64| if negzero && w == 0 { -0.0f64 } else { w as f64 };
    let wc: WConv<f64> = &wcf;
    let mut choices = vec![0, 0, 1, 2, 2, 7, 8, 9];
    if ag.is_simple() {
        choices.extend([3, 4, 4, 5, 5, 10, 11, 12]);
        if ag.directed {
            choices.extend([6, 6, 13]);
        }
    }
    let enc = force.unwrap_or_else(|| *rng.pick(&choices));
    // an adaptor section follows the storage type's own section in 40 % of the cases (default instantiations)
    let adapt = sec.big < 2 && rng.chance(40);
    match enc {
        0 => sec_graph::<Ty, u32, f64, LA>(ctx, rng, sec, o, wc, "u32", adapt),
        1 => sec_graph::<Ty, u8, f64, LB>(ctx, rng, sec, o, wc, "u8", false),
        7 => sec_graph::<Ty, u16, f64, LB>(ctx, rng, sec, o, wc, "u16", false),
        8 => sec_graph::<Ty, usize, f64, LB>(ctx, rng, sec, o, wc, "usize", false),
        2 => sec_stable::<Ty, u32, f64, LA>(ctx, rng, sec, o, wc, "u32", adapt),
        9 => sec_stable::<Ty, u8, f64, LB>(ctx, rng, sec, o, wc, "u8", false),
        3 => sec_matrix::<Ty, Rs, u16, f64, LA>(ctx, rng, sec, o, wc, "matrix", adapt),
        10 => sec_matrix::<Ty, Fx, u8, f64, LB>(ctx, rng, sec, o, wc, "matrix-fx-u8", false),
        4 => sec_map::<Ty, Rs, f64, LA>(ctx, rng, sec, o, wc, "map", adapt),
        11 => sec_map::<Ty, Fx, f64, LB>(ctx, rng, sec, o, wc, "map-fx", false),
        5 => sec_csr::<Ty, u32, f64, LA>(ctx, rng, sec, o, wc, "csr", adapt),
        12 => sec_csr::<Ty, u16, f64, LB>(ctx, rng, sec, o, wc, "csr-u16", false),
        6 => sec_list::<u32, f64, LA>(ctx, rng, sec, o, wc, "list", adapt),
        _ => sec_list::<u8, f64, LB>(ctx, rng, sec, o, wc, "list-u8", false),
    }
}

/// the whole case with `f32` edge weights (bellman_ford / find_negative_cycle compute in f32: `bf32`, `fnc32`)
fn case_f32<Ty: EdgeType>(ctx: &mut Ctx, rng: &mut Rng, sec: &Sec, o: &Orders, negzero: bool) {
    let ag = sec.ag;
    let wcf = move |w: i64| if negzero && w == 0 { -0.0f32 } else { w as f32 };
    let wc: WConv<f32> = &wcf;
    let mut choices = vec![0, 2];
    if ag.is_simple() {
        choices.extend([3, 4, 5]);
    }
    match *rng.pick(&choices) {
        0 => sec_graph::<Ty, u32, f32, LB>(ctx, rng, sec, o, wc, "u32-f32", false),
        2 => sec_stable::<Ty, u32, f32, LB>(ctx, rng, sec, o, wc, "u32-f32", false),
        3 => sec_matrix::<Ty, Rs, u16, f32, LB>(ctx, rng, sec, o, wc, "matrix-f32", false),
        4 => sec_map::<Ty, Rs, f32, LB>(ctx, rng, sec, o, wc, "map-f32", false),
        _ => sec_csr::<Ty, u32, f32, LB>(ctx, rng, sec, o, wc, "csr-f32", false),
    }
}

/// the eleven other `BoundedMeasure` cost types, on a plain `Graph` of the same abstract graph (its own
/// section): up to three types whose range admits the case (`spfa` from the first source, `fw`, `fwp`)
fn extras_section<Ty: EdgeType>(ctx: &mut Ctx, sec: &Sec) {
    let ag = sec.ag;
    let mut g0 = Graph::<usize, f64, Ty, u32>::with_capacity(0, 0);
    for a in 0..ag.n {
        g0.add_node(a);
    }
    for &(a, b, w) in &ag.edges {
        g0.add_edge(petgraph::graph::NodeIndex::new(a), petgraph::graph::NodeIndex::new(b), w as f64);
    }
    let g = &g0;
    let d = dims_edges(sec, g);
    let (ks, kf) = (pick_extras(sec, &d, true), if sec.big >= 1 { Vec::new() } else { pick_extras(sec, &d, false) });
    if (ks.is_empty() || sec.sources.is_empty()) && kf.is_empty() {
        return;
    }
    let abs = |x: petgraph::graph::NodeIndex<u32>| x.index();
    let conc = |a: usize| petgraph::graph::NodeIndex::<u32>::new(a);
    let line = view_line(ag, g, &abs, &|er, _| EdgeRef::id(&er).index());
    ctx.line(&format!("{} what=extras-graph", line), "ok");
    if let Some(&s) = sec.sources.first() {
        for &t in &ks {
            by_cost!(t, call_spfa, [&Graph<usize, f64, Ty, u32>, f64], (ctx, sec, g, &abs, &conc, s, true));
        }
    }
    for &t in &kf {
        by_cost!(t, call_fw, [&Graph<usize, f64, Ty, u32>, f64], (ctx, sec, g, &abs, &conc));
    }
}

fn special_ty<Ty: EdgeType>(ctx: &mut Ctx, rng: &mut Rng, ag: &AG, s: usize) {
    special_cost_laws::<Ty>(ctx, rng, ag, s)
}

pub fn run(ctx: &mut Ctx, case: u64) {
    let mut rng = Rng::for_case(ctx.seed, "C11", case);
    let gc = gen_case(&mut rng, ctx.tier_thorough);
    let ag = &gc.ag;
    let n = ag.n;
    let negzero = rng.chance(5);
    let f32w = gc.big == 0 && gc.force.is_none() && !gc.tags.contains("+scaled") && rng.chance(12);
    let matdir = !f32w && gc.force.is_none() && gc.big == 0 && ag.directed && ag.is_simple() && rng.chance(8);
    let mut tags = gc.tags.clone();
    if negzero { tags.push_str("+negzero"); }
    if f32w { tags.push_str("+f32"); }
    ctx.raw(&format!("case {} {} n={} m={}", case, tags, n, ag.edges.len()));
    let mut sources = Vec::new();
    if n > 0 {
        sources.push(rng.below(n));
    }
    if n > 1 {
        let t = (sources[0] + 1 + rng.below(n - 1)) % n;
        sources.push(t);
    }
    // the convex DAG's interesting source is the first node of the hidden order
    if let Some(ord) = &gc.hint {
        if rng.chance(70) { sources[0] = ord[0]; if sources.len() > 1 && sources[1] == ord[0] { sources[1] = ord[1]; } }
    }
    if gc.big == 2 {
        sources.truncate(1);
    }
    // extra cost types, narrow ones first in 60 % of the cases
    let mut narrow: Vec<&'static str> = EXTRA_NARROW.to_vec();
    let mut wide: Vec<&'static str> = EXTRA_WIDE.to_vec();
    rng.shuffle(&mut narrow);
    rng.shuffle(&mut wide);
    let mut pool: Vec<&'static str> = narrow.into_iter().chain(wide).collect();
    if !rng.chance(60) {
        rng.shuffle(&mut pool);
    }
    let ids: Vec<usize> = (0..n).collect();
    let sec = Sec { ag, ids: &ids, sources: &sources, pool: &pool, laws: true, big: gc.big };
    let o = orders(&mut rng, ag, &gc.hint);
    if f32w {
        with_ty!(ag.directed, case_f32, ctx, &mut rng, &sec, &o, negzero);
    } else if matdir {
        case_matrix_directed(ctx, &mut rng, &sec, &o);
    } else {
        with_ty!(ag.directed, case_ty, ctx, &mut rng, &sec, &o, gc.force, negzero);
    }
    if gc.big < 2 {
        with_ty!(ag.directed, extras_section, ctx, &sec);
    }
    // lines that do not depend on the graph: one cost type's BoundedMeasure / FloatMeasure surface
    let t = *rng.pick(&["i8", "i16", "i32", "i64", "i128", "isize", "u8", "u16", "u32", "u64", "u128", "usize", "f32", "f64"]);
    by_cost!(t, measure_lines, [], (ctx, &mut rng));
    if n >= 1 && n <= 12 && rng.chance(10) {
        with_ty!(ag.directed, special_ty, ctx, &mut rng, ag, sources[0]);
    }
}
