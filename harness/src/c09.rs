//! C09 — kosaraju_scc (and its deprecated alias `scc`), tarjan_scc, TarjanScc::{new, default, run,
//! node_component_index}, connected_components, has_path_connecting, is_cyclic_directed,
//! is_cyclic_undirected, is_bipartite_undirected, toposort (fresh / reused / cloned DfsSpace), `Cycle`
//! and condensation, on every storage type whose trait bounds admit the call AND (wave 6) on every
//! graph adaptor over every such type: `Reversed`, `EdgeFiltered`, `NodeFiltered` (closure and visit-map
//! filters), `UndirectedAdaptor`, `&Frozen`, also stacked two deep.
//!
//! One abstract graph and one encoding (possibly behind an adaptor) per case.  Every answer is printed
//! in abstract node ids.
//!
//!   kosaraju | tarjan            => a,b;c;d            components in the order returned
//!   tarjanrun                    => <comps>|<x:i,..>|<comps>|<x:i,..>   one TarjanScc, run twice
//!   cc er=<s:t,..>               => k                  er = edge_references() in iteration order
//!   cycu er=<s:t,..>             => true|false
//!   haspath fresh|reuse          => a:b,c;b:-;..       row a = all b with has_path_connecting(a,b)
//!   haspath1 a b                 => <reused> <fresh>
//!   stalepath a b                => true|false         a or b is an id that is NOT a node (a vacancy of a
//!                                                      StableGraph, an absent GraphMap node)
//!   cycd                         => true|false
//!   bip <s>                      => true|false|panic   (undirected views only)
//!   toposort fresh|reuse         => ok a,b,c | err x
//!   cond <0|1> eo=<edge ids>     => <members;..>|<s:t:w,..>   eo = abstract edge id per concrete index
//!   space new|default|foreign <m> => -                 the DfsSpace the following `reuse` lines go through:
//!                                                      DfsSpace::new(g) / DfsSpace::default() / one made for and
//!                                                      used on ANOTHER graph with m nodes (dirty, other length)
//!   law <name> …                 => ok | VIOLATED <why>   a law judged in the harness against the
//!                                                      implementation itself (API items without
//!                                                      state-dependent semantics); the driver expects ok
//!
//! The `graph` line of an adaptor case is built from what the algorithms themselves consume
//! (`neighbors`, `neighbors_directed(_, Incoming)`, `node_identifiers`, `to_index`, `node_bound` of the
//! ADAPTOR) next to the abstract graph the adaptor is documented to present; it carries
//! `ad=<chain> bd= bnodes= bedges=` (the adaptor chain and the abstract graph of the base) so that the
//! driver can recompute the abstract graph of the view itself (`adaptOkB`).
use crate::common::*;
use crate::graphs::*;
use crate::iterlaws::{iter_laws, law_verdict};
use crate::rng::Rng;
use petgraph::algo::{
    condensation, connected_components, has_path_connecting, is_bipartite_undirected, is_cyclic_directed,
    is_cyclic_undirected, kosaraju_scc, tarjan_scc, toposort, DfsSpace, TarjanScc,
};
use petgraph::graph::Frozen;
use petgraph::visit::{
    EdgeFiltered, EdgeRef, IntoEdgeReferences, IntoNeighbors, IntoNeighborsDirected, IntoNodeIdentifiers,
    NodeCompactIndexable, NodeFiltered, NodeIndexable, Reversed, UndirectedAdaptor, VisitMap, Visitable,
};
use petgraph::{Directed, Direction, Undirected};
use std::fmt::Debug;

/// edge types whose iterators can be cloned (`Directed`, `Undirected`)
pub trait Et: petgraph::EdgeType + Clone {}
impl<T: petgraph::EdgeType + Clone> Et for T {}

// ------------------------------------------------------------------------------------------------
// the abstract graph of a view (base graph or adaptor over it): explicit node ids and edge ids

#[derive(Clone, Debug)]
pub struct XG {
    pub directed: bool,
    /// the abstract node ids present, ascending
    pub ids: Vec<usize>,
    /// (edge id, src, tgt, weight)
    pub edges: Vec<(usize, usize, usize, i64)>,
}

impl XG {
    pub fn of(ag: &AG) -> XG {
        XG { directed: ag.directed, ids: (0..ag.n).collect(), edges: ag.edges.iter().enumerate().map(|(k, &(a, b, w))| (k, a, b, w)).collect() }
    }
    /// `Reversed`: every edge turned around
    fn rev(&self) -> XG {
        XG { directed: self.directed, ids: self.ids.clone(), edges: self.edges.iter().map(|&(k, a, b, w)| (k, b, a, w)).collect() }
    }
    /// `EdgeFiltered` with the filter `weight >= thr`
    fn ef(&self, thr: i64) -> XG {
        XG { directed: self.directed, ids: self.ids.clone(), edges: self.edges.iter().filter(|e| e.3 >= thr).cloned().collect() }
    }
    /// `NodeFiltered`: the induced subgraph
    fn nf(&self, keep: &dyn Fn(usize) -> bool) -> XG {
        XG {
            directed: self.directed,
            ids: self.ids.iter().cloned().filter(|&i| keep(i)).collect(),
            edges: self.edges.iter().filter(|e| keep(e.1) && keep(e.2)).cloned().collect(),
        }
    }
    /// `UndirectedAdaptor`, as its `neighbors` present it: incoming chained with outgoing, so over a
    /// directed graph every self-loop is listed twice, over an undirected graph every edge is
    fn und(&self) -> XG {
        let mut next = self.edges.iter().map(|e| e.0).max().map_or(0, |m| m + 1);
        let mut edges = self.edges.clone();
        for &(_, a, b, w) in &self.edges {
            if !self.directed || a == b {
                edges.push((next, a, b, w));
                next += 1;
            }
        }
        XG { directed: false, ids: self.ids.clone(), edges }
    }
    /// direction ignored, every edge once (`edge_references` of an `UndirectedAdaptor`)
    fn unde(&self) -> XG {
        XG { directed: false, ids: self.ids.clone(), edges: self.edges.clone() }
    }
    fn edges_str(&self) -> String {
        if self.edges.is_empty() {
            return "-".into();
        }
        self.edges.iter().map(|&(k, a, b, w)| format!("{}:{}:{}:{}", k, a, b, w)).collect::<Vec<_>>().join(";")
    }
}

/// what is appended to the `graph` line: the encoding of the base, the adaptor chain and the base's
/// abstract graph
#[derive(Clone)]
struct Meta {
    enc: String,
    ad: Vec<String>,
    base: XG,
}

impl Meta {
    fn plain(enc: &str, base: &XG) -> Meta {
        Meta { enc: enc.to_string(), ad: Vec::new(), base: base.clone() }
    }
    fn with(&self, a: String) -> Meta {
        let mut m = self.clone();
        m.ad.push(a);
        m
    }
    fn text(&self) -> String {
        if self.ad.is_empty() {
            format!(" enc={}", self.enc)
        } else {
            format!(" enc={} ad={} bd={} bnodes={} bedges={}", self.enc, self.ad.join("+"), self.base.directed as u8, list(self.base.ids.iter()), self.base.edges_str())
        }
    }
}

fn lookup_eid(xg: &XG, a: usize, b: usize, incoming: bool, used: &mut Vec<usize>) -> usize {
    for &(k, x, y, _) in &xg.edges {
        if used.contains(&k) {
            continue;
        }
        let fwd = if incoming { x == b && y == a } else { x == a && y == b };
        let bwd = if incoming { x == a && y == b } else { x == b && y == a };
        if fwd || (!xg.directed && bwd) {
            used.push(k);
            return k;
        }
    }
    0
}

fn row_str(rows: &[(usize, Vec<(usize, usize)>)]) -> String {
    if rows.is_empty() {
        return "-".into();
    }
    rows.iter()
        .map(|(a, r)| format!("{}:{}", a, if r.is_empty() { "-".to_string() } else { r.iter().map(|(b, k)| format!("{}/{}", b, k)).collect::<Vec<_>>().join(",") }))
        .collect::<Vec<_>>()
        .join(";")
}

fn head_str<G>(xg: &XG, g: G, abs: &dyn Fn(G::NodeId) -> usize) -> String
where
    G: IntoNodeIdentifiers + NodeIndexable + Copy,
    G::NodeId: Copy,
{
    let nodes: Vec<G::NodeId> = g.node_identifiers().collect();
    format!(
        "graph d={} nb={} nodes={} ix={} edges={}",
        xg.directed as u8,
        g.node_bound(),
        list(nodes.iter().map(|&n| abs(n))),
        list(nodes.iter().map(|&n| format!("{}:{}", abs(n), g.to_index(n)))),
        xg.edges_str()
    )
}

/// the `graph` line of a view with directed neighbour iteration, from exactly what the algorithms
/// consume: `neighbors(n)` forwards, `neighbors_directed(n, Incoming)` (= `Reversed(g).neighbors(n)`)
/// backwards
fn nview_full<G>(xg: &XG, g: G, abs: &dyn Fn(G::NodeId) -> usize) -> String
where
    G: IntoNeighborsDirected + IntoNodeIdentifiers + NodeIndexable + Copy,
    G::NodeId: Copy,
{
    let nodes: Vec<G::NodeId> = g.node_identifiers().collect();
    let mut out = Vec::new();
    let mut inn = Vec::new();
    for &n in &nodes {
        let a = abs(n);
        let mut used = Vec::new();
        out.push((a, g.neighbors(n).map(|m| { let b = abs(m); (b, lookup_eid(xg, a, b, false, &mut used)) }).collect::<Vec<_>>()));
        let mut used = Vec::new();
        inn.push((a, g.neighbors_directed(n, Direction::Incoming).map(|m| { let b = abs(m); (b, lookup_eid(xg, a, b, true, &mut used)) }).collect::<Vec<_>>()));
    }
    format!("{} out={} in={}", head_str(xg, g, abs), row_str(&out), row_str(&inn))
}

/// … of a view that only offers `neighbors` (`in=` is derived by the driver from the abstract graph)
fn nview_out<G>(xg: &XG, g: G, abs: &dyn Fn(G::NodeId) -> usize) -> String
where
    G: IntoNeighbors + IntoNodeIdentifiers + NodeIndexable + Copy,
    G::NodeId: Copy,
{
    let nodes: Vec<G::NodeId> = g.node_identifiers().collect();
    let mut out = Vec::new();
    for &n in &nodes {
        let a = abs(n);
        let mut used = Vec::new();
        out.push((a, g.neighbors(n).map(|m| { let b = abs(m); (b, lookup_eid(xg, a, b, false, &mut used)) }).collect::<Vec<_>>()));
    }
    format!("{} out={} in=- hasin=0", head_str(xg, g, abs), row_str(&out))
}

/// … for the functions that read `edge_references()` only: node ids, `to_index`, `node_bound` from the
/// view, neighbour rows derived from the abstract graph in edge order
fn eview<G>(xg: &XG, g: G, abs: &dyn Fn(G::NodeId) -> usize) -> String
where
    G: IntoNodeIdentifiers + NodeIndexable + Copy,
    G::NodeId: Copy,
{
    let mut out: Vec<(usize, Vec<(usize, usize)>)> = xg.ids.iter().map(|&i| (i, Vec::new())).collect();
    let mut inn = out.clone();
    let pos = |i: usize| xg.ids.iter().position(|&x| x == i);
    for &(k, a, b, _) in &xg.edges {
        if let (Some(pa), Some(pb)) = (pos(a), pos(b)) {
            out[pa].1.push((b, k));
            inn[pb].1.push((a, k));
            if !xg.directed && a != b {
                out[pb].1.push((a, k));
                inn[pa].1.push((b, k));
            }
        }
    }
    format!("{} out={} in={}", head_str(xg, g, abs), row_str(&out), row_str(&inn))
}

// ------------------------------------------------------------------------------------------------

fn sccs_str<N: Copy>(s: &[Vec<N>], abs: &dyn Fn(N) -> usize) -> String {
    if s.is_empty() {
        "-".into()
    } else {
        s.iter().map(|c| list(c.iter().map(|&x| abs(x)))).collect::<Vec<_>>().join(";")
    }
}

fn p(r: Option<String>) -> String {
    r.unwrap_or_else(|| "panic".into())
}

fn law(ctx: &mut Ctx, name: &str, r: Option<Option<String>>) {
    let v = match r {
        Some(x) => law_verdict(x),
        None => "VIOLATED panic".to_string(),
    };
    ctx.line(&format!("law {}", name), &v);
}

/// the largest graphs get the cheap requests only (no all-pairs matrix, no 2^n colouring oracle)
const SMALL: usize = 12;

/// everything that needs only IntoNeighbors + IntoNodeIdentifiers + Visitable + NodeIndexable
fn run_basic<G>(ctx: &mut Ctx, rng: &mut Rng, g: G, ids: &[usize], undirected: bool, abs: &dyn Fn(G::NodeId) -> usize, conc: &dyn Fn(usize) -> G::NodeId)
where
    G: IntoNeighbors + IntoNodeIdentifiers + Visitable + NodeIndexable + Copy,
    G::NodeId: PartialEq + Copy + Debug,
{
    ctx.line("tarjan", &p(catch(|| sccs_str(&tarjan_scc(g), abs))));
    // one TarjanScc value used for two runs; node_component_index after each
    let r = catch(|| {
        let mut t = TarjanScc::new();
        let mut parts = Vec::new();
        for _ in 0..2 {
            let mut c: Vec<Vec<G::NodeId>> = Vec::new();
            t.run(g, |s| c.push(s.to_vec()));
            parts.push(sccs_str(&c, abs));
            let mut idx: Vec<(usize, usize)> = g.node_identifiers().map(|x| (abs(x), t.node_component_index(g, x))).collect();
            idx.sort();
            parts.push(list(idx.iter().map(|(a, i)| format!("{}:{}", a, i))));
        }
        parts.join("|")
    });
    ctx.line("tarjanrun", &p(r));
    if ids.len() <= SMALL {
        // has_path_connecting, fresh workspace per call
        let r = catch(|| {
            let rows: Vec<String> = ids
                .iter()
                .map(|&a| format!("{}:{}", a, list(ids.iter().filter(|&&b| has_path_connecting(g, conc(a), conc(b), None)))))
                .collect();
            if rows.is_empty() { "-".to_string() } else { rows.join(";") }
        });
        ctx.line("haspath fresh", &p(r));
    }
    ctx.line("cycd", &p(catch(|| is_cyclic_directed(g).to_string())));
    if undirected && !ids.is_empty() && ids.len() <= SMALL {
        let mut starts: Vec<usize> = ids.to_vec();
        rng.shuffle(&mut starts);
        for &s in starts.iter().take(3) {
            ctx.line(&format!("bip {}", s), &p(catch(|| is_bipartite_undirected(g, conc(s)).to_string())));
        }
    }
}

/// laws of the items of C09's API that have no state of their own: `TarjanScc::default`, `Debug`, a
/// `TarjanScc` that was used on ANOTHER graph before (`prime`), and the iterators the algorithms consume
fn laws_basic<G>(ctx: &mut Ctx, g: G, ids: &[usize], conc: &dyn Fn(usize) -> G::NodeId, prime: &dyn Fn(&mut TarjanScc<G::NodeId>) -> usize)
where
    G: IntoNeighbors + IntoNodeIdentifiers + Visitable + NodeIndexable + Copy,
    G::NodeId: PartialEq + Copy + Debug,
    G::Neighbors: Clone,
    G::NodeIdentifiers: Clone,
{
    let r = catch(|| {
        let fresh = tarjan_scc(g);
        let mut t: TarjanScc<G::NodeId> = Default::default();
        let mut c: Vec<Vec<G::NodeId>> = Vec::new();
        t.run(g, |s| c.push(s.to_vec()));
        if c != fresh {
            return Some(format!("TarjanScc::default().run gives {:?}, tarjan_scc gives {:?}", c, fresh));
        }
        if format!("{:?}", t).is_empty() {
            return Some("empty Debug output".to_string());
        }
        None
    });
    law(ctx, "tarjan-default", r);
    let mut m = 0;
    let r = catch(|| {
        let fresh = tarjan_scc(g);
        let mut t = TarjanScc::new();
        m = prime(&mut t);
        let mut c: Vec<Vec<G::NodeId>> = Vec::new();
        t.run(g, |s| c.push(s.to_vec()));
        if c != fresh {
            return Some(format!("a TarjanScc used on a graph with {} nodes before gives {:?}, a new one gives {:?}", m, c, fresh));
        }
        // node_component_index: equal exactly for members of one component
        let nodes: Vec<G::NodeId> = g.node_identifiers().collect();
        let comp: Vec<Option<usize>> = nodes.iter().map(|x| c.iter().position(|k| k.contains(x))).collect();
        let idx: Vec<usize> = nodes.iter().map(|&x| t.node_component_index(g, x)).collect();
        for i in 0..nodes.len() {
            for j in 0..nodes.len() {
                if (idx[i] == idx[j]) != (comp[i] == comp[j]) {
                    return Some(format!("node_component_index of {:?} and {:?} after a run on another graph (m = {}) does not agree with the components {:?}", nodes[i], nodes[j], m, c));
                }
            }
        }
        None
    });
    law(ctx, &format!("tarjan-foreign {}", m), r);
    // the iterators the algorithms walk: all ways of reading them describe one sequence
    let r = catch(|| {
        if let Some(e) = iter_laws(g.node_identifiers()) {
            return Some(format!("node_identifiers: {}", e));
        }
        for &a in ids.iter().take(4) {
            if let Some(e) = iter_laws(g.neighbors(conc(a))) {
                return Some(format!("neighbors({}): {}", a, e));
            }
            let mut it = g.neighbors(conc(a));
            if it.next().is_some() {
                if let Some(e) = iter_laws(it) {
                    return Some(format!("neighbors({}) after one item: {}", a, e));
                }
            }
        }
        None
    });
    law(ctx, "iter-neighbors", r);
}

fn haspath_reuse<G>(g: G, ids: &[usize], rng: &mut Rng, conc: &dyn Fn(usize) -> G::NodeId, space: &mut DfsSpace<G::NodeId, G::Map>) -> String
where
    G: IntoNeighbors + Visitable + Copy,
    G::NodeId: PartialEq + Copy,
{
    // all pairs in a random order through ONE workspace
    let n = ids.len();
    let mut pairs: Vec<(usize, usize)> = (0..n).flat_map(|a| (0..n).map(move |b| (a, b))).collect();
    rng.shuffle(&mut pairs);
    let mut rows: Vec<Vec<usize>> = vec![Vec::new(); n];
    for (a, b) in pairs {
        if has_path_connecting(g, conc(ids[a]), conc(ids[b]), Some(space)) {
            rows[a].push(ids[b]);
        }
    }
    if n == 0 {
        return "-".into();
    }
    rows.iter_mut().for_each(|r| r.sort());
    rows.iter().enumerate().map(|(a, r)| format!("{}:{}", ids[a], list(r.iter()))).collect::<Vec<_>>().join(";")
}

/// types without IntoNeighborsDirected: only has_path can reuse a workspace
fn run_reuse_basic<G>(ctx: &mut Ctx, rng: &mut Rng, g: G, ids: &[usize], conc: &dyn Fn(usize) -> G::NodeId)
where
    G: IntoNeighbors + Visitable + Copy,
    G::NodeId: PartialEq + Copy,
    G::Map: Default,
{
    let mut rng2 = rng.clone();
    rng.next();
    let dflt = rng.chance(40);
    ctx.line(if dflt { "space default 0" } else { "space new 0" }, "-");
    let mut space = if dflt { DfsSpace::default() } else { DfsSpace::new(g) };
    if ids.len() <= SMALL {
        let r = catch(|| haspath_reuse(g, ids, &mut rng2, conc, &mut space));
        ctx.line("haspath reuse", &p(r));
    }
    haspath1(ctx, rng, g, ids, conc, &mut space, 2);
}

/// single queries through the workspace, each next to the answer of a fresh one
fn haspath1<G>(ctx: &mut Ctx, rng: &mut Rng, g: G, ids: &[usize], conc: &dyn Fn(usize) -> G::NodeId, space: &mut DfsSpace<G::NodeId, G::Map>, k: usize)
where
    G: IntoNeighbors + Visitable + Copy,
    G::NodeId: PartialEq + Copy,
{
    if ids.is_empty() {
        return;
    }
    for _ in 0..k {
        let (a, b) = (*rng.pick(ids), *rng.pick(ids));
        let r = catch(|| has_path_connecting(g, conc(a), conc(b), Some(space)));
        let fresh = catch(|| has_path_connecting(g, conc(a), conc(b), None));
        ctx.line(&format!("haspath1 {} {}", a, b), &match (r, fresh) {
            (Some(x), Some(y)) => format!("{} {}", x, y),
            _ => "panic".into(),
        });
    }
}

fn topo_str<G>(r: Result<Vec<G::NodeId>, petgraph::algo::Cycle<G::NodeId>>, abs: &dyn Fn(G::NodeId) -> usize) -> String
where
    G: Visitable,
    G::NodeId: Copy,
{
    match r {
        Ok(v) => format!("ok {}", list(v.iter().map(|&x| abs(x)))),
        Err(c) => format!("err {}", abs(c.node_id())),
    }
}

/// announce and make the workspace of the `reuse` lines
fn make_space<G>(ctx: &mut Ctx, rng: &mut Rng, g: G, foreign: Option<(DfsSpace<G::NodeId, G::Map>, usize)>) -> DfsSpace<G::NodeId, G::Map>
where
    G: IntoNeighbors + Visitable + Copy,
    G::NodeId: PartialEq + Copy,
    G::Map: Default,
{
    match foreign {
        Some((s, m)) => {
            ctx.line(&format!("space foreign {}", m), "-");
            s
        }
        None => {
            if rng.chance(50) {
                ctx.line("space new 0", "-");
                DfsSpace::new(g)
            } else {
                ctx.line("space default 0", "-");
                DfsSpace::default()
            }
        }
    }
}

/// kosaraju_scc, toposort; one DfsSpace (possibly dirty, possibly made for another graph of the same
/// type) shared by toposort and has_path_connecting calls
fn run_directed<G>(ctx: &mut Ctx, rng: &mut Rng, g: G, ids: &[usize], abs: &dyn Fn(G::NodeId) -> usize, conc: &dyn Fn(usize) -> G::NodeId, space: &mut DfsSpace<G::NodeId, G::Map>)
where
    G: IntoNeighborsDirected + IntoNodeIdentifiers + Visitable + Copy,
    G::NodeId: PartialEq + Copy,
{
    ctx.line("kosaraju", &p(catch(|| sccs_str(&kosaraju_scc(g), abs))));
    ctx.line("toposort fresh", &p(catch(|| topo_str::<G>(toposort(g, None), abs))));
    // a panic inside one call must not hide the others: the workspace lives outside the catch
    let r = catch(|| topo_str::<G>(toposort(g, Some(space)), abs));
    ctx.line("toposort reuse", &p(r));
    if ids.len() <= SMALL {
        let mut rng2 = rng.clone();
        rng.next();
        let r = catch(|| haspath_reuse(g, ids, &mut rng2, conc, space));
        ctx.line("haspath reuse", &p(r));
    } else {
        haspath1(ctx, rng, g, ids, conc, space, 3);
    }
    let r = catch(|| topo_str::<G>(toposort(g, Some(space)), abs));
    ctx.line("toposort reuse", &p(r));
    // one more query after a toposort that may have returned early with a non-empty stack
    haspath1(ctx, rng, g, ids, conc, space, 1);
}

/// laws of the directed API: the deprecated alias `scc`, `Clone` / `clone_from` / `Debug` of a used
/// `DfsSpace`, `Clone` / `PartialEq` / `Debug` / `node_id` of `Cycle`
fn laws_directed<G>(ctx: &mut Ctx, rng: &mut Rng, g: G, ids: &[usize], conc: &dyn Fn(usize) -> G::NodeId, space: &mut DfsSpace<G::NodeId, G::Map>)
where
    G: IntoNeighborsDirected + IntoNodeIdentifiers + Visitable + Copy,
    G::NodeId: PartialEq + Copy + Debug,
    G::Map: Default + Clone + Debug,
    G::NeighborsDirected: Clone,
{
    #[allow(deprecated)]
    let r = catch(|| {
        let (a, b) = (petgraph::algo::scc(g), kosaraju_scc(g));
        if a != b { Some(format!("scc gives {:?}, kosaraju_scc gives {:?}", a, b)) } else { None }
    });
    law(ctx, "scc-alias", r);
    let pairs: Vec<(usize, usize)> = if ids.is_empty() { Vec::new() } else { (0..3).map(|_| (*rng.pick(ids), *rng.pick(ids))).collect() };
    let r = catch(|| {
        let fresh_topo = toposort(g, None);
        // the workspace as the calls before left it, copied in the two ways `Clone` offers
        let mut c1 = space.clone();
        let mut c2: DfsSpace<G::NodeId, G::Map> = DfsSpace::default();
        if let Some(&(a, b)) = pairs.first() {
            // an arbitrary prior content of the target of clone_from
            let _ = has_path_connecting(g, conc(a), conc(b), Some(&mut c2));
        }
        c2.clone_from(space);
        if format!("{:?}", space).is_empty() || format!("{:?}", c1).is_empty() || format!("{:#?}", c2).is_empty() {
            return Some("empty Debug output of a DfsSpace".to_string());
        }
        for (name, c) in [("clone()", &mut c1), ("clone_from()", &mut c2)] {
            for &(a, b) in &pairs {
                let (x, y) = (has_path_connecting(g, conc(a), conc(b), Some(c)), has_path_connecting(g, conc(a), conc(b), None));
                if x != y {
                    return Some(format!("has_path_connecting({}, {}) through a DfsSpace made by {} = {}, fresh = {}", a, b, name, x, y));
                }
            }
            let t = toposort(g, Some(c));
            if t != fresh_topo {
                return Some(format!("toposort through a DfsSpace made by {} = {:?}, fresh = {:?}", name, t, fresh_topo));
            }
        }
        None
    });
    law(ctx, "dfsspace-clone", r);
    let r = catch(|| {
        match toposort(g, None) {
            Ok(_) => None,
            Err(c) => {
                let d = c.clone();
                if !(c == d) || c != d {
                    return Some("a Cycle is not equal to its clone".to_string());
                }
                if c.node_id() != d.node_id() || c.node_id() != c.node_id() {
                    return Some("node_id of a Cycle and of its clone differ".to_string());
                }
                if format!("{:?}", c).is_empty() || format!("{:?}", c) != format!("{:?}", d) {
                    return Some("Debug of a Cycle and of its clone differ".to_string());
                }
                // the same call again names the same node (the function is deterministic)
                match toposort(g, None) {
                    Err(e) if e == c => None,
                    other => Some(format!("a second toposort gives {:?}, the first gave {:?}", other, c)),
                }
            }
        }
    });
    law(ctx, "cycle-eq", r);
    // the backwards iteration the algorithms use, read in every way an iterator can be read
    let r = catch(|| {
        for &a in ids.iter().take(4) {
            for dir in [Direction::Incoming, Direction::Outgoing] {
                if let Some(e) = iter_laws(g.neighbors_directed(conc(a), dir)) {
                    return Some(format!("neighbors_directed({}, {:?}): {}", a, dir, e));
                }
            }
            // `neighbors` is the outgoing half
            let mut x: Vec<G::NodeId> = g.neighbors(conc(a)).collect();
            let mut y: Vec<G::NodeId> = g.neighbors_directed(conc(a), Direction::Outgoing).collect();
            if x.len() != y.len() {
                return Some(format!("neighbors({}) yields {} nodes, neighbors_directed(_, Outgoing) yields {}", a, x.len(), y.len()));
            }
            while let Some(v) = x.pop() {
                match y.iter().position(|&w| w == v) {
                    Some(i) => { y.swap_remove(i); }
                    None => return Some(format!("neighbors({}) yields {:?}, neighbors_directed(_, Outgoing) does not", a, v)),
                }
            }
        }
        None
    });
    law(ctx, "iter-neighbors-directed", r);
}

fn er_str<G>(g: G, abs: &dyn Fn(G::NodeId) -> usize) -> String
where
    G: IntoEdgeReferences,
{
    list(g.edge_references().map(|e| format!("{}:{}", abs(e.source()), abs(e.target()))))
}

fn run_cycu<G>(ctx: &mut Ctx, g: G, abs: &dyn Fn(G::NodeId) -> usize)
where
    G: NodeIndexable + IntoEdgeReferences + Copy,
{
    let er = er_str(g, abs);
    ctx.line(&format!("cycu er={}", er), &p(catch(|| is_cyclic_undirected(g).to_string())));
}

fn run_cc<G>(ctx: &mut Ctx, g: G, abs: &dyn Fn(G::NodeId) -> usize)
where
    G: NodeCompactIndexable + IntoEdgeReferences + Copy,
{
    let er = er_str(g, abs);
    ctx.line(&format!("cc er={}", er), &p(catch(|| connected_components(g).to_string())));
}

fn run_cond<Ty: Et, Ix: petgraph::graph::IndexType>(ctx: &mut Ctx, g0: &petgraph::Graph<usize, i64, Ty, Ix>, eid: &[usize]) {
    for acyc in [false, true] {
        let g = g0.clone();
        let r = catch(|| {
            let c = condensation(g, acyc);
            let nodes: Vec<String> = c.node_indices().map(|i| list(c[i].iter())).collect();
            let edges = list(c.edge_references().map(|er| format!("{}:{}:{}", er.source().index(), er.target().index(), er.weight())));
            format!("{}|{}", if nodes.is_empty() { "-".to_string() } else { nodes.join(";") }, edges)
        });
        ctx.line(&format!("cond {} eo={}", if acyc { 1 } else { 0 }, list(eid.iter())), &p(r));
    }
}

/// `condensation` is generic in the weights: with `()` node weights and `f32` edge weights (NaN, ±inf and
/// -0.0 among them) the condensed graph has the same shape as with the weights of the case; and a clone
/// taken before the call is not affected by it
fn laws_cond<Ty: Et, Ix: petgraph::graph::IndexType>(ctx: &mut Ctx, g0: &petgraph::Graph<usize, i64, Ty, Ix>) {
    let r = catch(|| {
        let odd = [f32::NAN, f32::INFINITY, f32::NEG_INFINITY, -0.0f32, 0.0];
        let h = g0.map(|_, _| (), |e, &w| if w == 0 { odd[e.index() % odd.len()] } else { w as f32 });
        for acyc in [false, true] {
            let keep = g0.clone();
            let a = condensation(g0.clone(), acyc);
            let b = condensation(h.clone(), acyc);
            let sizes_a: Vec<usize> = a.node_indices().map(|i| a[i].len()).collect();
            let sizes_b: Vec<usize> = b.node_indices().map(|i| b[i].len()).collect();
            if sizes_a != sizes_b {
                return Some(format!("make_acyclic={}: component sizes {:?} with the case's weights, {:?} with () / f32 weights", acyc, sizes_a, sizes_b));
            }
            let ends_a: Vec<(usize, usize)> = a.edge_references().map(|e| (e.source().index(), e.target().index())).collect();
            let ends_b: Vec<(usize, usize)> = b.edge_references().map(|e| (e.source().index(), e.target().index())).collect();
            if ends_a != ends_b {
                return Some(format!("make_acyclic={}: condensed edges {:?} with the case's weights, {:?} with () / f32 weights", acyc, ends_a, ends_b));
            }
            if kosaraju_scc(&keep) != kosaraju_scc(g0) || keep.edge_count() != g0.edge_count() {
                return Some("a clone of the graph differs from the graph after condensation consumed another clone".to_string());
            }
        }
        None
    });
    law(ctx, "cond-generic", r);
}

/// queries with an id that is not a node (documented: such a node has no neighbours, so it reaches
/// itself and nothing else, and nothing reaches it)
fn run_stale<G>(ctx: &mut Ctx, rng: &mut Rng, g: G, ids: &[usize], conc: &dyn Fn(usize) -> G::NodeId, stale: &[(usize, G::NodeId)])
where
    G: IntoNeighbors + Visitable + Copy,
    G::NodeId: PartialEq + Copy,
{
    if stale.is_empty() {
        return;
    }
    let (sa, sn) = *rng.pick(stale);
    let (ta, tn) = *rng.pick(stale);
    let mut qs: Vec<(usize, G::NodeId, usize, G::NodeId)> = vec![(sa, sn, sa, sn), (sa, sn, ta, tn)];
    if !ids.is_empty() {
        let x = *rng.pick(ids);
        qs.push((sa, sn, x, conc(x)));
        qs.push((x, conc(x), sa, sn));
    }
    for (a, an, b, bn) in qs {
        ctx.line(&format!("stalepath {} {}", a, b), &p(catch(|| has_path_connecting(g, an, bn, None).to_string())));
    }
}

// ------------------------------------------------------------------------------------------------
// suites: one view (base graph or adaptor), everything its trait bounds admit

fn suite_full<G>(ctx: &mut Ctx, rng: &mut Rng, g: G, xg: &XG, abs: &dyn Fn(G::NodeId) -> usize, conc: &dyn Fn(usize) -> G::NodeId, meta: &Meta, prime: &dyn Fn(&mut TarjanScc<G::NodeId>) -> usize)
where
    G: IntoNeighborsDirected + IntoNodeIdentifiers + Visitable + NodeIndexable + Copy,
    G::NodeId: PartialEq + Copy + Debug,
    G::Map: Default + Clone + Debug,
    G::Neighbors: Clone,
    G::NeighborsDirected: Clone,
    G::NodeIdentifiers: Clone,
{
    ctx.line(&format!("{}{}", nview_full(xg, g, abs), meta.text()), "ok");
    run_basic(ctx, rng, g, &xg.ids, !xg.directed, abs, conc);
    laws_basic(ctx, g, &xg.ids, conc, prime);
    let mut space = make_space(ctx, rng, g, None);
    run_directed(ctx, rng, g, &xg.ids, abs, conc, &mut space);
    laws_directed(ctx, rng, g, &xg.ids, conc, &mut space);
}

fn suite_out<G>(ctx: &mut Ctx, rng: &mut Rng, g: G, xg: &XG, abs: &dyn Fn(G::NodeId) -> usize, conc: &dyn Fn(usize) -> G::NodeId, meta: &Meta, prime: &dyn Fn(&mut TarjanScc<G::NodeId>) -> usize)
where
    G: IntoNeighbors + IntoNodeIdentifiers + Visitable + NodeIndexable + Copy,
    G::NodeId: PartialEq + Copy + Debug,
    G::Map: Default,
    G::Neighbors: Clone,
    G::NodeIdentifiers: Clone,
{
    ctx.line(&format!("{}{}", nview_out(xg, g, abs), meta.text()), "ok");
    run_basic(ctx, rng, g, &xg.ids, !xg.directed, abs, conc);
    laws_basic(ctx, g, &xg.ids, conc, prime);
    run_reuse_basic(ctx, rng, g, &xg.ids, conc);
}

macro_rules! when {
    (yes $($t:tt)*) => { $($t)* };
    (no $($t:tt)*) => {};
}

fn pick_thr(rng: &mut Rng, xg: &XG) -> i64 {
    let (lo, hi) = xg.edges.iter().fold((0i64, 0i64), |(l, h), e| (l.min(e.3), h.max(e.3)));
    // below every weight (keeps all), above every weight (keeps none), or in between
    rng.range(lo - 1, hi + 1)
}

fn pick_keep(rng: &mut Rng, xg: &XG) -> Vec<usize> {
    let pct = *rng.pick(&[0u32, 50, 75, 75, 90, 100]);
    xg.ids.iter().cloned().filter(|_| rng.chance(pct)).collect()
}

fn dotted(v: &[usize]) -> String {
    if v.is_empty() { "-".to_string() } else { v.iter().map(|x| x.to_string()).collect::<Vec<_>>().join(".") }
}

/// every adaptor over a view `$g` with directed neighbour iteration.  `$depth`: d2 = may stack a second
/// adaptor on top (30 %), d1 = stacks none, d0 = run the view itself.  `$cc`: yes/no — the base is
/// NodeCompactIndexable (then so are Reversed, EdgeFiltered, UndirectedAdaptor and Frozen over it).
macro_rules! adapt_full {
    (d0, $ctx:expr, $rng:expr, $g:expr, $xg:expr, $abs:expr, $conc:expr, $meta:expr, $prime:expr, $cc:ident) => {{
        let g = $g;
        let xg: &XG = $xg;
        suite_full($ctx, $rng, g, xg, $abs, $conc, $meta, $prime);
        run_cycu($ctx, g, $abs);
        when!($cc run_cc($ctx, g, $abs););
    }};
    (@next d2, $ctx:expr, $rng:expr, $g:expr, $xg:expr, $abs:expr, $conc:expr, $meta:expr, $prime:expr, $cc:ident) => {
        if $rng.chance(30) {
            adapt_full!(s1, $ctx, $rng, $g, $xg, $abs, $conc, $meta, $prime, $cc)
        } else {
            adapt_full!(d0, $ctx, $rng, $g, $xg, $abs, $conc, $meta, $prime, $cc)
        }
    };
    (@next d1, $ctx:expr, $rng:expr, $g:expr, $xg:expr, $abs:expr, $conc:expr, $meta:expr, $prime:expr, $cc:ident) => {
        adapt_full!(d0, $ctx, $rng, $g, $xg, $abs, $conc, $meta, $prime, $cc)
    };
    // the second level of a stack: Reversed, EdgeFiltered, NodeFiltered (closure), UndirectedAdaptor
    (s1, $ctx:expr, $rng:expr, $g:expr, $xg:expr, $abs:expr, $conc:expr, $meta:expr, $prime:expr, $cc:ident) => {{
        let g = $g;
        let xg: &XG = $xg;
        let meta: &Meta = $meta;
        match $rng.below(4) {
            0 => {
                let a = Reversed(g);
                let x = xg.rev();
                let m = meta.with("rev".to_string());
                adapt_full!(d0, $ctx, $rng, a, &x, $abs, $conc, &m, $prime, $cc)
            }
            1 => {
                let thr = pick_thr($rng, xg);
                let ef = EdgeFiltered::from_fn(g, move |e| *e.weight() >= thr);
                let x = xg.ef(thr);
                let m = meta.with(format!("ef:{}", thr));
                adapt_full!(d0, $ctx, $rng, &ef, &x, $abs, $conc, &m, $prime, $cc)
            }
            2 => {
                let keep = pick_keep($rng, xg);
                let nf = NodeFiltered::from_fn(g, |n| keep.contains(&$abs(n)));
                let x = xg.nf(&|i| keep.contains(&i));
                let m = meta.with(format!("nf:{}", dotted(&keep)));
                adapt_full!(d0, $ctx, $rng, &nf, &x, $abs, $conc, &m, $prime, no)
            }
            _ => {
                let a = UndirectedAdaptor(g);
                let x = xg.und();
                let m = meta.with("und".to_string());
                suite_out($ctx, $rng, a, &x, $abs, $conc, &m, $prime);
                let x = xg.unde();
                let m = meta.with("unde".to_string());
                $ctx.line(&format!("{}{}", eview(&x, a, $abs), m.text()), "ok");
                run_cycu($ctx, a, $abs);
                when!($cc run_cc($ctx, a, $abs););
            }
        }
    }};
    ($depth:ident, $ctx:expr, $rng:expr, $g:expr, $xg:expr, $abs:expr, $conc:expr, $meta:expr, $prime:expr, $cc:ident) => {{
        let g = $g;
        let xg: &XG = $xg;
        let meta: &Meta = $meta;
        match $rng.below(6) {
            0 => {
                let a = Reversed(g);
                let x = xg.rev();
                let m = meta.with("rev".to_string());
                adapt_full!(@next $depth, $ctx, $rng, a, &x, $abs, $conc, &m, $prime, $cc)
            }
            1 => {
                let thr = pick_thr($rng, xg);
                let ef = EdgeFiltered::from_fn(g, move |e| *e.weight() >= thr);
                let x = xg.ef(thr);
                let m = meta.with(format!("ef:{}", thr));
                adapt_full!(@next $depth, $ctx, $rng, &ef, &x, $abs, $conc, &m, $prime, $cc)
            }
            2 => {
                let keep = pick_keep($rng, xg);
                let nf = NodeFiltered::from_fn(g, |n| keep.contains(&$abs(n)));
                let x = xg.nf(&|i| keep.contains(&i));
                let m = meta.with(format!("nf:{}", dotted(&keep)));
                adapt_full!(@next $depth, $ctx, $rng, &nf, &x, $abs, $conc, &m, $prime, no)
            }
            3 => {
                // the filter is a visit map of the graph (FixedBitSet / HashSet), not a closure
                let keep = pick_keep($rng, xg);
                let mut set = g.visit_map();
                for &i in &keep {
                    set.visit($conc(i));
                }
                let nf = NodeFiltered(g, set);
                let x = xg.nf(&|i| keep.contains(&i));
                let m = meta.with(format!("nf:{}", dotted(&keep)));
                adapt_full!(@next $depth, $ctx, $rng, &nf, &x, $abs, $conc, &m, $prime, no)
            }
            4 => {
                let a = UndirectedAdaptor(g);
                let x = xg.und();
                let m = meta.with("und".to_string());
                suite_out($ctx, $rng, a, &x, $abs, $conc, &m, $prime);
                // edge_references() of the adaptor is the base's: every edge once
                let x = xg.unde();
                let m = meta.with("unde".to_string());
                $ctx.line(&format!("{}{}", eview(&x, a, $abs), m.text()), "ok");
                run_cycu($ctx, a, $abs);
                when!($cc run_cc($ctx, a, $abs););
            }
            _ => {
                let mut gg = g;
                let fz = Frozen::new(&mut gg);
                let m = meta.with("frz".to_string());
                adapt_full!(@next $depth, $ctx, $rng, &fz, xg, $abs, $conc, &m, $prime, $cc)
            }
        }
    }};
}

/// adaptors over a base that only offers `neighbors` / `edges` (undirected MatrixGraph, Csr, List)
macro_rules! adapt_out {
    ($ctx:expr, $rng:expr, $g:expr, $xg:expr, $abs:expr, $conc:expr, $meta:expr, $prime:expr, $cc:ident) => {{
        let g = $g;
        let xg: &XG = $xg;
        let meta: &Meta = $meta;
        match $rng.below(4) {
            0 => {
                let thr = pick_thr($rng, xg);
                let ef = EdgeFiltered::from_fn(g, move |e| *e.weight() >= thr);
                let x = xg.ef(thr);
                let m = meta.with(format!("ef:{}", thr));
                suite_out($ctx, $rng, &ef, &x, $abs, $conc, &m, $prime);
                run_cycu($ctx, &ef, $abs);
                when!($cc run_cc($ctx, &ef, $abs););
            }
            1 => {
                let keep = pick_keep($rng, xg);
                let nf = NodeFiltered::from_fn(g, |n| keep.contains(&$abs(n)));
                let x = xg.nf(&|i| keep.contains(&i));
                let m = meta.with(format!("nf:{}", dotted(&keep)));
                suite_out($ctx, $rng, &nf, &x, $abs, $conc, &m, $prime);
                run_cycu($ctx, &nf, $abs);
            }
            2 => {
                let keep = pick_keep($rng, xg);
                let mut set = g.visit_map();
                for &i in &keep {
                    set.visit($conc(i));
                }
                let nf = NodeFiltered(g, set);
                let x = xg.nf(&|i| keep.contains(&i));
                let m = meta.with(format!("nf:{}", dotted(&keep)));
                suite_out($ctx, $rng, &nf, &x, $abs, $conc, &m, $prime);
                run_cycu($ctx, &nf, $abs);
            }
            _ => {
                let mut gg = g;
                let fz = Frozen::new(&mut gg);
                let m = meta.with("frz".to_string());
                suite_out($ctx, $rng, &fz, xg, $abs, $conc, &m, $prime);
                run_cycu($ctx, &fz, $abs);
                when!($cc run_cc($ctx, &fz, $abs););
            }
        }
    }};
}

macro_rules! with_ty {
    ($directed:expr, $f:ident, $($args:expr),*) => {
        if $directed { $f::<Directed>($($args),*) } else { $f::<Undirected>($($args),*) }
    };
}

// ------------------------------------------------------------------------------------------------
// another graph with the same NodeId type, for a TarjanScc / DfsSpace that was used elsewhere before

fn other_size(rng: &mut Rng, n: usize, cap: usize) -> usize {
    let m = if rng.chance(50) { n + 1 + rng.below(40) } else { rng.below(n + 1) };
    m.min(cap)
}

/// a cycle through the first half, a path through the rest, one edge between them
fn other_edges(m: usize) -> Vec<(usize, usize)> {
    let h = m / 2;
    let mut e: Vec<(usize, usize)> = Vec::new();
    for i in 0..h {
        e.push((i, (i + 1) % h));
    }
    for i in h..m.saturating_sub(1) {
        e.push((i, i + 1));
    }
    if h > 0 && h < m {
        e.push((h, 0));
    }
    e
}

fn prime_graph<Ix: petgraph::graph::IndexType>(m: usize) -> impl Fn(&mut TarjanScc<petgraph::graph::NodeIndex<Ix>>) -> usize {
    move |t| {
        let mut o = petgraph::Graph::<(), (), Directed, Ix>::with_capacity(0, 0);
        let ids: Vec<_> = (0..m).map(|_| o.add_node(())).collect();
        for (a, b) in other_edges(m).into_iter().take(<Ix as petgraph::graph::IndexType>::max().index()) {
            o.add_edge(ids[a], ids[b], ());
        }
        t.run(&o, |_| {});
        m
    }
}

fn prime_u32(m: usize) -> impl Fn(&mut TarjanScc<u32>) -> usize {
    move |t| {
        let mut o = petgraph::adj::List::<()>::new();
        for _ in 0..m {
            o.add_node();
        }
        for (a, b) in other_edges(m) {
            o.add_edge(a as u32, b as u32, ());
        }
        t.run(&o, |_| {});
        m
    }
}

fn prime_map(m: usize) -> impl Fn(&mut TarjanScc<usize>) -> usize {
    move |t| {
        let mut o = petgraph::graphmap::DiGraphMap::<usize, ()>::new();
        for i in 0..m {
            o.add_node(1000 + i);
        }
        for (a, b) in other_edges(m) {
            o.add_edge(1000 + a, 1000 + b, ());
        }
        t.run(&o, |_| {});
        m
    }
}

fn prime_matrix(m: usize) -> impl Fn(&mut TarjanScc<petgraph::matrix_graph::NodeIndex>) -> usize {
    move |t| {
        let mut o = petgraph::matrix_graph::DiMatrix::<(), ()>::new();
        let ids: Vec<_> = (0..m).map(|_| o.add_node(())).collect();
        for (a, b) in other_edges(m) {
            if a != b || !o.has_edge(ids[a], ids[b]) {
                o.add_edge(ids[a], ids[b], ());
            }
        }
        t.run(&o, |_| {});
        m
    }
}

/// a workspace made for (and used on) ANOTHER graph of the same type with a different node count
fn foreign_space<Ty: Et, Ix: petgraph::graph::IndexType>(rng: &mut Rng, n: usize) -> Option<(DfsSpace<petgraph::graph::NodeIndex<Ix>, <petgraph::Graph<usize, i64, Ty, Ix> as Visitable>::Map>, usize)> {
    if rng.chance(40) {
        return None;
    }
    let cap = <Ix as petgraph::graph::IndexType>::max().index();
    let m = other_size(rng, n, cap);
    let mut other = petgraph::Graph::<usize, i64, Ty, Ix>::with_capacity(0, 0);
    let ids: Vec<_> = (0..m).map(|i| other.add_node(i)).collect();
    for i in 1..m {
        other.add_edge(ids[i - 1], ids[i], 1);
    }
    let mut sp = DfsSpace::new(&other);
    if m > 0 {
        has_path_connecting(&other, ids[0], ids[m - 1], Some(&mut sp));
        let _ = toposort(&other, Some(&mut sp));
    }
    Some((sp, m))
}

/// the same for StableGraph (vacancies: the other graph has removed nodes too, so its map is longer
/// than its node count)
fn foreign_space_stable<Ty: Et>(rng: &mut Rng, n: usize) -> Option<(DfsSpace<petgraph::graph::NodeIndex<u32>, <petgraph::stable_graph::StableGraph<usize, i64, Ty, u32> as Visitable>::Map>, usize)> {
    if rng.chance(50) {
        return None;
    }
    let m = other_size(rng, n, usize::MAX);
    let mut other = petgraph::stable_graph::StableGraph::<usize, i64, Ty, u32>::with_capacity(0, 0);
    let ids: Vec<_> = (0..m).map(|i| other.add_node(i)).collect();
    for i in 1..m {
        other.add_edge(ids[i - 1], ids[i], 1);
    }
    if m > 2 && rng.chance(50) {
        other.remove_node(ids[m / 2]);
    }
    let mut sp = DfsSpace::new(&other);
    if m > 0 {
        has_path_connecting(&other, ids[0], ids[m - 1], Some(&mut sp));
        let _ = toposort(&other, Some(&mut sp));
    }
    Some((sp, m))
}

// ------------------------------------------------------------------------------------------------
// Graph (every index type): plain, behind an adaptor, and a second phase after a mutation of the
// graph with the SAME workspaces

/// the abstract graph a `Graph` whose node weights are the abstract ids 0..n presents (edge id =
/// concrete edge index)
fn ag_of_graph<Ty: Et, Ix: petgraph::graph::IndexType>(g: &petgraph::Graph<usize, i64, Ty, Ix>) -> AG {
    AG { directed: g.is_directed(), n: g.node_count(), edges: g.raw_edges().iter().map(|e| (g[e.source()], g[e.target()], e.weight)).collect() }
}

fn mutate_graph<Ty: Et, Ix: petgraph::graph::IndexType>(rng: &mut Rng, g: &mut petgraph::Graph<usize, i64, Ty, Ix>) -> &'static str {
    let n = g.node_count();
    let cap = <Ix as petgraph::graph::IndexType>::max().index();
    match rng.below(8) {
        0 => {
            g.reverse();
            "reverse"
        }
        1 => {
            g.clear_edges();
            "clear_edges"
        }
        2 if n > 0 => {
            // the node with the largest abstract id goes, so that the ids stay 0..n-1; another node
            // takes over its index
            let x = g.node_indices().find(|&i| g[i] == n - 1).unwrap();
            g.remove_node(x);
            "remove_node"
        }
        3 => {
            // clear, then reuse the value for a new small graph
            g.clear();
            let k = rng.below(5);
            let ids: Vec<_> = (0..k).map(|i| g.add_node(i)).collect();
            for _ in 0..rng.below(2 * k + 1) {
                let (a, b) = (ids[rng.below(k)], ids[rng.below(k)]);
                g.add_edge(a, b, rng.range(-3, 4));
            }
            "clear+rebuild"
        }
        4 => {
            let thr = rng.range(-2, 3);
            g.retain_edges(|gr, e| gr[e] >= thr);
            "retain_edges"
        }
        5 if n > 0 => {
            // reverse, then remove
            g.reverse();
            let x = g.node_indices().find(|&i| g[i] == n - 1).unwrap();
            g.remove_node(x);
            "reverse+remove_node"
        }
        6 => {
            // clone, then mutate both: the clone loses its edges, the original is reversed; then (half of
            // the time) the original takes the clone's content over by clone_from
            let mut c = g.clone();
            c.clear_edges();
            g.reverse();
            if rng.chance(50) {
                g.clone_from(&c);
                "clone+clone_from"
            } else {
                "clone+reverse"
            }
        }
        _ => {
            let k = 1 + rng.below(3);
            for i in 0..k {
                if g.node_count() < cap {
                    let x = g.add_node(n + i);
                    if g.edge_count() + 2 < cap {
                        let y = petgraph::graph::NodeIndex::<Ix>::new(rng.below(g.node_count()));
                        g.add_edge(x, y, rng.range(-3, 4));
                        if rng.chance(50) {
                            g.add_edge(y, x, rng.range(-3, 4));
                        }
                    }
                }
            }
            "grow"
        }
    }
}

/// a Graph behind one adaptor (instantiated for the index types u32 and u8 only: every adaptor view is a
/// separate instance of every generic function above)
fn case_graph_adapt<Ty: Et, Ix: petgraph::graph::IndexType>(ctx: &mut Ctx, rng: &mut Rng, ag: &AG, node_order: &[usize], edge_order: &[usize], inv: &[usize], name: &str) {
    let e = enc_graph::<Ty, Ix>(ag, node_order, edge_order);
    let cap = <Ix as petgraph::graph::IndexType>::max().index();
    let xg = XG::of(ag);
    let prime = prime_graph::<Ix>(other_size(rng, ag.n, cap));
    let g = &e.g;
    let abs = |x: petgraph::graph::NodeIndex<Ix>| g[x];
    let conc = |a: usize| petgraph::graph::NodeIndex::<Ix>::new(inv[a]);
    let meta = Meta::plain(name, &xg);
    adapt_full!(d1, ctx, rng, g, &xg, &abs, &conc, &meta, &prime, yes);
}

fn case_graph<Ty: Et, Ix: petgraph::graph::IndexType>(ctx: &mut Ctx, rng: &mut Rng, ag: &AG, node_order: &[usize], edge_order: &[usize], inv: &[usize], name: &str) {
    let n = ag.n;
    let e = enc_graph::<Ty, Ix>(ag, node_order, edge_order);
    let cap = <Ix as petgraph::graph::IndexType>::max().index();
    let xg = XG::of(ag);
    let prime = prime_graph::<Ix>(other_size(rng, n, cap));
    // plain; the workspaces outlive a mutation of the graph
    let mut g0 = e.g;
    let mut tj = TarjanScc::new();
    let mut space;
    let mut old_n;
    {
        let g = &g0;
        let abs = |x: petgraph::graph::NodeIndex<Ix>| g[x];
        let conc = |a: usize| petgraph::graph::NodeIndex::<Ix>::new(inv[a]);
        ctx.line(&format!("{} enc={}", view_line(ag, g, &abs, &|er, _| e.eid[EdgeRef::id(&er).index()]), name), "ok");
        run_basic(ctx, rng, g, &xg.ids, !ag.directed, &abs, &conc);
        laws_basic(ctx, g, &xg.ids, &conc, &prime);
        let sp = foreign_space::<Ty, Ix>(rng, n);
        space = make_space(ctx, rng, g, sp);
        run_directed(ctx, rng, g, &xg.ids, &abs, &conc, &mut space);
        laws_directed(ctx, rng, g, &xg.ids, &conc, &mut space);
        run_cc(ctx, g, &abs);
        run_cycu(ctx, g, &abs);
        run_cond(ctx, g, &e.eid);
        laws_cond(ctx, g);
        let _ = catch(|| tj.run(g, |_| {}));
        old_n = g.node_count();
    }
    // second phase: mutate the graph, keep the TarjanScc and the DfsSpace
    let rounds = if rng.chance(35) { 1 + rng.below(2) } else { 0 };
    for _ in 0..rounds {
        let what = mutate_graph(rng, &mut g0);
        let g = &g0;
        let ag2 = ag_of_graph(g);
        let xg2 = XG::of(&ag2);
        let abs = |x: petgraph::graph::NodeIndex<Ix>| g[x];
        let cidx: Vec<_> = { let mut v = vec![petgraph::graph::NodeIndex::<Ix>::new(0); ag2.n]; for x in g.node_indices() { v[g[x]] = x; } v };
        let conc = |a: usize| cidx[a];
        let eid: Vec<usize> = (0..g.edge_count()).collect();
        ctx.line(&format!("{} enc={} after={}", view_line(&ag2, g, &abs, &|er, _| EdgeRef::id(&er).index()), name, what), "ok");
        // the TarjanScc that ran on the graph before the mutation
        let r = catch(|| {
            let fresh = tarjan_scc(g);
            let mut c: Vec<Vec<petgraph::graph::NodeIndex<Ix>>> = Vec::new();
            tj.run(g, |s| c.push(s.to_vec()));
            if c != fresh {
                return Some(format!("after {} the TarjanScc used before gives {:?}, a new one gives {:?}", what, c, fresh));
            }
            let nodes: Vec<_> = g.node_indices().collect();
            let comp: Vec<Option<usize>> = nodes.iter().map(|x| c.iter().position(|k| k.contains(x))).collect();
            let idx: Vec<usize> = nodes.iter().map(|&x| tj.node_component_index(g, x)).collect();
            for i in 0..nodes.len() {
                for j in 0..nodes.len() {
                    if (idx[i] == idx[j]) != (comp[i] == comp[j]) {
                        return Some(format!("after {} node_component_index of {:?} and {:?} does not agree with the components {:?}", what, nodes[i], nodes[j], c));
                    }
                }
            }
            None
        });
        law(ctx, &format!("tarjan-after-mutation {}", old_n), r);
        run_basic(ctx, rng, g, &xg2.ids, !ag2.directed, &abs, &conc);
        // the DfsSpace that was used on the graph before the mutation
        ctx.line(&format!("space foreign {}", old_n), "-");
        run_directed(ctx, rng, g, &xg2.ids, &abs, &conc, &mut space);
        run_cc(ctx, g, &abs);
        run_cycu(ctx, g, &abs);
        run_cond(ctx, g, &eid);
        old_n = old_n.max(g.node_count());
    }
}

/// GraphMap with any hasher
fn enc_map_s<Ty: Et, S: std::hash::BuildHasher + Default + Clone>(ag: &AG, node_order: &[usize], edge_order: &[usize]) -> petgraph::graphmap::GraphMap<usize, i64, Ty, S> {
    let mut g = petgraph::graphmap::GraphMap::<usize, i64, Ty, S>::with_capacity_and_hasher(0, 0, S::default());
    for &a in node_order {
        g.add_node(a);
    }
    for &k in edge_order {
        let (a, b, w) = ag.edges[k];
        g.add_edge(a, b, w);
    }
    g
}

/// MatrixGraph with any hasher (removed ids as in `enc_matrix`)
fn enc_matrix_s<Ty: Et, S: std::hash::BuildHasher + Default + Clone>(rng: &mut Rng, ag: &AG, node_order: &[usize], edge_order: &[usize]) -> petgraph::matrix_graph::MatrixGraph<usize, i64, S, Ty> {
    let mut g = petgraph::matrix_graph::MatrixGraph::<usize, i64, S, Ty>::with_capacity_and_hasher(rng.below(5), S::default());
    let mut cidx = vec![Default::default(); ag.n];
    let mut dummies = Vec::new();
    for &a in node_order {
        let mut run = 0;
        while run < 3 && rng.chance(35) {
            dummies.push(g.add_node(usize::MAX));
            run += 1;
        }
        cidx[a] = g.add_node(a);
    }
    for d in dummies {
        g.remove_node(d);
    }
    for &k in edge_order {
        let (a, b, w) = ag.edges[k];
        g.add_edge(cidx[a], cidx[b], w);
    }
    g
}

fn case_map_adapt<Ty: Et>(ctx: &mut Ctx, rng: &mut Rng, ag: &AG, node_order: &[usize], edge_order: &[usize]) {
    let g0 = enc_map_s::<Ty, std::collections::hash_map::RandomState>(ag, node_order, edge_order);
    let g = &g0;
    let xg = XG::of(ag);
    let abs = |x: usize| x;
    let conc = |a: usize| a;
    let prime = prime_map(other_size(rng, ag.n, usize::MAX));
    let meta = Meta::plain("map", &xg);
    adapt_full!(d1, ctx, rng, g, &xg, &abs, &conc, &meta, &prime, yes);
}

fn case_map<Ty: Et, S: std::hash::BuildHasher + Default + Clone>(ctx: &mut Ctx, rng: &mut Rng, ag: &AG, node_order: &[usize], edge_order: &[usize], name: &str) {
    let n = ag.n;
    let g0 = enc_map_s::<Ty, S>(ag, node_order, edge_order);
    let g = &g0;
    let xg = XG::of(ag);
    let abs = |x: usize| x;
    let conc = |a: usize| a;
    let prime = prime_map(other_size(rng, n, usize::MAX));
    ctx.line(&format!("{} enc={}", view_line(ag, g, &abs, &|er, used| eid_by_lookup(ag, EdgeRef::source(&er), EdgeRef::target(&er), *EdgeRef::weight(&er), used)), name), "ok");
    run_basic(ctx, rng, g, &xg.ids, !ag.directed, &abs, &conc);
    laws_basic(ctx, g, &xg.ids, &conc, &prime);
    let mut space = make_space(ctx, rng, g, None);
    run_directed(ctx, rng, g, &xg.ids, &abs, &conc, &mut space);
    laws_directed(ctx, rng, g, &xg.ids, &conc, &mut space);
    run_cc(ctx, g, &abs);
    run_cycu(ctx, g, &abs);
    // ids that are not nodes of the map
    let stale: Vec<(usize, usize)> = vec![(n + 3, n + 3), (n + 7, n + 7)];
    run_stale(ctx, rng, g, &xg.ids, &conc, &stale);
}

fn case_stable<Ty: Et>(ctx: &mut Ctx, rng: &mut Rng, ag: &AG, node_order: &[usize], edge_order: &[usize], adaptor: bool) {
    let n = ag.n;
    let e = enc_stable::<Ty, u32>(rng, ag, node_order, edge_order, true);
    let g = &e.g;
    let xg = XG::of(ag);
    let cidx: Vec<_> = { let mut v = vec![petgraph::graph::NodeIndex::<u32>::new(0); n]; for x in g.node_indices() { v[g[x]] = x; } v };
    let abs = |x: petgraph::graph::NodeIndex<u32>| g[x];
    let conc = |a: usize| cidx[a];
    let prime = prime_graph::<u32>(other_size(rng, n, usize::MAX));
    if adaptor {
        let meta = Meta::plain("stable", &xg);
        adapt_full!(d1, ctx, rng, g, &xg, &abs, &conc, &meta, &prime, no);
        return;
    }
    ctx.line(&format!("{} enc=stable", view_line(ag, g, &abs, &|er, _| e.eid[EdgeRef::id(&er).index()])), "ok");
    run_basic(ctx, rng, g, &xg.ids, !ag.directed, &abs, &conc);
    laws_basic(ctx, g, &xg.ids, &conc, &prime);
    let sp = foreign_space_stable::<Ty>(rng, n);
    let mut space = make_space(ctx, rng, g, sp);
    run_directed(ctx, rng, g, &xg.ids, &abs, &conc, &mut space);
    laws_directed(ctx, rng, g, &xg.ids, &conc, &mut space);
    run_cycu(ctx, g, &abs);
    // vacancies below node_bound
    let stale: Vec<(usize, petgraph::graph::NodeIndex<u32>)> = (0..g.node_bound()).map(petgraph::graph::NodeIndex::<u32>::new).filter(|&i| !g.contains_node(i)).map(|i| (1000 + i.index(), i)).collect();
    run_stale(ctx, rng, g, &xg.ids, &conc, &stale);
}

/// undirected MatrixGraph has no IntoNeighborsDirected (the directed one is a separate case)
fn case_matrix_u_adapt(ctx: &mut Ctx, rng: &mut Rng, ag: &AG, node_order: &[usize], edge_order: &[usize]) {
    let n = ag.n;
    let g0 = enc_matrix_s::<Undirected, std::collections::hash_map::RandomState>(rng, ag, node_order, edge_order);
    let g = &g0;
    let xg = XG::of(ag);
    let cidx: Vec<_> = { let mut v = vec![petgraph::matrix_graph::NodeIndex::new(0); n]; for x in g.node_identifiers() { v[*g.node_weight(x)] = x; } v };
    let abs = |x: petgraph::matrix_graph::NodeIndex| *g.node_weight(x);
    let conc = |a: usize| cidx[a];
    let prime = prime_matrix(other_size(rng, n, 200));
    let meta = Meta::plain("matrix", &xg);
    adapt_out!(ctx, rng, g, &xg, &abs, &conc, &meta, &prime, no);
}

fn case_matrix_u<S: std::hash::BuildHasher + Default + Clone>(ctx: &mut Ctx, rng: &mut Rng, ag: &AG, node_order: &[usize], edge_order: &[usize], name: &str) {
    let n = ag.n;
    let g0 = enc_matrix_s::<Undirected, S>(rng, ag, node_order, edge_order);
    let g = &g0;
    let xg = XG::of(ag);
    let cidx: Vec<_> = { let mut v = vec![petgraph::matrix_graph::NodeIndex::new(0); n]; for x in g.node_identifiers() { v[*g.node_weight(x)] = x; } v };
    let abs = |x: petgraph::matrix_graph::NodeIndex| *g.node_weight(x);
    let conc = |a: usize| cidx[a];
    let prime = prime_matrix(other_size(rng, n, 200));
    ctx.line(&format!("{} enc={}", view_line_out_only(ag, g, &abs, &|er, used| { let (s, t) = (abs(EdgeRef::source(&er)), abs(EdgeRef::target(&er))); eid_by_lookup(ag, s, t, *EdgeRef::weight(&er), used) }), name), "ok");
    run_basic(ctx, rng, g, &xg.ids, !ag.directed, &abs, &conc);
    laws_basic(ctx, g, &xg.ids, &conc, &prime);
    run_reuse_basic(ctx, rng, g, &xg.ids, &conc);
    run_cycu(ctx, g, &abs);
}

/// directed MatrixGraph implements the directed traits too
/// a directed MatrixGraph behind up to two adaptors
fn case_matrix_d_adapt(ctx: &mut Ctx, rng: &mut Rng, ag: &AG) {
    let n = ag.n;
    let node_order = random_perm(rng, n);
    let edge_order = random_perm(rng, ag.edges.len());
    let g0 = enc_matrix_s::<Directed, std::collections::hash_map::RandomState>(rng, ag, &node_order, &edge_order);
    let g = &g0;
    let xg = XG::of(ag);
    let cidx: Vec<_> = { let mut v = vec![petgraph::matrix_graph::NodeIndex::new(0); n]; for x in g.node_identifiers() { v[*g.node_weight(x)] = x; } v };
    let abs = |x: petgraph::matrix_graph::NodeIndex| *g.node_weight(x);
    let conc = |a: usize| cidx[a];
    let prime = prime_matrix(other_size(rng, n, 200));
    let meta = Meta::plain("matrixd", &xg);
    adapt_full!(d2, ctx, rng, g, &xg, &abs, &conc, &meta, &prime, no);
}

fn case_matrix_d<S: std::hash::BuildHasher + Default + Clone>(ctx: &mut Ctx, rng: &mut Rng, ag: &AG, name: &str) {
    let n = ag.n;
    let node_order = random_perm(rng, n);
    let edge_order = random_perm(rng, ag.edges.len());
    let g0 = enc_matrix_s::<Directed, S>(rng, ag, &node_order, &edge_order);
    let g = &g0;
    let xg = XG::of(ag);
    let cidx: Vec<_> = { let mut v = vec![petgraph::matrix_graph::NodeIndex::new(0); n]; for x in g.node_identifiers() { v[*g.node_weight(x)] = x; } v };
    let abs = |x: petgraph::matrix_graph::NodeIndex| *g.node_weight(x);
    let conc = |a: usize| cidx[a];
    let prime = prime_matrix(other_size(rng, n, 200));
    // edges_directed(_, Incoming) of MatrixGraph reports swapped endpoints (open finding D6, judged by
    // C06): the view takes the other endpoint positionally, so it is the one the algorithms see
    ctx.line(&format!("{} enc={}", view_line(ag, g, &abs, &|er, used| { let (s, t) = (abs(EdgeRef::source(&er)), abs(EdgeRef::target(&er))); let k = eid_by_lookup(ag, s, t, *EdgeRef::weight(&er), used); if k != usize::MAX { k } else { eid_by_lookup(ag, t, s, *EdgeRef::weight(&er), used) } }), name), "ok");
    run_basic(ctx, rng, g, &xg.ids, false, &abs, &conc);
    laws_basic(ctx, g, &xg.ids, &conc, &prime);
    let mut space = make_space(ctx, rng, g, None);
    run_directed(ctx, rng, g, &xg.ids, &abs, &conc, &mut space);
    laws_directed(ctx, rng, g, &xg.ids, &conc, &mut space);
    run_cycu(ctx, g, &abs);
}

fn case_csr<Ty: Et>(ctx: &mut Ctx, rng: &mut Rng, ag: &AG, node_order: &[usize], edge_order: &[usize], inv: &[usize], adaptor: bool) {
    let n = ag.n;
    let g0 = enc_csr::<Ty>(ag, node_order, edge_order);
    let g = &g0;
    let xg = XG::of(ag);
    let abs = |x: u32| g[x];
    let conc = |a: usize| inv[a] as u32;
    let prime = prime_u32(other_size(rng, n, usize::MAX));
    if adaptor {
        let meta = Meta::plain("csr", &xg);
        adapt_out!(ctx, rng, g, &xg, &abs, &conc, &meta, &prime, yes);
        return;
    }
    ctx.line(&format!("{} enc=csr", view_line_out_only(ag, g, &abs, &|er, used| eid_by_lookup(ag, abs(EdgeRef::source(&er)), abs(EdgeRef::target(&er)), *EdgeRef::weight(&er), used))), "ok");
    run_basic(ctx, rng, g, &xg.ids, !ag.directed, &abs, &conc);
    laws_basic(ctx, g, &xg.ids, &conc, &prime);
    run_reuse_basic(ctx, rng, g, &xg.ids, &conc);
    run_cc(ctx, g, &abs);
    run_cycu(ctx, g, &abs);
}

fn case_list(ctx: &mut Ctx, rng: &mut Rng, ag: &AG, node_order: &[usize], edge_order: &[usize], inv: &[usize], adaptor: bool) {
    let n = ag.n;
    let g0 = enc_list(ag, node_order, edge_order);
    let g = &g0;
    let xg = XG::of(ag);
    let abs = |x: u32| node_order[x as usize];
    let conc = |a: usize| inv[a] as u32;
    let prime = prime_u32(other_size(rng, n, usize::MAX));
    if adaptor {
        let meta = Meta::plain("list", &xg);
        adapt_out!(ctx, rng, g, &xg, &abs, &conc, &meta, &prime, yes);
        return;
    }
    ctx.line(&format!("{} enc=list", view_line_out_only(ag, g, &abs, &|er, used| eid_by_lookup(ag, abs(EdgeRef::source(&er)), abs(EdgeRef::target(&er)), *EdgeRef::weight(&er), used))), "ok");
    run_basic(ctx, rng, g, &xg.ids, !ag.directed, &abs, &conc);
    laws_basic(ctx, g, &xg.ids, &conc, &prime);
    run_reuse_basic(ctx, rng, g, &xg.ids, &conc);
    run_cc(ctx, g, &abs);
    run_cycu(ctx, g, &abs);
}

/// Graph<_, _, Directed, u32> behind up to two adaptors
fn case_graph_deep(ctx: &mut Ctx, rng: &mut Rng, ag: &AG, node_order: &[usize], edge_order: &[usize], inv: &[usize]) {
    let e = enc_graph::<Directed, u32>(ag, node_order, edge_order);
    let g = &e.g;
    let xg = XG::of(ag);
    let abs = |x: petgraph::graph::NodeIndex<u32>| g[x];
    let conc = |a: usize| petgraph::graph::NodeIndex::<u32>::new(inv[a]);
    let prime = prime_graph::<u32>(other_size(rng, ag.n, usize::MAX));
    let meta = Meta::plain("graph32", &xg);
    adapt_full!(d2, ctx, rng, g, &xg, &abs, &conc, &meta, &prime, yes);
}

fn case_ty<Ty: Et>(ctx: &mut Ctx, rng: &mut Rng, ag: &AG, force: Option<usize>) {
    let n = ag.n;
    let node_order = random_perm(rng, n);
    let edge_order = random_perm(rng, ag.edges.len());
    let mut inv = vec![0usize; n];
    for (i, &a) in node_order.iter().enumerate() {
        inv[a] = i;
    }
    let simple = ag.is_simple();
    let adaptor = rng.chance(40);
    // 0 graph32, 1 graph8, 2 stable, 3 matrix (undirected), 4 map, 5 csr, 6 list, 8 graph16, 9 graph-usize,
    // 10 map with another hasher, 11 matrix with another hasher
    let mut choices = vec![0, 0, 0, 1, 2, 2, 8, 9];
    if simple {
        choices.extend([4, 5, 10]);
        if ag.directed {
            choices.push(6);
        } else {
            choices.extend([3, 11]);
        }
    }
    let pick = *rng.pick(&choices);
    match force.unwrap_or(pick) {
        0 if adaptor && ag.directed && rng.chance(50) => case_graph_deep(ctx, rng, ag, &node_order, &edge_order, &inv),
        0 if adaptor => case_graph_adapt::<Ty, u32>(ctx, rng, ag, &node_order, &edge_order, &inv, "graph32"),
        0 => case_graph::<Ty, u32>(ctx, rng, ag, &node_order, &edge_order, &inv, "graph32"),
        1 if ag.n <= 255 && ag.edges.len() <= 255 && adaptor => case_graph_adapt::<Ty, u8>(ctx, rng, ag, &node_order, &edge_order, &inv, "graph8"),
        1 if ag.n <= 255 && ag.edges.len() <= 255 => case_graph::<Ty, u8>(ctx, rng, ag, &node_order, &edge_order, &inv, "graph8"),
        1 | 8 => case_graph::<Ty, u16>(ctx, rng, ag, &node_order, &edge_order, &inv, "graph16"),
        9 => case_graph::<Ty, usize>(ctx, rng, ag, &node_order, &edge_order, &inv, "graphus"),
        2 => case_stable::<Ty>(ctx, rng, ag, &node_order, &edge_order, adaptor),
        3 if adaptor => case_matrix_u_adapt(ctx, rng, ag, &node_order, &edge_order),
        3 => case_matrix_u::<std::collections::hash_map::RandomState>(ctx, rng, ag, &node_order, &edge_order, "matrix"),
        11 => case_matrix_u::<fxhash::FxBuildHasher>(ctx, rng, ag, &node_order, &edge_order, "matrixfx"),
        4 if adaptor => case_map_adapt::<Ty>(ctx, rng, ag, &node_order, &edge_order),
        4 => case_map::<Ty, std::collections::hash_map::RandomState>(ctx, rng, ag, &node_order, &edge_order, "map"),
        10 => {
            if rng.chance(50) {
                case_map::<Ty, fxhash::FxBuildHasher>(ctx, rng, ag, &node_order, &edge_order, "mapfx")
            } else {
                case_map::<Ty, ahash::RandomState>(ctx, rng, ag, &node_order, &edge_order, "mapah")
            }
        }
        5 => case_csr::<Ty>(ctx, rng, ag, &node_order, &edge_order, &inv, adaptor),
        _ => case_list(ctx, rng, ag, &node_order, &edge_order, &inv, adaptor),
    }
}

/// C09's own family: blocks that are strongly connected (a cycle plus chords, or a single node with
/// or without a self-loop) joined by edges that respect a hidden order of the blocks, then relabelled:
/// several components of several nodes, where the order of the components matters.  Undirected:
/// blocks are trees / odd or even cycles (bipartite or not), no edges between blocks.
fn gen_blocks(rng: &mut Rng, directed: bool, o: GenOpts, n: usize, max_block: usize, cross: u32, max_edges: usize) -> AG {
    let mut blocks: Vec<Vec<usize>> = Vec::new();
    let mut i = 0;
    while i < n {
        let k = 1 + rng.below(max_block.min(n - i));
        blocks.push((i..i + k).collect());
        i += k;
    }
    let mut edges: Vec<(usize, usize, i64)> = Vec::new();
    let mut push = |rng: &mut Rng, edges: &mut Vec<(usize, usize, i64)>, a: usize, b: usize| {
        if edges.len() >= max_edges {
            return;
        }
        if a == b && !o.loops {
            return;
        }
        if !o.parallel && edges.iter().any(|&(x, y, _)| (x == a && y == b) || (!directed && x == b && y == a)) {
            return;
        }
        let w = rng.range(o.wlo, o.whi);
        edges.push((a, b, w));
    };
    for b in &blocks {
        let k = b.len();
        if directed {
            if k == 1 {
                if rng.chance(25) { push(rng, &mut edges, b[0], b[0]); }
            } else {
                for j in 0..k { push(rng, &mut edges, b[j], b[(j + 1) % k]); }
                if rng.chance(40) { let (x, y) = (rng.below(k), rng.below(k)); push(rng, &mut edges, b[x], b[y]); }
            }
        } else {
            for j in 1..k { let q = if rng.chance(50) { j - 1 } else { rng.below(j) }; push(rng, &mut edges, b[q], b[j]); }
            if k > 2 && rng.chance(50) { push(rng, &mut edges, b[k - 1], b[0]); }
            if rng.chance(10) { let x = rng.below(k); push(rng, &mut edges, b[x], b[x]); }
            if rng.chance(15) && k > 1 { push(rng, &mut edges, b[0], b[1]); }
        }
    }
    if directed {
        let mut order: Vec<usize> = (0..blocks.len()).collect();
        rng.shuffle(&mut order);
        for x in 0..order.len() {
            // a bounded number of later blocks, so that large graphs stay sparse
            for y in (x + 1)..order.len().min(x + 9) {
                if rng.chance(cross) {
                    let (bx, by) = (&blocks[order[x]], &blocks[order[y]]);
                    let (a, b) = (bx[rng.below(bx.len())], by[rng.below(by.len())]);
                    push(rng, &mut edges, a, b);
                    if rng.chance(20) { push(rng, &mut edges, a, b); }
                }
            }
        }
    }
    rng.shuffle(&mut edges);
    let perm = random_perm(rng, n);
    AG { directed, n, edges }.relabel(&perm)
}

/// a hub with `k` successors (31 / 32 / 33: the linear / binary search cut-off of Csr rows) plus a sparse rest
fn gen_wide(rng: &mut Rng, directed: bool, o: GenOpts, k: usize) -> AG {
    let n = k + 1 + rng.below(3);
    let mut edges: Vec<(usize, usize, i64)> = Vec::new();
    for b in 1..=k {
        edges.push((0, b, rng.range(o.wlo, o.whi)));
    }
    for _ in 0..rng.below(6) {
        let (a, b) = (1 + rng.below(n - 1), rng.below(n));
        if a != b && !edges.iter().any(|&(x, y, _)| (x == a && y == b) || (x == b && y == a)) {
            edges.push((a, b, rng.range(o.wlo, o.whi)));
        }
    }
    rng.shuffle(&mut edges);
    let perm = random_perm(rng, n);
    AG { directed, n, edges }.relabel(&perm)
}

/// node counts around the limits the code has: visit-map words (32 / 64 / 128 bits), the capacity of `u8`
/// indices (255 nodes: index 255 is `NodeIndex::end()`) and the first sizes `u8` cannot hold
const LIMITS: [usize; 13] = [31, 32, 33, 63, 64, 65, 127, 128, 129, 254, 255, 256, 257];

pub fn run(ctx: &mut Ctx, case: u64) {
    let mut rng = Rng::for_case(ctx.seed, "C09", case);
    let directed = rng.chance(62);
    let max_n = if ctx.tier_thorough { 11 } else { 8 };
    let opts = if rng.chance(55) { GenOpts::multi(max_n, -3, 4) } else { GenOpts { loops: rng.chance(40), wlo: 0, whi: 2, ..GenOpts::simple(max_n) } };
    let profile = if cfg!(debug_assertions) { "debug" } else { "release" };
    // corner sizes: no node at all, a single node (with self-loops), the limits, a wide row
    let corner = rng.below(1000);
    let mut force = None;
    let (ag, fam) = if corner < 12 {
        let n = *rng.pick(&LIMITS);
        let o = GenOpts { parallel: rng.chance(50), ..opts };
        // at most 255 edges, so that `u8` edge indices suffice too
        let max_m = if rng.chance(30) { 255 } else { 200 + rng.below(56) };
        if (n == 254 || n == 255) && rng.chance(60) {
            force = Some(1);
        }
        (gen_blocks(&mut rng, directed, o, n, 6, 12, max_m), "limit")
    } else if corner < 20 {
        let k = *rng.pick(&[31usize, 32, 33]);
        let o = GenOpts { loops: false, wlo: 0, whi: 2, ..GenOpts::simple(max_n) };
        if rng.chance(50) {
            force = Some(5);
        }
        (gen_wide(&mut rng, directed, o, k), "wide")
    } else if corner < 45 {
        (AG { directed, n: 0, edges: Vec::new() }, "no-node")
    } else if corner < 85 {
        let k = if opts.loops { rng.below(if opts.parallel { 4 } else { 2 }) } else { 0 };
        (AG { directed, n: 1, edges: (0..k).map(|_| (0, 0, rng.range(opts.wlo, opts.whi))).collect() }, "one-node")
    } else if rng.chance(35) {
        let n = 1 + rng.below(opts.max_n);
        (gen_blocks(&mut rng, directed, opts, n, 4, 35, usize::MAX), "blocks")
    } else {
        let (g, f) = gen_graph(&mut rng, directed, opts);
        (g, family_name(f))
    };
    ctx.raw(&format!("case {} dir={} fam={} n={} m={} profile={}", case, directed as u8, fam, ag.n, ag.edges.len(), profile));
    if force.is_none() && directed && ag.is_simple() && rng.chance(14) {
        if rng.chance(50) {
            case_matrix_d_adapt(ctx, &mut rng, &ag);
        } else if rng.chance(30) {
            case_matrix_d::<ahash::RandomState>(ctx, &mut rng, &ag, "matrixdah");
        } else {
            case_matrix_d::<std::collections::hash_map::RandomState>(ctx, &mut rng, &ag, "matrixd");
        }
        return;
    }
    with_ty!(directed, case_ty, ctx, &mut rng, &ag, force);
}
