//! C09 — kosaraju_scc, tarjan_scc, TarjanScc::run + node_component_index, connected_components,
//! has_path_connecting, is_cyclic_directed, is_cyclic_undirected, is_bipartite_undirected, toposort
//! (fresh / reused DfsSpace) and condensation, on every storage type whose trait bounds admit the
//! call, and on `Reversed(&Graph)`.
//!
//! One abstract graph and one encoding per case.  Every answer is printed in abstract node ids.
//!
//!   kosaraju | tarjan            => a,b;c;d            components in the order returned
//!   tarjanrun                    => <comps>|<x:i,..>|<comps>|<x:i,..>   one TarjanScc, run twice
//!   cc er=<s:t,..>               => k                  er = edge_references() in iteration order
//!   cycu er=<s:t,..>             => true|false
//!   haspath fresh|reuse          => a:b,c;b:-;..       row a = all b with has_path_connecting(a,b)
//!   cycd                         => true|false
//!   bip <s>                      => true|false|panic   (undirected graphs only)
//!   toposort fresh|reuse         => ok a,b,c | err x
//!   cond <0|1> eo=<edge ids>     => <members;..>|<s:t:w,..>   eo = abstract edge id per concrete index
//!   space new|default|foreign <m> => -                 the DfsSpace the following `reuse` lines go through:
//!                                                      DfsSpace::new(g) / DfsSpace::default() / one made for and
//!                                                      used on ANOTHER graph with m nodes (dirty, other length)
use crate::common::*;
use crate::graphs::*;
use crate::rng::Rng;
use petgraph::algo::{
    condensation, connected_components, has_path_connecting, is_bipartite_undirected, is_cyclic_directed,
    is_cyclic_undirected, kosaraju_scc, tarjan_scc, toposort, DfsSpace, TarjanScc,
};
use petgraph::visit::{
    EdgeRef, IntoEdgeReferences, IntoNeighbors, IntoNeighborsDirected, IntoNodeIdentifiers, NodeCompactIndexable,
    NodeIndexable, Reversed, Visitable,
};
use petgraph::{Directed, Undirected};
use std::fmt::Debug;

fn sccs_str<N: Copy>(s: &[Vec<N>], abs: &dyn Fn(N) -> usize) -> String {
    if s.is_empty() {
        "-".into()
    } else {
        s.iter().map(|c| list(c.iter().map(|&x| abs(x)))).collect::<Vec<_>>().join(";")
    }
}

fn p(r: Option<String>) -> String {
    r.unwrap_or_else(|| "panic".into())
}

/// everything that needs only IntoNeighbors + IntoNodeIdentifiers + Visitable + NodeIndexable
fn run_basic<G>(ctx: &mut Ctx, rng: &mut Rng, g: G, n: usize, directed: bool, abs: &dyn Fn(G::NodeId) -> usize, conc: &dyn Fn(usize) -> G::NodeId)
where
    G: IntoNeighbors + IntoNodeIdentifiers + Visitable + NodeIndexable + Copy,
    G::NodeId: PartialEq + Copy + Debug,
{
    ctx.line("tarjan", &p(catch(|| sccs_str(&tarjan_scc(g), abs))));
    // one TarjanScc value used for two runs; node_component_index after each
    let r = catch(|| {
        let mut t = TarjanScc::new();
        let mut parts = Vec::new();
        for _ in 0..2 {
            let mut c: Vec<Vec<G::NodeId>> = Vec::new();
            t.run(g, |s| c.push(s.to_vec()));
            parts.push(sccs_str(&c, abs));
            let mut idx: Vec<(usize, usize)> = g.node_identifiers().map(|x| (abs(x), t.node_component_index(g, x))).collect();
            idx.sort();
            parts.push(list(idx.iter().map(|(a, i)| format!("{}:{}", a, i))));
        }
        parts.join("|")
    });
    ctx.line("tarjanrun", &p(r));
    // has_path_connecting, fresh workspace per call
    let r = catch(|| {
        let rows: Vec<String> = (0..n)
            .map(|a| format!("{}:{}", a, list((0..n).filter(|&b| has_path_connecting(g, conc(a), conc(b), None)))))
            .collect();
        if rows.is_empty() { "-".to_string() } else { rows.join(";") }
    });
    ctx.line("haspath fresh", &p(r));
    ctx.line("cycd", &p(catch(|| is_cyclic_directed(g).to_string())));
    if !directed && n > 0 {
        let mut starts: Vec<usize> = (0..n).collect();
        rng.shuffle(&mut starts);
        for &s in starts.iter().take(3) {
            ctx.line(&format!("bip {}", s), &p(catch(|| is_bipartite_undirected(g, conc(s)).to_string())));
        }
    }
}

fn haspath_reuse<G>(g: G, n: usize, rng: &mut Rng, conc: &dyn Fn(usize) -> G::NodeId, space: &mut DfsSpace<G::NodeId, G::Map>) -> String
where
    G: IntoNeighbors + Visitable + Copy,
    G::NodeId: PartialEq + Copy,
{
    // all pairs in a random order through ONE workspace
    let mut pairs: Vec<(usize, usize)> = (0..n).flat_map(|a| (0..n).map(move |b| (a, b))).collect();
    rng.shuffle(&mut pairs);
    let mut rows: Vec<Vec<usize>> = vec![Vec::new(); n];
    for (a, b) in pairs {
        if has_path_connecting(g, conc(a), conc(b), Some(space)) {
            rows[a].push(b);
        }
    }
    if n == 0 {
        return "-".into();
    }
    rows.iter_mut().for_each(|r| r.sort());
    rows.iter().enumerate().map(|(a, r)| format!("{}:{}", a, list(r.iter()))).collect::<Vec<_>>().join(";")
}

/// types without IntoNeighborsDirected: only has_path can reuse a workspace
fn run_reuse_basic<G>(ctx: &mut Ctx, rng: &mut Rng, g: G, n: usize, conc: &dyn Fn(usize) -> G::NodeId)
where
    G: IntoNeighbors + Visitable + Copy,
    G::NodeId: PartialEq + Copy,
{
    let mut rng2 = rng.clone();
    rng.next();
    ctx.line("space new 0", "-");
    let r = catch(|| {
        let mut space = DfsSpace::new(g);
        haspath_reuse(g, n, &mut rng2, conc, &mut space)
    });
    ctx.line("haspath reuse", &p(r));
}

fn topo_str<G>(r: Result<Vec<G::NodeId>, petgraph::algo::Cycle<G::NodeId>>, abs: &dyn Fn(G::NodeId) -> usize) -> String
where
    G: Visitable,
    G::NodeId: Copy,
{
    match r {
        Ok(v) => format!("ok {}", list(v.iter().map(|&x| abs(x)))),
        Err(c) => format!("err {}", abs(c.node_id())),
    }
}

/// kosaraju_scc, toposort; one DfsSpace (possibly dirty, possibly made for another graph of the same
/// type) shared by toposort and has_path_connecting calls
fn run_directed<G>(ctx: &mut Ctx, rng: &mut Rng, g: G, n: usize, abs: &dyn Fn(G::NodeId) -> usize, conc: &dyn Fn(usize) -> G::NodeId, space: Option<(DfsSpace<G::NodeId, G::Map>, usize)>)
where
    G: IntoNeighborsDirected + IntoNodeIdentifiers + Visitable + Copy,
    G::NodeId: PartialEq + Copy,
    G::Map: Default,
{
    ctx.line("kosaraju", &p(catch(|| sccs_str(&kosaraju_scc(g), abs))));
    ctx.line("toposort fresh", &p(catch(|| topo_str::<G>(toposort(g, None), abs))));
    let mut space = match space {
        Some((s, m)) => { ctx.line(&format!("space foreign {}", m), "-"); s }
        None => if rng.chance(50) { ctx.line("space new 0", "-"); DfsSpace::new(g) } else { ctx.line("space default 0", "-"); DfsSpace::default() },
    };
    // a panic inside one call must not hide the others: the workspace lives outside the catch
    let r = catch(|| topo_str::<G>(toposort(g, Some(&mut space)), abs));
    ctx.line("toposort reuse", &p(r));
    let mut rng2 = rng.clone();
    rng.next();
    let r = catch(|| haspath_reuse(g, n, &mut rng2, conc, &mut space));
    ctx.line("haspath reuse", &p(r));
    let r = catch(|| topo_str::<G>(toposort(g, Some(&mut space)), abs));
    ctx.line("toposort reuse", &p(r));
    if n > 0 {
        // one more query after a toposort that may have returned early with a non-empty stack
        let (a, b) = (rng.below(n), rng.below(n));
        let r = catch(|| has_path_connecting(g, conc(a), conc(b), Some(&mut space)));
        let fresh = catch(|| has_path_connecting(g, conc(a), conc(b), None));
        ctx.line(&format!("haspath1 {} {}", a, b), &match (r, fresh) {
            (Some(x), Some(y)) => format!("{} {}", x, y),
            _ => "panic".into(),
        });
    }
}

fn er_str<G>(g: G, abs: &dyn Fn(G::NodeId) -> usize) -> String
where
    G: IntoEdgeReferences,
{
    list(g.edge_references().map(|e| format!("{}:{}", abs(e.source()), abs(e.target()))))
}

fn run_cycu<G>(ctx: &mut Ctx, g: G, abs: &dyn Fn(G::NodeId) -> usize)
where
    G: NodeIndexable + IntoEdgeReferences + Copy,
{
    let er = er_str(g, abs);
    ctx.line(&format!("cycu er={}", er), &p(catch(|| is_cyclic_undirected(g).to_string())));
}

fn run_cc<G>(ctx: &mut Ctx, g: G, abs: &dyn Fn(G::NodeId) -> usize)
where
    G: NodeCompactIndexable + IntoEdgeReferences + Copy,
{
    let er = er_str(g, abs);
    ctx.line(&format!("cc er={}", er), &p(catch(|| connected_components(g).to_string())));
}

fn run_cond<Ty: petgraph::EdgeType, Ix: petgraph::graph::IndexType>(ctx: &mut Ctx, e: &EncGraph<Ty, Ix>) {
    for acyc in [false, true] {
        let g = e.g.clone();
        let r = catch(|| {
            let c = condensation(g, acyc);
            let nodes: Vec<String> = c.node_indices().map(|i| list(c[i].iter())).collect();
            let edges = list(c.edge_references().map(|er| format!("{}:{}:{}", er.source().index(), er.target().index(), er.weight())));
            format!("{}|{}", if nodes.is_empty() { "-".to_string() } else { nodes.join(";") }, edges)
        });
        ctx.line(&format!("cond {} eo={}", if acyc { 1 } else { 0 }, list(e.eid.iter())), &p(r));
    }
}

macro_rules! with_ty {
    ($directed:expr, $f:ident, $($args:expr),*) => {
        if $directed { $f::<Directed>($($args),*) } else { $f::<Undirected>($($args),*) }
    };
}

/// a workspace made for (and used on) ANOTHER graph of the same type with a different node count
fn foreign_space<Ty: petgraph::EdgeType, Ix: petgraph::graph::IndexType>(rng: &mut Rng, n: usize) -> Option<(DfsSpace<petgraph::graph::NodeIndex<Ix>, <petgraph::Graph<usize, i64, Ty, Ix> as Visitable>::Map>, usize)> {
    if rng.chance(40) {
        return None;
    }
    let m = if rng.chance(50) { n + 1 + rng.below(40) } else { rng.below(n + 1) };
    let mut other = petgraph::Graph::<usize, i64, Ty, Ix>::with_capacity(0, 0);
    let ids: Vec<_> = (0..m).map(|i| other.add_node(i)).collect();
    for i in 1..m {
        other.add_edge(ids[i - 1], ids[i], 1);
    }
    let mut sp = DfsSpace::new(&other);
    if m > 0 {
        has_path_connecting(&other, ids[0], ids[m - 1], Some(&mut sp));
        let _ = toposort(&other, Some(&mut sp));
    }
    Some((sp, m))
}

/// the same for StableGraph (vacancies: the other graph has removed nodes too, so its map is longer
/// than its node count)
fn foreign_space_stable<Ty: petgraph::EdgeType>(rng: &mut Rng, n: usize) -> Option<(DfsSpace<petgraph::graph::NodeIndex<u32>, <petgraph::stable_graph::StableGraph<usize, i64, Ty, u32> as Visitable>::Map>, usize)> {
    if rng.chance(50) {
        return None;
    }
    let m = if rng.chance(50) { n + 1 + rng.below(40) } else { rng.below(n + 1) };
    let mut other = petgraph::stable_graph::StableGraph::<usize, i64, Ty, u32>::with_capacity(0, 0);
    let ids: Vec<_> = (0..m).map(|i| other.add_node(i)).collect();
    for i in 1..m {
        other.add_edge(ids[i - 1], ids[i], 1);
    }
    if m > 2 && rng.chance(50) {
        other.remove_node(ids[m / 2]);
    }
    let mut sp = DfsSpace::new(&other);
    if m > 0 {
        has_path_connecting(&other, ids[0], ids[m - 1], Some(&mut sp));
        let _ = toposort(&other, Some(&mut sp));
    }
    Some((sp, m))
}

fn case_graph<Ty: petgraph::EdgeType, Ix: petgraph::graph::IndexType>(ctx: &mut Ctx, rng: &mut Rng, ag: &AG, node_order: &[usize], edge_order: &[usize], inv: &[usize], name: &str) {
    let n = ag.n;
    let e = enc_graph::<Ty, Ix>(ag, node_order, edge_order);
    let g = &e.g;
    let abs = |x: petgraph::graph::NodeIndex<Ix>| g[x];
    let conc = |a: usize| petgraph::graph::NodeIndex::<Ix>::new(inv[a]);
    ctx.line(&format!("{} enc={}", view_line(ag, g, &abs, &|er, _| e.eid[EdgeRef::id(&er).index()]), name), "ok");
    run_basic(ctx, rng, g, n, ag.directed, &abs, &conc);
    let sp = foreign_space::<Ty, Ix>(rng, n);
    run_directed(ctx, rng, g, n, &abs, &conc, sp);
    run_cc(ctx, g, &abs);
    run_cycu(ctx, g, &abs);
    run_cond(ctx, &e);
}

fn case_ty<Ty: petgraph::EdgeType>(ctx: &mut Ctx, rng: &mut Rng, ag: &AG) {
    let n = ag.n;
    let node_order = random_perm(rng, n);
    let edge_order = random_perm(rng, ag.edges.len());
    let mut inv = vec![0usize; n];
    for (i, &a) in node_order.iter().enumerate() {
        inv[a] = i;
    }
    let simple = ag.is_simple();
    let mut choices = vec![0, 0, 1, 2, 2, 7];
    if simple {
        choices.extend([3, 4, 5]);
        if ag.directed {
            choices.push(6);
        }
    }
    match *rng.pick(&choices) {
        0 => case_graph::<Ty, u32>(ctx, rng, ag, &node_order, &edge_order, &inv, "graph32"),
        1 => case_graph::<Ty, u8>(ctx, rng, ag, &node_order, &edge_order, &inv, "graph8"),
        2 => {
            let e = enc_stable::<Ty, u32>(rng, ag, &node_order, &edge_order, true);
            let g = &e.g;
            let cidx: Vec<_> = { let mut v = vec![petgraph::graph::NodeIndex::<u32>::new(0); n]; for x in g.node_indices() { v[g[x]] = x; } v };
            let abs = |x: petgraph::graph::NodeIndex<u32>| g[x];
            let conc = |a: usize| cidx[a];
            ctx.line(&format!("{} enc=stable", view_line(ag, g, &abs, &|er, _| e.eid[EdgeRef::id(&er).index()])), "ok");
            run_basic(ctx, rng, g, n, ag.directed, &abs, &conc);
            let sp = foreign_space_stable::<Ty>(rng, n);
            run_directed(ctx, rng, g, n, &abs, &conc, sp);
            run_cycu(ctx, g, &abs);
        }
        3 => {
            // undirected MatrixGraph has no IntoNeighborsDirected (the directed one is a separate case)
            let g0 = enc_matrix::<Ty>(rng, ag, &node_order, &edge_order, true);
            let g = &g0;
            let cidx: Vec<_> = { let mut v = vec![petgraph::matrix_graph::NodeIndex::new(0); n]; for x in g.node_identifiers() { v[*g.node_weight(x)] = x; } v };
            let abs = |x: petgraph::matrix_graph::NodeIndex| *g.node_weight(x);
            let conc = |a: usize| cidx[a];
            ctx.line(&format!("{} enc=matrix", view_line_out_only(ag, g, &abs, &|er, used| { let (s, t) = (abs(EdgeRef::source(&er)), abs(EdgeRef::target(&er))); eid_by_lookup(ag, s, t, *EdgeRef::weight(&er), used) })), "ok");
            run_basic(ctx, rng, g, n, ag.directed, &abs, &conc);
            run_reuse_basic(ctx, rng, g, n, &conc);
            run_cycu(ctx, g, &abs);
        }
        4 => {
            let g0 = enc_map::<Ty>(ag, &node_order, &edge_order);
            let g = &g0;
            let abs = |x: usize| x;
            let conc = |a: usize| a;
            ctx.line(&format!("{} enc=map", view_line(ag, g, &abs, &|er, used| eid_by_lookup(ag, EdgeRef::source(&er), EdgeRef::target(&er), *EdgeRef::weight(&er), used))), "ok");
            run_basic(ctx, rng, g, n, ag.directed, &abs, &conc);
            run_directed(ctx, rng, g, n, &abs, &conc, None);
            run_cc(ctx, g, &abs);
            run_cycu(ctx, g, &abs);
        }
        5 => {
            let g0 = enc_csr::<Ty>(ag, &node_order, &edge_order);
            let g = &g0;
            let abs = |x: u32| g[x];
            let conc = |a: usize| inv[a] as u32;
            ctx.line(&format!("{} enc=csr", view_line_out_only(ag, g, &abs, &|er, used| eid_by_lookup(ag, abs(EdgeRef::source(&er)), abs(EdgeRef::target(&er)), *EdgeRef::weight(&er), used))), "ok");
            run_basic(ctx, rng, g, n, ag.directed, &abs, &conc);
            run_reuse_basic(ctx, rng, g, n, &conc);
            run_cc(ctx, g, &abs);
            run_cycu(ctx, g, &abs);
        }
        6 => {
            let g0 = enc_list(ag, &node_order, &edge_order);
            let g = &g0;
            let abs = |x: u32| node_order[x as usize];
            let conc = |a: usize| inv[a] as u32;
            ctx.line(&format!("{} enc=list", view_line_out_only(ag, g, &abs, &|er, used| eid_by_lookup(ag, abs(EdgeRef::source(&er)), abs(EdgeRef::target(&er)), *EdgeRef::weight(&er), used))), "ok");
            run_basic(ctx, rng, g, n, ag.directed, &abs, &conc);
            run_reuse_basic(ctx, rng, g, n, &conc);
            run_cc(ctx, g, &abs);
            run_cycu(ctx, g, &abs);
        }
        _ => {
            // Reversed(&Graph): the abstract graph is the reverse
            let e = enc_graph::<Ty, u32>(ag, &node_order, &edge_order);
            let rag = AG { directed: ag.directed, n: ag.n, edges: ag.edges.iter().map(|&(a, b, w)| (b, a, w)).collect() };
            let g = Reversed(&e.g);
            let abs = |x: petgraph::graph::NodeIndex<u32>| e.g[x];
            let conc = |a: usize| petgraph::graph::NodeIndex::<u32>::new(inv[a]);
            ctx.line(&format!("{} enc=reversed", view_line(&rag, g, &abs, &|er, _| e.eid[EdgeRef::id(&er).index()])), "ok");
            run_basic(ctx, rng, g, n, ag.directed, &abs, &conc);
            run_directed(ctx, rng, g, n, &abs, &conc, None);
            run_cc(ctx, g, &abs);
            run_cycu(ctx, g, &abs);
        }
    }
}

/// directed MatrixGraph implements the directed traits too
fn case_matrix_directed(ctx: &mut Ctx, rng: &mut Rng, ag: &AG) {
    let n = ag.n;
    let node_order = random_perm(rng, n);
    let edge_order = random_perm(rng, ag.edges.len());
    let g0 = enc_matrix::<Directed>(rng, ag, &node_order, &edge_order, true);
    let g = &g0;
    let cidx: Vec<_> = { let mut v = vec![petgraph::matrix_graph::NodeIndex::new(0); n]; for x in g.node_identifiers() { v[*g.node_weight(x)] = x; } v };
    let abs = |x: petgraph::matrix_graph::NodeIndex| *g.node_weight(x);
    let conc = |a: usize| cidx[a];
    // edges_directed(_, Incoming) of MatrixGraph reports swapped endpoints (open finding D6, judged by
    // C06): the view takes the other endpoint positionally, so it is the one the algorithms see
    ctx.line(&format!("{} enc=matrixd", view_line(ag, g, &abs, &|er, used| { let (s, t) = (abs(EdgeRef::source(&er)), abs(EdgeRef::target(&er))); let k = eid_by_lookup(ag, s, t, *EdgeRef::weight(&er), used); if k != usize::MAX { k } else { eid_by_lookup(ag, t, s, *EdgeRef::weight(&er), used) } })), "ok");
    run_basic(ctx, rng, g, n, true, &abs, &conc);
    run_directed(ctx, rng, g, n, &abs, &conc, None);
    run_cycu(ctx, g, &abs);
}

/// C09's own family: blocks that are strongly connected (a cycle plus chords, or a single node with
/// or without a self-loop) joined by edges that respect a hidden order of the blocks, then relabelled:
/// several components of several nodes, where the order of the components matters.  Undirected:
/// blocks are trees / odd or even cycles (bipartite or not), no edges between blocks.
fn gen_blocks(rng: &mut Rng, directed: bool, o: GenOpts) -> AG {
    let n = 1 + rng.below(o.max_n);
    let mut blocks: Vec<Vec<usize>> = Vec::new();
    let mut i = 0;
    while i < n {
        let k = 1 + rng.below(4.min(n - i));
        blocks.push((i..i + k).collect());
        i += k;
    }
    let mut edges: Vec<(usize, usize, i64)> = Vec::new();
    let mut push = |rng: &mut Rng, edges: &mut Vec<(usize, usize, i64)>, a: usize, b: usize| {
        if a == b && !o.loops {
            return;
        }
        if !o.parallel && edges.iter().any(|&(x, y, _)| (x == a && y == b) || (!directed && x == b && y == a)) {
            return;
        }
        let w = rng.range(o.wlo, o.whi);
        edges.push((a, b, w));
    };
    for b in &blocks {
        let k = b.len();
        if directed {
            if k == 1 {
                if rng.chance(25) { push(rng, &mut edges, b[0], b[0]); }
            } else {
                for j in 0..k { push(rng, &mut edges, b[j], b[(j + 1) % k]); }
                if rng.chance(40) { let (x, y) = (rng.below(k), rng.below(k)); push(rng, &mut edges, b[x], b[y]); }
            }
        } else {
            for j in 1..k { let q = if rng.chance(50) { j - 1 } else { rng.below(j) }; push(rng, &mut edges, b[q], b[j]); }
            if k > 2 && rng.chance(50) { push(rng, &mut edges, b[k - 1], b[0]); }
            if rng.chance(10) { let x = rng.below(k); push(rng, &mut edges, b[x], b[x]); }
            if rng.chance(15) && k > 1 { push(rng, &mut edges, b[0], b[1]); }
        }
    }
    if directed {
        let mut order: Vec<usize> = (0..blocks.len()).collect();
        rng.shuffle(&mut order);
        for x in 0..order.len() {
            for y in (x + 1)..order.len() {
                if rng.chance(35) {
                    let (bx, by) = (&blocks[order[x]], &blocks[order[y]]);
                    let (a, b) = (bx[rng.below(bx.len())], by[rng.below(by.len())]);
                    push(rng, &mut edges, a, b);
                    if rng.chance(20) { push(rng, &mut edges, a, b); }
                }
            }
        }
    }
    rng.shuffle(&mut edges);
    let perm = random_perm(rng, n);
    AG { directed, n, edges }.relabel(&perm)
}

pub fn run(ctx: &mut Ctx, case: u64) {
    let mut rng = Rng::for_case(ctx.seed, "C09", case);
    let directed = rng.chance(62);
    let max_n = if ctx.tier_thorough { 11 } else { 8 };
    let opts = if rng.chance(55) { GenOpts::multi(max_n, -3, 4) } else { GenOpts { loops: rng.chance(40), wlo: 0, whi: 2, ..GenOpts::simple(max_n) } };
    let (ag, fam) = if rng.chance(35) { (gen_blocks(&mut rng, directed, opts), "blocks") } else { let (g, f) = gen_graph(&mut rng, directed, opts); (g, family_name(f)) };
    ctx.raw(&format!("case {} dir={} fam={} n={} m={}", case, directed as u8, fam, ag.n, ag.edges.len()));
    if directed && ag.is_simple() && rng.chance(12) {
        case_matrix_directed(ctx, &mut rng, &ag);
        return;
    }
    with_ty!(directed, case_ty, ctx, &mut rng, &ag);
}
