//! C18 — graph6 codec (`ToGraph6` / `FromGraph6` of all five graph types) and `Dot` output.
//!
//! Two case families:
//!
//! * `g6`: an abstract simple undirected graph on labels `0..n` (exhaustive on n <= 5 in the thorough tier,
//!   otherwise random with n in 0..=140 concentrated around the 62/63 header switch) is stored in each of
//!   `Graph`, `StableGraph` (with vacancies), `GraphMap`, `MatrixGraph`, `Csr` through a history that makes
//!   the node iteration order differ from the label order; `graph6_string()` is reported together with the
//!   labels in node-iteration order.  Valid graph6 strings (produced by the harness's own bit packer, not by
//!   petgraph) are decoded with `from_graph6_representation` and `from_graph6_string` of every type.
//! * `dot`: a small random graph (parallel edges, self loops, vacancies) of every type / edge type with
//!   weights over an adversarial alphabet is printed through `Dot` with random `Config` lists (duplicates,
//!   several `RankDir`s), every formatting trait, `#` and ignored flags, with and without attribute getters.
//!
//! Protocol lines are documented in `lean/PetgraphModel/Driver/C18.lean`.
use crate::common::*;
use crate::rng::Rng;
use petgraph::csr::Csr;
use petgraph::dot::{Config, Dot, RankDir};
use petgraph::graph::IndexType;
use petgraph::graph6::{from_graph6_representation, get_graph6_representation, FromGraph6, ToGraph6};
use petgraph::graphmap::GraphMap;
use petgraph::matrix_graph::MatrixGraph;
use petgraph::stable_graph::StableGraph;
use petgraph::visit::{
    EdgeRef, GraphProp, IntoEdgeReferences, IntoNodeIdentifiers, IntoNodeReferences, NodeFiltered, NodeIndexable, NodeRef,
    Reversed,
};
use petgraph::{Directed, EdgeType, Graph, Undirected};
use std::collections::hash_map::RandomState;
use std::collections::{BTreeSet, HashMap};
use std::fmt::{self, Debug, Display};

// ================================================================================================
// graph6

/// abstract graph on labels `0..n`; `edges` may contain loops / repeats only when `!simple`
struct Abs {
    n: usize,
    edges: Vec<(usize, usize)>,
    simple: bool,
}

const DUMMY: u32 = 1_000_000;

fn pairs_str(es: &[(usize, usize)]) -> String {
    if es.is_empty() {
        "-".into()
    } else {
        es.iter().map(|(a, b)| format!("{}-{}", a, b)).collect::<Vec<_>>().join(",")
    }
}

/// the harness's own bit packer: a *valid* graph6 string for (n, upper triangle bits in column-major order)
fn pack_graph6(n: usize, bits: &[bool]) -> String {
    let mut all: Vec<bool> = Vec::new();
    let push_num = |all: &mut Vec<bool>, v: usize, k: usize| {
        for i in (0..k).rev() {
            all.push((v >> i) & 1 == 1);
        }
    };
    let mut out = String::new();
    if n <= 62 {
        push_num(&mut all, n, 6);
    } else {
        out.push(126 as char);
        push_num(&mut all, n, 18);
    }
    all.extend_from_slice(bits);
    while all.len() % 6 != 0 {
        all.push(false);
    }
    for c in all.chunks(6) {
        let v = c.iter().fold(0u8, |a, b| a * 2 + *b as u8);
        out.push((v + 63) as char);
    }
    out
}

fn abs_bits(a: &Abs) -> Vec<bool> {
    let set: BTreeSet<(usize, usize)> = a.edges.iter().map(|&(x, y)| (x.min(y), x.max(y))).collect();
    let mut bits = Vec::new();
    for c in 1..a.n {
        for r in 0..c {
            bits.push(set.contains(&(r, c)));
        }
    }
    bits
}

/// order in which the real labels are inserted, with `d` dummy nodes interleaved
fn insertion_plan(rng: &mut Rng, n: usize, d: usize) -> Vec<u32> {
    let mut v: Vec<u32> = (0..n as u32).collect();
    match rng.below(4) {
        0 => {}
        1 => v.reverse(),
        _ => rng.shuffle(&mut v),
    }
    for i in 0..d {
        let pos = rng.below(v.len() + 1);
        v.insert(pos, DUMMY + i as u32);
    }
    v
}

fn shuffled_edges(rng: &mut Rng, a: &Abs) -> Vec<(usize, usize)> {
    let mut es: Vec<(usize, usize)> = a
        .edges
        .iter()
        .map(|&(x, y)| if rng.chance(50) { (x, y) } else { (y, x) })
        .collect();
    rng.shuffle(&mut es);
    es
}

fn enc_line(ctx: &mut Ctx, ty: &str, labels: &[u32], ix: &[usize], bound: usize, r: Option<String>) {
    ctx.line(
        &format!("enc {} labels={} ix={} bound={}", ty, list(labels.iter()), list(ix.iter()), bound),
        &r.unwrap_or_else(|| "panic".into()),
    );
}

/// LAW: `ToGraph6::graph6_string` is the public free function `get_graph6_representation` on a reference to the graph
fn free_fn_law(ctx: &mut Ctx, ty: &str, n: usize, method: &Option<String>, free: impl FnOnce() -> String) {
    if n > 1100 {
        return;
    }
    let f = catch(free);
    ctx.line(
        &format!("law graph6-free-function {}", ty),
        &if &f == method {
            "ok".to_string()
        } else {
            format!(
                "VIOLATED get_graph6_representation(&g) = [{}] but g.graph6_string() = [{}]",
                f.unwrap_or_else(|| "panic".into()),
                method.clone().unwrap_or_else(|| "panic".into())
            )
        },
    );
}

fn ndummies(rng: &mut Rng, n: usize, cap: usize) -> usize {
    let d = match rng.below(4) {
        0 => 0,
        1 => 1,
        _ => 1 + rng.below(4),
    };
    d.min(cap.saturating_sub(n))
}

fn enc_graph<Ix: IndexType>(ctx: &mut Ctx, rng: &mut Rng, a: &Abs, cap: usize) {
    let d = ndummies(rng, a.n, cap);
    let plan = insertion_plan(rng, a.n, d);
    let mut g: Graph<u32, (), Undirected, Ix> = Graph::with_capacity(0, 0);
    for &l in &plan {
        g.add_node(l);
    }
    let find = |g: &Graph<u32, (), Undirected, Ix>, l: u32| g.node_indices().find(|&i| g[i] == l).unwrap();
    let edges_first = rng.chance(50);
    let es = shuffled_edges(rng, a);
    let add_edges = |g: &mut Graph<u32, (), Undirected, Ix>| {
        for &(x, y) in &es {
            let (ix, iy) = (find(g, x as u32), find(g, y as u32));
            g.add_edge(ix, iy, ());
        }
    };
    if edges_first {
        add_edges(&mut g);
        // edges touching dummies disappear with them
        for i in 0..d {
            let dn = find(&g, DUMMY + i as u32);
            if a.n > 0 {
                let other = find(&g, rng.below(a.n) as u32);
                g.add_edge(dn, other, ());
            }
        }
    }
    let mut order: Vec<usize> = (0..d).collect();
    rng.shuffle(&mut order);
    for i in order {
        let dn = find(&g, DUMMY + i as u32);
        g.remove_node(dn);
    }
    if !edges_first {
        add_edges(&mut g);
    }
    if a.n >= 2 && rng.chance(30) {
        // an edge that is added and removed again (swap_remove on the edge array); only where it cannot
        // remove a real parallel edge: pick a non-adjacent pair
        let (x, y) = (rng.below(a.n), rng.below(a.n));
        if x != y && !a.edges.iter().any(|&(p, q)| (p, q) == (x, y) || (p, q) == (y, x)) {
            let e = g.add_edge(find(&g, x as u32), find(&g, y as u32), ());
            g.remove_edge(e);
        }
    }
    let labels: Vec<u32> = (&g).node_identifiers().map(|i| g[i]).collect();
    let ix: Vec<usize> = (&g).node_identifiers().map(|i| i.index()).collect();
    let r = catch(|| g.graph6_string());
    free_fn_law(ctx, "graph", a.n, &r, || get_graph6_representation(&g));
    enc_line(ctx, "graph", &labels, &ix, g.node_count(), r);
}

fn enc_stable<Ix: IndexType>(ctx: &mut Ctx, rng: &mut Rng, a: &Abs, cap: usize) {
    let d = ndummies(rng, a.n, cap).max(if cap > a.n { 1 } else { 0 });
    let plan = insertion_plan(rng, a.n, d);
    // the last `late` real labels of the plan are inserted only after the dummies were removed,
    // so they land in vacant slots (free list order)
    let late = if a.n > 0 { rng.below(a.n.min(4) + 1) } else { 0 };
    let mut g: StableGraph<u32, (), Undirected, Ix> = StableGraph::with_capacity(0, 0);
    let mut held: Vec<u32> = Vec::new();
    let mut seen_real = 0;
    for &l in &plan {
        if l < DUMMY {
            seen_real += 1;
            if seen_real > a.n - late {
                held.push(l);
                continue;
            }
        }
        g.add_node(l);
    }
    let find =
        |g: &StableGraph<u32, (), Undirected, Ix>, l: u32| g.node_indices().find(|&i| g[i] == l).unwrap();
    let es = shuffled_edges(rng, a);
    let present = |g: &StableGraph<u32, (), Undirected, Ix>, l: u32| g.node_indices().any(|i| g[i] == l);
    let mut pending: Vec<(usize, usize)> = Vec::new();
    for &(x, y) in &es {
        if present(&g, x as u32) && present(&g, y as u32) && rng.chance(70) {
            let (ix, iy) = (find(&g, x as u32), find(&g, y as u32));
            g.add_edge(ix, iy, ());
        } else {
            pending.push((x, y));
        }
    }
    for i in 0..d {
        let dn = find(&g, DUMMY + i as u32);
        if a.n > late {
            let cands: Vec<u32> = g.node_indices().map(|i| g[i]).filter(|&l| l < DUMMY).collect();
            if !cands.is_empty() {
                let other = find(&g, *rng.pick(&cands));
                g.add_edge(dn, other, ());
            }
        }
    }
    let mut order: Vec<usize> = (0..d).collect();
    rng.shuffle(&mut order);
    // keep some vacancies: remove all dummies, re-insert the held labels (fewer than the holes, or more)
    for i in order {
        let dn = find(&g, DUMMY + i as u32);
        g.remove_node(dn);
    }
    for l in held {
        g.add_node(l);
    }
    for (x, y) in pending {
        let (ix, iy) = (find(&g, x as u32), find(&g, y as u32));
        g.add_edge(ix, iy, ());
    }
    let labels: Vec<u32> = (&g).node_identifiers().map(|i| g[i]).collect();
    let ix: Vec<usize> = (&g).node_identifiers().map(|i| i.index()).collect();
    let bound = NodeIndexable::node_bound(&g);
    let r = catch(|| g.graph6_string());
    free_fn_law(ctx, "stable", a.n, &r, || get_graph6_representation(&g));
    enc_line(ctx, "stable", &labels, &ix, bound, r);
}

fn enc_map(ctx: &mut Ctx, rng: &mut Rng, a: &Abs) {
    let d = ndummies(rng, a.n, usize::MAX);
    let plan = insertion_plan(rng, a.n, d);
    let mut g: GraphMap<u32, (), Undirected> = GraphMap::new();
    let nodes_first = rng.chance(60);
    if nodes_first {
        for &l in &plan {
            g.add_node(l);
        }
    }
    // without `nodes_first` the real nodes appear in the order the edges mention them
    for (x, y) in shuffled_edges(rng, a) {
        g.add_edge(x as u32, y as u32, ());
    }
    if !nodes_first {
        for &l in &plan {
            g.add_node(l);
        }
    }
    for i in 0..d {
        if a.n > 0 && rng.chance(50) {
            g.add_edge(DUMMY + i as u32, rng.below(a.n) as u32, ());
        }
    }
    let mut order: Vec<usize> = (0..d).collect();
    rng.shuffle(&mut order);
    for i in order {
        g.remove_node(DUMMY + i as u32); // swap_remove: the last node takes the place
    }
    let labels: Vec<u32> = (&g).node_identifiers().collect();
    let r = catch(|| g.graph6_string());
    free_fn_law(ctx, "map", a.n, &r, || get_graph6_representation(&g));
    enc_line(ctx, "map", &labels, &[], g.node_count(), r);
}

fn enc_matrix(ctx: &mut Ctx, rng: &mut Rng, a: &Abs) {
    type M = MatrixGraph<u32, (), RandomState, Undirected, Option<()>, u16>;
    let d = ndummies(rng, a.n, usize::MAX);
    let plan = insertion_plan(rng, a.n, d);
    let late = if a.n > 0 { rng.below(a.n.min(4) + 1) } else { 0 };
    let mut g: M = if rng.chance(50) { MatrixGraph::with_capacity(rng.below(9)) } else { MatrixGraph::default() };
    let mut at: HashMap<u32, petgraph::matrix_graph::NodeIndex<u16>> = HashMap::new();
    let mut held = Vec::new();
    let mut seen_real = 0;
    for &l in &plan {
        if l < DUMMY {
            seen_real += 1;
            if seen_real > a.n - late {
                held.push(l);
                continue;
            }
        }
        at.insert(l, g.add_node(l));
    }
    let mut pending = Vec::new();
    for (x, y) in shuffled_edges(rng, a) {
        match (at.get(&(x as u32)), at.get(&(y as u32))) {
            (Some(&ix), Some(&iy)) if rng.chance(70) => {
                g.update_edge(ix, iy, ());
            }
            _ => pending.push((x, y)),
        }
    }
    for i in 0..d {
        let real: Vec<u32> = at.keys().copied().filter(|&l| l < DUMMY).collect();
        if !real.is_empty() && rng.chance(60) {
            let mut real = real;
            real.sort();
            let o = *rng.pick(&real);
            g.update_edge(at[&(DUMMY + i as u32)], at[&o], ());
        }
    }
    let mut order: Vec<usize> = (0..d).collect();
    rng.shuffle(&mut order);
    for i in order {
        g.remove_node(at[&(DUMMY + i as u32)]);
    }
    for l in held {
        at.insert(l, g.add_node(l)); // reuses removed ids
    }
    for (x, y) in pending {
        g.update_edge(at[&(x as u32)], at[&(y as u32)], ());
    }
    let labels: Vec<u32> = (&g).node_identifiers().map(|i| *g.node_weight(i)).collect();
    let ix: Vec<usize> = (&g).node_identifiers().map(|i| i.index()).collect();
    let bound = NodeIndexable::node_bound(&g);
    let r = catch(|| g.graph6_string());
    free_fn_law(ctx, "matrix", a.n, &r, || get_graph6_representation(&g));
    enc_line(ctx, "matrix", &labels, &ix, bound, r);
}

fn enc_csr(ctx: &mut Ctx, rng: &mut Rng, a: &Abs) {
    let plan = insertion_plan(rng, a.n, 0);
    let mut g: Csr<u32, (), Undirected, u32> = Csr::new();
    let mut at: HashMap<u32, u32> = HashMap::new();
    for &l in &plan {
        at.insert(l, g.add_node(l));
    }
    for (x, y) in shuffled_edges(rng, a) {
        g.add_edge(at[&(x as u32)], at[&(y as u32)], ());
    }
    let labels: Vec<u32> = (&g).node_identifiers().map(|i| g[i]).collect();
    let ix: Vec<usize> = (&g).node_identifiers().map(|i| i as usize).collect();
    let r = catch(|| g.graph6_string());
    free_fn_law(ctx, "csr", a.n, &r, || get_graph6_representation(&g));
    enc_line(ctx, "csr", &labels, &ix, g.node_count(), r);
}

/// nodes / edge_count / sorted normalised edges of a decoded graph, through the visit traits
fn dec_obs<G>(g: G, m: usize, half: bool) -> String
where
    G: IntoNodeIdentifiers + IntoEdgeReferences + NodeIndexable + Copy,
{
    let nodes: Vec<usize> = g.node_identifiers().map(|i| g.to_index(i)).collect();
    let mut es: Vec<(usize, usize)> = Vec::new();
    for e in g.edge_references() {
        let (s, t) = (g.to_index(e.source()), g.to_index(e.target()));
        if half && s > t {
            continue; // Csr<Undirected> lists an edge once per direction (finding D7, property C06)
        }
        es.push((s.min(t), s.max(t)));
    }
    es.sort();
    format!("order={} nodes={} m={} edges={}", nodes.len(), list(nodes.iter()), m, pairs_str(&es))
}

/// `valid`: a `dec` line (the string itself is printed; the driver checks that it is a valid graph6 string);
/// otherwise a `decx` line of the malformed-input stream (the string goes as code points)
fn dec_lines_v(ctx: &mut Ctx, rng: &mut Rng, s: &str, n: usize, all_types: bool, valid: bool) {
    let req = |ty: &str| if valid { format!("dec {} {}", ty, s) } else { format!("decx {} {}", ty, cps(s)) };
    let r = catch(|| {
        let (order, es): (usize, Vec<(u32, u32)>) = from_graph6_representation(s.to_string());
        let es: Vec<(usize, usize)> = es.iter().map(|&(a, b)| (a as usize, b as usize)).collect();
        format!("order={} edges={}", order, pairs_str(&es))
    });
    ctx.line(&req("raw"), &r.unwrap_or_else(|| "panic".into()));
    let which: Vec<usize> = if all_types { (0..5).collect() } else { vec![rng.below(5)] };
    for k in which {
        let (ty, r) = match k {
            0 => {
                if valid && n <= 22 && rng.chance(30) {
                    (
                        "graph8",
                        catch(|| {
                            let g = Graph::<(), (), Undirected, u8>::from_graph6_string(s.to_string());
                            dec_obs(&g, g.edge_count(), false)
                        }),
                    )
                } else {
                    (
                        "graph32",
                        catch(|| {
                            let g = Graph::<(), (), Undirected, u32>::from_graph6_string(s.to_string());
                            dec_obs(&g, g.edge_count(), false)
                        }),
                    )
                }
            }
            1 => (
                "stable16",
                catch(|| {
                    let g = StableGraph::<(), (), Undirected, u16>::from_graph6_string(s.to_string());
                    dec_obs(&g, g.edge_count(), false)
                }),
            ),
            2 => (
                "map32",
                catch(|| {
                    let g = GraphMap::<u32, (), Undirected, RandomState>::from_graph6_string(s.to_string());
                    dec_obs(&g, g.edge_count(), false)
                }),
            ),
            3 => (
                "matrix16",
                catch(|| {
                    let g = MatrixGraph::<(), (), RandomState, Undirected, Option<()>, u16>::from_graph6_string(
                        s.to_string(),
                    );
                    dec_obs(&g, g.edge_count(), false)
                }),
            ),
            _ => (
                "csr32",
                catch(|| {
                    let g = Csr::<(), (), Undirected, u32>::from_graph6_string(s.to_string());
                    dec_obs(&g, g.edge_count(), true)
                }),
            ),
        };
        ctx.line(&req(ty), &r.unwrap_or_else(|| "panic".into()));
    }
}

fn dec_lines(ctx: &mut Ctx, rng: &mut Rng, s: &str, n: usize, all_types: bool) {
    dec_lines_v(ctx, rng, s, n, all_types, true)
}

// ------------------------------------------------------------------------------------------------
// the malformed-input stream: what `from_graph6_representation` / `from_graph6_string` do on strings that are NOT
// valid graph6 strings (the decoder has no error type: it panics or answers something)

/// characters below 63 (`(c as usize) - N` overflows in a debug build)
const LOW: &[char] = &[' ', '>', '0', '!', '\u{0}', '\t', '\n', '=', '"'];
/// characters above 126 (silently accepted: the low six bits of `c - 63` are used)
const HIGH: &[char] = &['\u{7f}', '\u{80}', '\u{81}', 'é', '→', '😀', '\u{10FFFF}', '\u{be}', '\u{ff}'];

fn valid_string(rng: &mut Rng, n: usize, long: bool) -> String {
    let t = n * n.saturating_sub(1) / 2;
    let p = *rng.pick(&[0u32, 20, 50, 80, 100]);
    let bits: Vec<bool> = (0..t).map(|_| rng.chance(p)).collect();
    if long && n <= 62 {
        // the four-byte size header for a small order: not what the format prescribes, but the decoder reads it
        let mut all: Vec<bool> = (0..18).rev().map(|i| (n >> i) & 1 == 1).collect();
        all.extend_from_slice(&bits);
        while all.len() % 6 != 0 {
            all.push(false);
        }
        let mut out = String::from("~");
        for c in all.chunks(6) {
            out.push((c.iter().fold(0u8, |a, b| a * 2 + *b as u8) + 63) as char);
        }
        out
    } else {
        pack_graph6(n, &bits)
    }
}

fn mal_case(ctx: &mut Ctx, rng: &mut Rng, case: u64) {
    let n = match rng.below(8) {
        0 => rng.below(3),
        1..=4 => 2 + rng.below(9),
        5 => 11 + rng.below(30),
        6 => *rng.pick(&[62usize, 63, 64]),
        _ => 41 + rng.below(30),
    };
    let base = valid_string(rng, n, false);
    let chars: Vec<char> = base.chars().collect();
    let kind = rng.below(16);
    let (name, s): (&str, String) = match kind {
        0 => ("empty", String::new()),
        1 => {
            // truncated: the last k characters are missing
            let k = 1 + rng.below(chars.len().min(4));
            ("truncated", chars[..chars.len() - k.min(chars.len())].iter().collect())
        }
        2 => {
            // a byte below 63 somewhere (header or body)
            let mut c = chars.clone();
            let pos = if rng.chance(30) { 0 } else { rng.below(c.len()) };
            c[pos] = *rng.pick(LOW);
            ("low-byte", c.into_iter().collect())
        }
        3 => {
            // a byte above 126 somewhere
            let mut c = chars.clone();
            let pos = if rng.chance(30) { 0 } else { rng.below(c.len()) };
            c[pos] = *rng.pick(HIGH);
            ("high-byte", c.into_iter().collect())
        }
        4 => {
            // too long: surplus characters after the last group
            let mut c = chars.clone();
            for _ in 0..1 + rng.below(6) {
                c.push((63 + rng.below(64) as u8) as char);
            }
            ("too-long", c.into_iter().collect())
        }
        5 => {
            // one character removed from the middle (wrong length for the order)
            let mut c = chars.clone();
            if c.len() > 1 {
                let pos = 1 + rng.below(c.len() - 1);
                c.remove(pos);
            }
            ("char-removed", c.into_iter().collect())
        }
        6 => {
            // long header forms that are cut short
            ("short-long-header", (*rng.pick(&["~", "~?", "~??", "~~", "~~~", "~?A"])).to_string())
        }
        7 => ("long-header-small-order", valid_string(rng, n.min(40), true)),
        8 => {
            // the eight-byte header `~~` + 36 bits: read by the decoder as an 18-bit order >= 258048
            let mut out = String::from("~~");
            for _ in 0..6 + rng.below(8) {
                out.push((63 + rng.below(64) as u8) as char);
            }
            ("eight-byte-header", out)
        }
        9 => {
            // non-zero padding bits in the last character
            let mut c = chars.clone();
            let t = n * n.saturating_sub(1) / 2;
            let pad = (6 - t % 6) % 6;
            if pad > 0 && c.len() > 1 {
                let last = c.len() - 1;
                let v = c[last] as u8 - 63;
                c[last] = ((v | ((1u8 << pad) - 1)) + 63) as char;
            }
            ("nonzero-padding", c.into_iter().collect())
        }
        10 => {
            // the header claims one node more than the body has bits for
            let nb = n + 1 + rng.below(3);
            let bigger = valid_string(rng, nb, false);
            let hl = if nb >= 63 { 4 } else { 1 };
            let mut out: String = bigger.chars().take(hl).collect();
            out.extend(chars.iter().skip(if n >= 63 { 4 } else { 1 }));
            ("order-too-big", out)
        }
        11 => {
            // random printable text in the byte range of the format
            let len = rng.below(13);
            ("garbage", (0..len).map(|_| (63 + rng.below(64) as u8) as char).collect())
        }
        12 => {
            // arbitrary text: any mix of low, valid and high characters
            let len = 1 + rng.below(8);
            (
                "text",
                (0..len)
                    .map(|_| match rng.below(4) {
                        0 => *rng.pick(LOW),
                        1 => *rng.pick(HIGH),
                        _ => (63 + rng.below(64) as u8) as char,
                    })
                    .collect(),
            )
        }
        13 => {
            // several high bytes: a string that is no graph6 text at all but decodes
            let mut c = chars.clone();
            for x in c.iter_mut() {
                if rng.chance(40) {
                    *x = char::from_u32(*x as u32 + 64 * (1 + rng.below(3)) as u32).unwrap_or(*x);
                }
            }
            ("shifted-by-64", c.into_iter().collect())
        }
        14 => ("valid", base.clone()), // control: a valid string through the same path
        _ => {
            // `~` in first position of a short string: the next three bytes become the order
            let mut c = chars.clone();
            c[0] = '~';
            ("tilde-first", c.into_iter().collect())
        }
    };
    ctx.raw(&format!("case {} g6x {} n={} len={} {}", case, name, n, s.chars().count(), profile()));
    let all = rng.chance(40);
    dec_lines_v(ctx, rng, &s, n, all, false);
    // a second string of the same kind of damage applied to the result (compound damage)
    if rng.chance(35) && !s.is_empty() {
        let mut c: Vec<char> = s.chars().collect();
        match rng.below(3) {
            0 => {
                c.pop();
            }
            1 => c.push(*rng.pick(HIGH)),
            _ => {
                let pos = rng.below(c.len());
                c[pos] = *rng.pick(LOW);
            }
        }
        let s2: String = c.into_iter().collect();
        dec_lines_v(ctx, rng, &s2, n, false, false);
    }
}

/// the build profile, for the driver's decoder model: does `usize` subtraction panic on overflow (debug profile) or wrap
/// (release profile: `overflow-checks = false`); are `debug_assert!`s compiled in.  petgraph is built with the same profile.
fn profile() -> String {
    let ovf = catch(|| {
        let z = std::hint::black_box(0usize);
        std::hint::black_box(z - std::hint::black_box(1usize))
    })
    .is_none();
    format!("ovf={} dbg={}", ovf as u8, cfg!(debug_assertions) as u8)
}

fn g6_case(ctx: &mut Ctx, rng: &mut Rng, case: u64, a: Abs, family: &str) {
    let mut a = a;
    if a.simple {
        // the truth line lists a simple graph in the format's (column-major) order; the driver checks that
        a.edges.sort_by_key(|&(r, c)| (c, r));
    }
    ctx.raw(&format!(
        "case {} g6 {} n={} m={} simple={} {}",
        case,
        family,
        a.n,
        a.edges.len(),
        a.simple as u8,
        profile()
    ));
    ctx.line(
        &format!("truth n={} simple={} edges={}", a.n, a.simple as u8, pairs_str(&a.edges)),
        "ok",
    );
    // `big`: too many edges for the quadratic builders (Csr::add_edge, label look-ups); a sparse graph of a large order
    // goes through all five types
    let big = a.n > 200 && (a.n > 1100 || a.edges.len() > 64);
    // encoders, all five types (index widths vary; u8 only where everything fits)
    match rng.below(4) {
        0 if a.n + 5 <= 255 && a.edges.len() + 8 <= 255 => enc_graph::<u8>(ctx, rng, &a, 255),
        1 => enc_graph::<u16>(ctx, rng, &a, 60000),
        2 => enc_graph::<usize>(ctx, rng, &a, usize::MAX),
        _ => enc_graph::<u32>(ctx, rng, &a, usize::MAX),
    }
    if !big {
        match rng.below(4) {
            0 if a.n + 5 <= 255 && a.edges.len() + 8 <= 255 => enc_stable::<u8>(ctx, rng, &a, 255),
            1 => enc_stable::<u16>(ctx, rng, &a, 60000),
            2 => enc_stable::<usize>(ctx, rng, &a, usize::MAX),
            _ => enc_stable::<u32>(ctx, rng, &a, usize::MAX),
        }
        enc_map(ctx, rng, &a);
        enc_matrix(ctx, rng, &a);
        enc_csr(ctx, rng, &a);
    }
    if a.simple {
        // decode: the valid string of this very graph (so decode∘encode is observed) ...
        let s = pack_graph6(a.n, &abs_bits(&a));
        dec_lines(ctx, rng, &s, a.n, !big);
        // ... and a second valid string that no encoder produced: random bits of the same order
        if !big {
            let t = a.n * a.n.saturating_sub(1) / 2;
            let p = *rng.pick(&[3u32, 20, 50, 80]);
            let mut bits: Vec<bool> = (0..t).map(|_| a.n <= 200 && rng.chance(p)).collect();
            if a.n > 200 {
                // a large order: a few bits only (the decoders of Csr / MatrixGraph build edge by edge)
                for _ in 0..rng.below(30) {
                    bits[rng.below(t)] = true;
                }
            }
            let s2 = pack_graph6(a.n, &bits);
            dec_lines(ctx, rng, &s2, a.n, false);
        }
    }
}

/// the k-th graph of the enumeration of all simple graphs on 0..=5 nodes (1 + 1 + 2 + 8 + 64 + 1024 = 1100)
const EXHAUSTIVE: u64 = 1100;
fn exhaustive_graph(k: u64) -> Abs {
    let mut k = k;
    let mut n = 0usize;
    loop {
        let cnt = 1u64 << (n * n.saturating_sub(1) / 2);
        if k < cnt {
            break;
        }
        k -= cnt;
        n += 1;
    }
    let mut edges = Vec::new();
    let mut bit = 0;
    for c in 1..n {
        for r in 0..c {
            if (k >> bit) & 1 == 1 {
                edges.push((r, c));
            }
            bit += 1;
        }
    }
    Abs { n, edges, simple: true }
}

fn random_abs(rng: &mut Rng, thorough: bool) -> (Abs, &'static str) {
    let (n, fam) = match rng.below(20) {
        0..=4 => (rng.below(9), "small"),
        5..=9 => (*rng.pick(&[61usize, 62, 62, 63, 63, 63, 64, 64, 65]), "switch"),
        10..=12 => (55 + rng.below(16), "near"),
        13..=16 => (9 + rng.below(46), "mid"),
        17 => (71 + rng.below(70), "long"),
        18 => {
            if rng.chance(50) {
                // orders that need more than eight bits of the 18-bit size header (and both sides of every byte
                // boundary of the order): sparse, stored in and decoded into all five types
                (*rng.pick(&[255usize, 256, 256, 257, 257, 258, 300, 511, 512, 513, 767, 768, 1000, 1023, 1024]), "big")
            } else {
                (71 + rng.below(70), "long")
            }
        }
        _ => {
            if rng.chance(if thorough { 10 } else { 6 }) {
                (*rng.pick(&[4095usize, 4096, 4097]), "huge")
            } else {
                (*rng.pick(&[127usize, 128, 129, 191, 255, 256, 257]), "long")
            }
        }
    };
    let sparse = n > 1000 || fam == "big";
    let p: u32 = if sparse { 1 } else { *rng.pick(&[0u32, 3, 10, 20, 50, 50, 80, 97, 100]) };
    let mut edges = Vec::new();
    if sparse {
        // sparse: a handful of edges incl. the first and last position
        edges.push((0, 1));
        edges.push((n - 2, n - 1));
        if fam == "big" {
            // pairs whose column / row index needs the ninth bit, and the pairs around index 255/256
            for e in [(0, n - 1), (254, 255), (255, 256), (0, 256), (1, 255)] {
                if e.1 < n && rng.chance(60) && !edges.contains(&e) {
                    edges.push(e);
                }
            }
        }
        for _ in 0..(if fam == "big" { rng.below(40) } else { 200 }) {
            let (a, b) = (rng.below(n), rng.below(n));
            if a != b && !edges.contains(&(a.min(b), a.max(b))) {
                edges.push((a.min(b), a.max(b)));
            }
        }
    } else {
        for c in 1..n {
            for r in 0..c {
                if rng.chance(p) {
                    edges.push((r, c));
                }
            }
        }
    }
    let mut simple = true;
    if n > 0 && n <= 70 && rng.chance(8) {
        // not a simple graph: outside the property's quantifier, compared with the mirror model only
        simple = false;
        for _ in 0..1 + rng.below(3) {
            let v = rng.below(n);
            edges.push((v, v));
        }
        if !edges.is_empty() {
            for _ in 0..rng.below(3) {
                let e = *rng.pick(&edges);
                edges.push(e);
            }
        }
    }
    (Abs { n, edges, simple }, fam)
}

// ================================================================================================
// Dot

/// a weight whose formatting goes into the label: the table of its renderings is what the model gets
trait TW: Display + Debug + Clone {
    fn gen(rng: &mut Rng) -> Self;
    fn hex(&self) -> Option<[String; 4]> {
        None
    }
    fn renderings(&self) -> Vec<Option<String>> {
        let mut v = vec![
            Some(format!("{}", self)),
            Some(format!("{:#}", self)),
            Some(format!("{:?}", self)),
            Some(format!("{:#?}", self)),
        ];
        match self.hex() {
            Some(h) => v.extend(h.into_iter().map(Some)),
            None => v.extend([None, None, None, None]),
        }
        v
    }
}

const PIECES: &[&str] = &[
    "\"", "\\", "\n", "{", "}", "[", "]", ";", "->", "--", " ", "=", "label", "\\l", "\\\"", "\\n", "a", "B", "0",
    "é", "→", "😀", "\t", "\r", "\u{0}", "\" ]\n    9 [ label = \"x", "\"]\n7 -> 8 [ ]\n", "//", "#", "<", ">", "|",
    "%", "\u{7f}", "\u{85}", "\u{200b}", ",", "\\\\", "'", "digraph {", "}\n", "\\", "\"",
];

fn adversarial(rng: &mut Rng) -> String {
    let k = match rng.below(10) {
        0 => 0,
        1..=4 => 1 + rng.below(2),
        _ => 1 + rng.below(6),
    };
    (0..k).map(|_| *rng.pick(PIECES)).collect()
}

impl TW for String {
    fn gen(rng: &mut Rng) -> Self {
        adversarial(rng)
    }
}

/// a structured weight: derived (pretty-printable) `Debug`, a `Display` that looks at the `#` flag
#[derive(Clone, Debug)]
#[allow(dead_code)]
struct Pw {
    s: String,
    k: i32,
    t: (char, Option<String>),
}
impl Display for Pw {
    fn fmt(&self, f: &mut fmt::Formatter) -> fmt::Result {
        if f.alternate() {
            write!(f, "<{}#{}>\n{}", self.s, self.k, self.t.0)
        } else {
            write!(f, "{}/{}", self.s, self.k)
        }
    }
}
impl TW for Pw {
    fn gen(rng: &mut Rng) -> Self {
        let c = rng.pick(PIECES).chars().next().unwrap();
        Pw {
            s: adversarial(rng),
            k: rng.range(-3, 40) as i32,
            t: (c, if rng.chance(50) { Some(adversarial(rng)) } else { None }),
        }
    }
}
/// a weight whose `Display` and `Debug` write quotes, backslashes, line breaks, braces and non-ASCII text RAW (a
/// hand-written `Debug` need not escape anything)
#[derive(Clone)]
struct Rw(String, String);
impl Display for Rw {
    fn fmt(&self, f: &mut fmt::Formatter) -> fmt::Result {
        if f.alternate() {
            write!(f, "{{{}}}\n\"{}\"é", self.0, self.1)
        } else {
            write!(f, "{}\"{}\\", self.0, self.1)
        }
    }
}
impl Debug for Rw {
    fn fmt(&self, f: &mut fmt::Formatter) -> fmt::Result {
        if f.alternate() {
            write!(f, "Rw {{\n    \"{}\",\n\t{} →\n}}", self.0, self.1)
        } else {
            write!(f, "Rw(\"{}\"|{}\\)", self.0, self.1)
        }
    }
}
impl TW for Rw {
    fn gen(rng: &mut Rng) -> Self {
        Rw(adversarial(rng), adversarial(rng))
    }
}
impl TW for i32 {
    fn gen(rng: &mut Rng) -> Self {
        *rng.pick(&[0, 1, -1, 10, 255, 256, -256, 48879, i32::MAX, i32::MIN, 7, 7, 7])
    }
    fn hex(&self) -> Option<[String; 4]> {
        Some([format!("{:x}", self), format!("{:#x}", self), format!("{:X}", self), format!("{:#X}", self)])
    }
}
/// `GraphMap` nodes must be `Copy + Ord + Hash`
static STRS: &[&str] = &[
    "", "\"", "\\", "\n", "a\"b", "x\\", "\\\"", "l1\nl2", "{r|e|c}", "[x]", "a;b", "p->q", "é→😀", " ", "\" ]\n 9 [ \"",
    "tab\there", "\\l", "end\\",
];
impl TW for &'static str {
    fn gen(rng: &mut Rng) -> Self {
        *rng.pick(STRS)
    }
}

fn cps(s: &str) -> String {
    if s.is_empty() {
        "-".into()
    } else {
        s.chars().map(|c| (c as u32).to_string()).collect::<Vec<_>>().join(",")
    }
}

struct Interner {
    map: HashMap<Vec<Option<String>>, usize>,
}
impl Interner {
    fn id(&mut self, ctx: &mut Ctx, r: Vec<Option<String>>) -> usize {
        if let Some(&i) = self.map.get(&r) {
            return i;
        }
        let i = self.map.len();
        let enc: Vec<String> = r.iter().map(|x| x.as_ref().map(|s| cps(s)).unwrap_or_else(|| "x".into())).collect();
        ctx.line(&format!("w {} {}", i, enc.join("|")), "ok");
        self.map.insert(r, i);
        i
    }
}

/// attribute-getter strings: petgraph writes them verbatim, so each is a well-formed `a_list` fragment (the driver checks
/// that: `attrFrag`) — with everything such a fragment may contain: quoted strings holding escaped quotes, backslashes,
/// brackets, braces, raw line breaks and non-ASCII text; `;` and `,` separators; names that end the string; white space
const ATTRS: &[&str] = &[
    "", "color=red ", "shape = \"box\" ", "penwidth=2, style=\"dashed\" ", "fontname=\"a b\" ; weight = 1.5 ",
    "tooltip=\"q\\\"uote ]\" ", "color=\"#ff0000\"",
    "xlabel=\"é→😀\" ", "comment=\"{a|b} [x] ; , = -> -- // #\" ", "tooltip=\"line1\nline2\" ",
    "tooltip=\"back\\\\slash\" ", "k=\"\"", "color=red", "a=b;c=d,e=f;", "färbe=rot ", "w=1.5,h=.5 ",
    "\t\n  color=blue\n", "URL=\"x\\\"]\n    9 [ label = \\\"y\" ",
];
/// attribute getters: a function of what the weight displays (so harness and getters agree)
fn attr_of(shown: &str) -> &'static str {
    let h: usize = shown.bytes().map(|b| b as usize).sum::<usize>() + shown.len();
    ATTRS[h % ATTRS.len()]
}

/// the outer format specs: (kind, alternate) is what `graph_fmt` can see, the rest must be ignored
/// kind: 0 Display, 1 Debug, 2 LowerHex, 3 UpperHex
const SPECS: &[(u8, bool, &str)] = &[
    (0, false, "{}"),
    (0, true, "{:#}"),
    (0, false, "{:>40}"),
    (0, true, "{:<#12}"),
    (0, false, "{:+.2}"),
    (1, false, "{:?}"),
    (1, true, "{:#?}"),
    (1, false, "{:>40?}"),
    (1, true, "{:<#12?}"),
    (2, false, "{:x}"),
    (2, true, "{:#x}"),
    (2, true, "{:#010x}"),
    (3, false, "{:X}"),
    (3, true, "{:#X}"),
    (3, false, "{:>12X}"),
    // wave 6: width / precision / fill / alignment / sign / zero flags in every combination the grammar of
    // `std::fmt` has; none of them may reach a weight (ids 15..=34 Display/Debug, 35..=38 hex)
    (0, false, "{:4}"),
    (0, false, "{:.3}"),
    (0, false, "{:<8.2}"),
    (0, false, "{:.0}"),
    (0, false, "{:1}"),
    (0, false, "{:*^30.1}"),
    (0, false, "{:+}"),
    (0, false, "{:08}"),
    (0, false, "{:.60}"),
    (0, true, "{:#4}"),
    (0, true, "{:#.3}"),
    (0, true, "{:\"<#9.2}"),
    (1, false, "{:4?}"),
    (1, false, "{:.3?}"),
    (1, false, "{:<8.2?}"),
    (1, false, "{:.60?}"),
    (1, false, "{:-^+09.0?}"),
    (1, true, "{:#4?}"),
    (1, true, "{:#.3?}"),
    (1, true, "{:\\>#20.1?}"),
    (2, false, "{:4x}"),
    (2, false, "{:<8.2x}"),
    (3, true, "{:#.3X}"),
    (3, false, "{:+06X}"),
];
/// ids of the specs every weight supports (Display / Debug) and of those that need `LowerHex` / `UpperHex`
const DD_SPECS: &[usize] = &[0, 1, 2, 3, 4, 5, 6, 7, 8, 15, 16, 17, 18, 19, 20, 21, 22, 23, 24, 25, 26, 27, 28, 29, 30, 31, 32, 33, 34];
const HEX_SPECS: &[usize] = &[9, 10, 11, 12, 13, 14, 35, 36, 37, 38];
/// the plain spec with the same (kind, alternate) as spec `id`: what the text must be equal to
fn plain_spec(id: usize) -> usize {
    match (SPECS[id].0, SPECS[id].1) {
        (0, false) => 0,
        (0, true) => 1,
        (1, false) => 5,
        (1, true) => 6,
        (2, false) => 9,
        (2, true) => 10,
        (3, false) => 12,
        _ => 13,
    }
}
macro_rules! fmt_dd {
    ($id:expr, $d:expr) => {
        match $id {
            0 => Some(format!("{}", $d)),
            1 => Some(format!("{:#}", $d)),
            2 => Some(format!("{:>40}", $d)),
            3 => Some(format!("{:<#12}", $d)),
            4 => Some(format!("{:+.2}", $d)),
            5 => Some(format!("{:?}", $d)),
            6 => Some(format!("{:#?}", $d)),
            7 => Some(format!("{:>40?}", $d)),
            8 => Some(format!("{:<#12?}", $d)),
            15 => Some(format!("{:4}", $d)),
            16 => Some(format!("{:.3}", $d)),
            17 => Some(format!("{:<8.2}", $d)),
            18 => Some(format!("{:.0}", $d)),
            19 => Some(format!("{:1}", $d)),
            20 => Some(format!("{:*^30.1}", $d)),
            21 => Some(format!("{:+}", $d)),
            22 => Some(format!("{:08}", $d)),
            23 => Some(format!("{:.60}", $d)),
            24 => Some(format!("{:#4}", $d)),
            25 => Some(format!("{:#.3}", $d)),
            26 => Some(format!("{:\"<#9.2}", $d)),
            27 => Some(format!("{:4?}", $d)),
            28 => Some(format!("{:.3?}", $d)),
            29 => Some(format!("{:<8.2?}", $d)),
            30 => Some(format!("{:.60?}", $d)),
            31 => Some(format!("{:-^+09.0?}", $d)),
            32 => Some(format!("{:#4?}", $d)),
            33 => Some(format!("{:#.3?}", $d)),
            34 => Some(format!("{:\\>#20.1?}", $d)),
            _ => None,
        }
    };
}
macro_rules! fmt_hex {
    ($id:expr, $d:expr) => {
        match $id {
            9 => Some(format!("{:x}", $d)),
            10 => Some(format!("{:#x}", $d)),
            11 => Some(format!("{:#010x}", $d)),
            12 => Some(format!("{:X}", $d)),
            13 => Some(format!("{:#X}", $d)),
            14 => Some(format!("{:>12X}", $d)),
            35 => Some(format!("{:4x}", $d)),
            36 => Some(format!("{:<8.2x}", $d)),
            37 => Some(format!("{:#.3X}", $d)),
            38 => Some(format!("{:+06X}", $d)),
            _ => fmt_dd!($id, $d),
        }
    };
}

fn config_name(c: &Config) -> &'static str {
    match c {
        Config::NodeIndexLabel => "NodeIndexLabel",
        Config::EdgeIndexLabel => "EdgeIndexLabel",
        Config::EdgeNoLabel => "EdgeNoLabel",
        Config::NodeNoLabel => "NodeNoLabel",
        Config::GraphContentOnly => "GraphContentOnly",
        Config::RankDir(RankDir::TB) => "RankDirTB",
        Config::RankDir(RankDir::BT) => "RankDirBT",
        Config::RankDir(RankDir::LR) => "RankDirLR",
        Config::RankDir(RankDir::RL) => "RankDirRL",
        _ => "Unknown",
    }
}

fn flag(i: usize) -> Config {
    match i {
        0 => Config::NodeIndexLabel,
        1 => Config::EdgeIndexLabel,
        2 => Config::EdgeNoLabel,
        3 => Config::NodeNoLabel,
        _ => Config::GraphContentOnly,
    }
}
fn rankdir(i: usize) -> Config {
    Config::RankDir(match i {
        0 => RankDir::TB,
        1 => RankDir::BT,
        2 => RankDir::LR,
        _ => RankDir::RL,
    })
}

/// the k-th of the 32 * 5 config combinations, as a list in canonical order
fn config_combo(k: usize) -> Vec<Config> {
    let mut v = Vec::new();
    for i in 0..5 {
        if (k >> i) & 1 == 1 {
            v.push(flag(i));
        }
    }
    let rd = (k >> 5) % 5;
    if rd > 0 {
        v.push(rankdir(rd - 1));
    }
    v
}

fn random_configs(rng: &mut Rng) -> Vec<Config> {
    let mut v = config_combo(rng.below(160));
    if rng.chance(35) {
        // bias: the plain and the label-carrying configurations matter most
        v.retain(|c| !matches!(c, Config::NodeNoLabel | Config::EdgeNoLabel | Config::NodeIndexLabel | Config::EdgeIndexLabel));
    }
    if rng.chance(25) {
        // duplicates and several RankDirs (the last one wins)
        for _ in 0..1 + rng.below(2) {
            let c = if rng.chance(50) { rankdir(rng.below(4)) } else { flag(rng.below(5)) };
            v.push(c);
        }
    }
    rng.shuffle(&mut v);
    v
}

/// what the harness knows of the graph by construction: (index, weight) and (source, target, weight)
struct Truth<NW, EW> {
    nodes: Vec<(usize, NW)>,
    edges: Vec<(usize, usize, EW)>,
}

fn dot_lines<G>(
    ctx: &mut Ctx,
    rng: &mut Rng,
    g: G,
    gtype: &str,
    truth: &Truth<G::NodeWeight, G::EdgeWeight>,
    render: &dyn for<'a> Fn(&Dot<'a, G>, usize) -> Option<String>,
    hex: bool,
) where
    G: IntoNodeReferences + IntoEdgeReferences + NodeIndexable + GraphProp + Copy,
    G::NodeWeight: TW,
    G::EdgeWeight: TW,
{
    let mut int = Interner { map: HashMap::new() };
    let tn: Vec<String> = truth
        .nodes
        .iter()
        .map(|(i, w)| format!("{}:{}", i, int.id(ctx, w.renderings())))
        .collect();
    let te: Vec<String> = truth
        .edges
        .iter()
        .map(|(a, b, w)| format!("{}:{}:{}", a, b, int.id(ctx, w.renderings())))
        .collect();
    let j = |v: &Vec<String>, sep: &str| if v.is_empty() { "-".to_string() } else { v.join(sep) };
    ctx.line(
        &format!("graph {} {} tn={} te={}", gtype, if g.is_directed() { "dir" } else { "undir" }, j(&tn, ","), j(&te, ",")),
        "ok",
    );
    // what graph_fmt will iterate (the same trait methods)
    let attr_cps = |s: &str| if s.is_empty() { "-".to_string() } else { cps(s).replace(',', ".") };
    let on: Vec<String> = g
        .node_references()
        .map(|n| {
            let shown = format!("{}", n.weight());
            format!("{}:{}:{}", g.to_index(n.id()), int.id(ctx, n.weight().renderings()), attr_cps(attr_of(&shown)))
        })
        .collect();
    let oe: Vec<String> = g
        .edge_references()
        .map(|e| {
            let shown = format!("{}", e.weight());
            format!(
                "{}:{}:{}:{}",
                g.to_index(e.source()),
                g.to_index(e.target()),
                int.id(ctx, e.weight().renderings()),
                attr_cps(attr_of(&shown))
            )
        })
        .collect();
    ctx.line(&format!("iter nodes={} edges={}", j(&on, ";"), j(&oe, ";")), "ok");

    let edge_attr = |_: G, e: G::EdgeRef| attr_of(&format!("{}", e.weight())).to_string();
    let node_attr = |_: G, n: G::NodeRef| attr_of(&format!("{}", n.weight())).to_string();
    // LAW: the derived std traits of `Config` and `RankDir` (`Debug` never panics and names the variant, `==` is
    // reflexive and separates the variants, `RankDir: Copy`)
    {
        let all: Vec<Config> = (0..5).map(flag).chain((0..4).map(rankdir)).collect();
        let mut bad: Option<String> = None;
        for (i, c) in all.iter().enumerate() {
            let d = catch(|| format!("{:?}|{:#?}", c, c));
            match d {
                None => bad = Some(format!("Debug of Config #{} panicked", i)),
                Some(t) => {
                    let name = config_name(c);
                    let want = if i < 5 { name.to_string() } else { format!("RankDir({})", &name[7..]) };
                    if !t.starts_with(&format!("{}|", want)) {
                        bad = Some(format!("Debug of {} prints [{}]", name, t.replace(char::is_whitespace, "_")));
                    }
                }
            }
            for (j, c2) in all.iter().enumerate() {
                if (c == c2) != (i == j) || (c != c2) != (i != j) {
                    bad = Some(format!("Config #{} == Config #{} answers {}", i, j, c == c2));
                }
            }
        }
        for i in 0..4 {
            if let Config::RankDir(r) = rankdir(i) {
                let r2 = r;
                #[allow(clippy::clone_on_copy)]
                let r3 = r.clone();
                if r2 != r || r3 != r || format!("{:?}", r) != ["TB", "BT", "LR", "RL"][i] {
                    bad = Some(format!("RankDir #{}: Clone / Copy / PartialEq / Debug disagree", i));
                }
            }
        }
        if rng.chance(25) {
            ctx.line("law config-std-traits", &crate::iterlaws::law_verdict(bad));
        }
    }
    if rng.chance(50) {
        adaptor_laws(ctx, rng, g);
    }
    let all_configs = ctx.tier_thorough && rng.chance(12);
    let rounds = if all_configs { 160 } else if ctx.tier_thorough { 10 } else { 7 };
    for k in 0..rounds {
        let configs = if all_configs { config_combo(k) } else { random_configs(rng) };
        // 60 % of the lines carry a width / precision / fill / sign / zero flag in the outer format spec
        let pool: Vec<usize> = if hex && rng.chance(40) { HEX_SPECS.to_vec() } else { DD_SPECS.to_vec() };
        let corner: Vec<usize> = pool.iter().copied().filter(|&i| i != plain_spec(i)).collect();
        let plain: Vec<usize> = pool.iter().copied().filter(|&i| i == plain_spec(i)).collect();
        let spec = if rng.chance(60) { *rng.pick(&corner) } else { *rng.pick(&plain) };
        let with_attrs = rng.chance(35);
        let make = |spec: usize, new_ok: bool| {
            catch(|| {
                if with_attrs {
                    render(&Dot::with_attr_getters(g, &configs, &edge_attr, &node_attr), spec)
                } else if configs.is_empty() && new_ok {
                    render(&Dot::new(g), spec)
                } else {
                    render(&Dot::with_config(g, &configs), spec)
                }
            })
        };
        let new_ok = rng.chance(50);
        let text = make(spec, new_ok);
        let (kind, alt, _) = SPECS[spec];
        let cfg: Vec<&str> = configs.iter().map(config_name).collect();
        ctx.line(
            &format!(
                "dot cfg={} kind={} alt={} spec={} attrs={}",
                if cfg.is_empty() { "-".to_string() } else { cfg.join(",") },
                kind,
                alt as u8,
                spec,
                with_attrs as u8
            ),
            &match &text {
                Some(Some(t)) => cps(t),
                Some(None) => "unsupported".into(),
                None => "panic".into(),
            },
        );
        // LAW: width, precision, fill, alignment, sign and zero flags of the outer format spec are not visible in the
        // text: it is character for character the text of the plain spec of the same trait and `#` flag
        if spec != plain_spec(spec) {
            let plain = make(plain_spec(spec), new_ok);
            let v = match (&text, &plain) {
                (Some(Some(a)), Some(Some(b))) => {
                    if a == b {
                        Ok(())
                    } else {
                        let k = a.chars().zip(b.chars()).take_while(|(x, y)| x == y).count();
                        Err(format!(
                            "the text of {} differs from the text of {} at char {} (lengths {} and {})",
                            SPECS[spec].2.replace(' ', "_"),
                            SPECS[plain_spec(spec)].2,
                            k,
                            a.chars().count(),
                            b.chars().count()
                        ))
                    }
                }
                (Some(Some(_)), _) | (_, Some(Some(_))) => Err("one of the two format specs panicked".to_string()),
                _ => Ok(()),
            };
            ctx.line(
                &format!("law dot-format-spec-ignored spec={} plain={}", spec, plain_spec(spec)),
                &match v {
                    Ok(()) => "ok".to_string(),
                    Err(w) => format!("VIOLATED {}", w),
                },
            );
        }
    }
}

/// the statement lines of a `Dot::new` text (no getters, plain spec: a weight's line breaks are escaped, so one statement
/// per line): `Ok((a, Some(b), rest))` an edge statement, `Ok((a, None, rest))` a node statement
fn stmt_lines(text: &str) -> Vec<(usize, Option<usize>, String)> {
    let mut out = Vec::new();
    for l in text.split('\n') {
        let Some(body) = l.strip_prefix("    ") else { continue };
        let mut it = body.splitn(4, ' ');
        let (Some(a), Some(op)) = (it.next().and_then(|x| x.parse::<usize>().ok()), it.next()) else { continue };
        if op == "->" || op == "--" {
            let b = it.next().and_then(|x| x.parse::<usize>().ok());
            out.push((a, b, format!("{} {}", op, it.next().unwrap_or(""))));
        } else {
            out.push((a, None, format!("{} {}", op, it.collect::<Vec<_>>().join(" "))));
        }
    }
    out
}

/// LAW: `Dot` over a graph adaptor prints the adaptor's graph: `Reversed(g)` = the same node statements and every edge
/// statement with its endpoints exchanged; `NodeFiltered(g, keep)` = the node statements of the kept nodes and the edge
/// statements between kept nodes; header and footer unchanged.  Statements are compared as multisets (unordered pairs for
/// an undirected graph).
fn adaptor_laws<G>(ctx: &mut Ctx, rng: &mut Rng, g: G)
where
    G: IntoNodeReferences + IntoEdgeReferences + NodeIndexable + GraphProp + Copy,
    G::NodeWeight: TW,
    G::EdgeWeight: TW,
{
    let directed = g.is_directed();
    let Some(base) = catch(|| format!("{}", Dot::new(g))) else { return };
    let head = |t: &str| t.split('\n').next().unwrap_or("").to_string();
    let canon = |mut v: Vec<(usize, Option<usize>, String)>| {
        if !directed {
            for x in v.iter_mut() {
                if let Some(b) = x.1 {
                    if b < x.0 {
                        *x = (b, Some(x.0), x.2.clone());
                    }
                }
            }
        }
        v.sort();
        v
    };
    let verdict = |name: &str, got: Option<String>, want: Vec<(usize, Option<usize>, String)>| -> Option<String> {
        let Some(got) = got else { return Some(format!("Dot over {} panicked", name)) };
        if head(&got) != head(&base) || !got.ends_with("}\n") {
            return Some(format!("Dot over {}: header or footer differs from the base graph's", name));
        }
        let (g1, w1) = (canon(stmt_lines(&got)), canon(want));
        if g1 == w1 {
            None
        } else {
            let k = g1.iter().zip(w1.iter()).take_while(|(a, b)| a == b).count();
            Some(format!(
                "Dot over {}: {} statements, expected {}; first difference (sorted) got {:?} expected {:?}",
                name,
                g1.len(),
                w1.len(),
                g1.get(k).map(|x| (x.0, x.1)),
                w1.get(k).map(|x| (x.0, x.1))
            ))
        }
    };
    let base_stmts = stmt_lines(&base);
    // Reversed
    let want: Vec<_> = base_stmts
        .iter()
        .map(|(a, b, r)| match b {
            Some(b) => (*b, Some(*a), r.clone()),
            None => (*a, None, r.clone()),
        })
        .collect();
    let got = catch(|| format!("{}", Dot::new(Reversed(g))));
    ctx.line("law dot-over-adaptor reversed", &crate::iterlaws::law_verdict(verdict("Reversed", got, want)));
    // NodeFiltered
    let bound = g.node_bound();
    let keep: Vec<bool> = (0..bound).map(|_| rng.chance(65)).collect();
    let want: Vec<_> = base_stmts
        .iter()
        .filter(|(a, b, _)| keep[*a] && b.map(|b| keep[b]).unwrap_or(true))
        .cloned()
        .collect();
    let got = catch(|| {
        let f = NodeFiltered(g, |n: G::NodeId| keep[g.to_index(n)]);
        format!("{}", Dot::new(&f))
    });
    ctx.line("law dot-over-adaptor node-filtered", &crate::iterlaws::law_verdict(verdict("NodeFiltered", got, want)));
}

fn small_n(rng: &mut Rng) -> usize {
    match rng.below(10) {
        0 => 0,
        1 => 1,
        _ => 2 + rng.below(5),
    }
}

/// `Graph`: multigraph, self loops, optional removals (the last node is swapped into the hole)
fn dot_graph<NW: TW, EW: TW, Ty: EdgeType>(rng: &mut Rng) -> (Graph<NW, EW, Ty, u32>, Truth<NW, EW>) {
    let mut g: Graph<NW, EW, Ty, u32> = Graph::with_capacity(0, 0);
    let mut t = Truth { nodes: Vec::new(), edges: Vec::new() };
    let n = small_n(rng);
    for _ in 0..n {
        let w = NW::gen(rng);
        let i = g.add_node(w.clone());
        t.nodes.push((i.index(), w));
    }
    let m = if n == 0 { 0 } else { rng.below(2 * n + 1) };
    for _ in 0..m {
        let (a, b) = (rng.below(n), rng.below(n));
        let w = EW::gen(rng);
        g.add_edge((a as u32).into(), (b as u32).into(), w.clone());
        t.edges.push((a, b, w));
    }
    if n > 1 && rng.chance(30) {
        // remove_node(v): incident edges go, the last node takes index v
        let v = rng.below(n);
        g.remove_node((v as u32).into());
        t.edges.retain(|e| e.0 != v && e.1 != v);
        let last = n - 1;
        t.nodes.swap_remove(v);
        if v != last {
            t.nodes[v].0 = v;
            for e in t.edges.iter_mut() {
                if e.0 == last {
                    e.0 = v;
                }
                if e.1 == last {
                    e.1 = v;
                }
            }
        }
    }
    (g, t)
}

/// `StableGraph` with vacancies among nodes and edges, and reuse of vacant slots
fn dot_stable<NW: TW, EW: TW, Ty: EdgeType>(rng: &mut Rng) -> (StableGraph<NW, EW, Ty, u32>, Truth<NW, EW>) {
    let mut g: StableGraph<NW, EW, Ty, u32> = StableGraph::with_capacity(0, 0);
    // live nodes: index -> weight; live edges: edge index -> (a, b, w)
    let mut nodes: Vec<(usize, NW)> = Vec::new();
    let mut edges: Vec<(usize, usize, usize, EW)> = Vec::new();
    let steps = 4 + rng.below(16);
    for step in 0..steps {
        let k = if step < 3 { 0 } else { rng.weighted(&[5, 7, 3, 2]) };
        match k {
            0 => {
                let w = NW::gen(rng);
                let i = g.add_node(w.clone());
                nodes.push((i.index(), w));
            }
            1 if !nodes.is_empty() => {
                let (a, b) = (rng.pick(&nodes).0, rng.pick(&nodes).0);
                let w = EW::gen(rng);
                let e = g.add_edge((a as u32).into(), (b as u32).into(), w.clone());
                edges.push((e.index(), a, b, w));
            }
            2 if !nodes.is_empty() => {
                let v = rng.pick(&nodes).0;
                g.remove_node((v as u32).into());
                nodes.retain(|x| x.0 != v);
                edges.retain(|e| e.1 != v && e.2 != v);
            }
            3 if !edges.is_empty() => {
                let e = rng.pick(&edges).0;
                g.remove_edge(petgraph::stable_graph::EdgeIndex::new(e));
                edges.retain(|x| x.0 != e);
            }
            _ => {}
        }
    }
    let t = Truth { nodes, edges: edges.into_iter().map(|(_, a, b, w)| (a, b, w)).collect() };
    (g, t)
}

/// `MatrixGraph`: simple (one edge per ordered / unordered pair), removal and id reuse
fn dot_matrix<NW: TW, EW: TW, Ty: EdgeType>(
    rng: &mut Rng,
) -> (MatrixGraph<NW, EW, RandomState, Ty, Option<EW>, u16>, Truth<NW, EW>) {
    let mut g: MatrixGraph<NW, EW, RandomState, Ty, Option<EW>, u16> = MatrixGraph::default();
    let directed = Ty::is_directed();
    let mut nodes: Vec<(usize, NW)> = Vec::new();
    let mut edges: Vec<(usize, usize, EW)> = Vec::new();
    let steps = 4 + rng.below(14);
    for step in 0..steps {
        let k = if step < 3 { 0 } else { rng.weighted(&[4, 8, 3, 2]) };
        match k {
            0 => {
                let w = NW::gen(rng);
                let i = g.add_node(w.clone());
                nodes.push((i.index(), w));
            }
            1 if !nodes.is_empty() => {
                let (a, b) = (rng.pick(&nodes).0, rng.pick(&nodes).0);
                let w = EW::gen(rng);
                g.update_edge((a as u16).into(), (b as u16).into(), w.clone());
                edges.retain(|e| !((e.0, e.1) == (a, b) || (!directed && (e.0, e.1) == (b, a))));
                edges.push((a, b, w));
            }
            2 if !nodes.is_empty() => {
                let v = rng.pick(&nodes).0;
                g.remove_node((v as u16).into());
                nodes.retain(|x| x.0 != v);
                edges.retain(|e| e.0 != v && e.1 != v);
            }
            3 if !edges.is_empty() => {
                let (a, b) = {
                    let e = rng.pick(&edges);
                    (e.0, e.1)
                };
                g.remove_edge((a as u16).into(), (b as u16).into());
                edges.retain(|e| (e.0, e.1) != (a, b));
            }
            _ => {}
        }
    }
    (g, Truth { nodes, edges })
}

/// `Csr<_, _, Directed>` (the undirected `Csr` lists every edge twice: open finding D7 of property C06)
fn dot_csr<NW: TW, EW: TW>(rng: &mut Rng) -> (Csr<NW, EW, Directed, u32>, Truth<NW, EW>) {
    let mut g: Csr<NW, EW, Directed, u32> = Csr::new();
    let mut t = Truth { nodes: Vec::new(), edges: Vec::new() };
    let n = small_n(rng);
    for _ in 0..n {
        let w = NW::gen(rng);
        let i = g.add_node(w.clone());
        t.nodes.push((i as usize, w));
    }
    let m = if n == 0 { 0 } else { rng.below(2 * n + 1) };
    for _ in 0..m {
        let (a, b) = (rng.below(n), rng.below(n));
        let w = EW::gen(rng);
        if g.add_edge(a as u32, b as u32, w.clone()) {
            t.edges.push((a, b, w));
        }
    }
    (g, t)
}

/// `GraphMap`: nodes are values; removal swaps the last node into the hole, so indices are positions
fn dot_map<N: TW + Copy + Ord + std::hash::Hash, EW: TW, Ty: EdgeType>(
    rng: &mut Rng,
) -> (GraphMap<N, EW, Ty>, Truth<N, EW>) {
    let mut g: GraphMap<N, EW, Ty> = GraphMap::new();
    let directed = Ty::is_directed();
    let mut nodes: Vec<N> = Vec::new();
    let mut edges: Vec<(N, N, EW)> = Vec::new();
    let steps = 4 + rng.below(14);
    for step in 0..steps {
        let k = if step < 3 { 0 } else { rng.weighted(&[4, 8, 3, 2]) };
        match k {
            0 => {
                let v = N::gen(rng);
                g.add_node(v);
                if !nodes.contains(&v) {
                    nodes.push(v);
                }
            }
            1 if !nodes.is_empty() => {
                let (a, b) = (*rng.pick(&nodes), *rng.pick(&nodes));
                let w = EW::gen(rng);
                g.add_edge(a, b, w.clone());
                let same = |e: &(N, N, EW)| (e.0, e.1) == (a, b) || (!directed && (e.0, e.1) == (b, a));
                if let Some(p) = edges.iter().position(same) {
                    edges[p].2 = w; // weight replaced, endpoints as first inserted
                } else {
                    edges.push((a, b, w));
                }
            }
            2 if !nodes.is_empty() => {
                let v = *rng.pick(&nodes);
                g.remove_node(v);
                nodes.retain(|x| *x != v);
                edges.retain(|e| e.0 != v && e.1 != v);
            }
            3 if !edges.is_empty() => {
                let (a, b) = {
                    let e = rng.pick(&edges);
                    (e.0, e.1)
                };
                g.remove_edge(a, b);
                edges.retain(|e| (e.0, e.1) != (a, b));
            }
            _ => {}
        }
    }
    let t = Truth {
        nodes: nodes.iter().map(|&v| (NodeIndexable::to_index(&g, v), v)).collect(),
        edges: edges
            .into_iter()
            .map(|(a, b, w)| (NodeIndexable::to_index(&g, a), NodeIndexable::to_index(&g, b), w))
            .collect(),
    };
    (g, t)
}

macro_rules! run_dd {
    ($ctx:expr, $rng:expr, $g:expr, $ty:expr, $t:expr) => {
        dot_lines($ctx, $rng, $g, $ty, $t, &|d, id| fmt_dd!(id, d), false)
    };
}
macro_rules! run_hex {
    ($ctx:expr, $rng:expr, $g:expr, $ty:expr, $t:expr) => {
        dot_lines($ctx, $rng, $g, $ty, $t, &|d, id| fmt_hex!(id, d), true)
    };
}

fn dot_case_ty<Ty: EdgeType>(ctx: &mut Ctx, rng: &mut Rng, gtype: usize, wk: usize) {
    match (gtype, wk) {
        (0, 0) => {
            let (g, t) = dot_graph::<String, String, Ty>(rng);
            run_dd!(ctx, rng, &g, "graph", &t)
        }
        (0, 1) => {
            let (g, t) = dot_graph::<Pw, Pw, Ty>(rng);
            run_dd!(ctx, rng, &g, "graph", &t)
        }
        (0, 3) => {
            let (g, t) = dot_graph::<Rw, Rw, Ty>(rng);
            run_dd!(ctx, rng, &g, "graph", &t)
        }
        (0, _) => {
            let (g, t) = dot_graph::<i32, i32, Ty>(rng);
            run_hex!(ctx, rng, &g, "graph", &t)
        }
        (1, 0) => {
            let (g, t) = dot_stable::<String, String, Ty>(rng);
            run_dd!(ctx, rng, &g, "stable", &t)
        }
        (1, 1) => {
            let (g, t) = dot_stable::<Pw, String, Ty>(rng);
            run_dd!(ctx, rng, &g, "stable", &t)
        }
        (1, 3) => {
            let (g, t) = dot_stable::<Rw, String, Ty>(rng);
            run_dd!(ctx, rng, &g, "stable", &t)
        }
        (1, _) => {
            let (g, t) = dot_stable::<i32, i32, Ty>(rng);
            run_hex!(ctx, rng, &g, "stable", &t)
        }
        (2, 0) => {
            let (g, t) = dot_map::<&'static str, String, Ty>(rng);
            run_dd!(ctx, rng, &g, "map", &t)
        }
        (2, 1) => {
            let (g, t) = dot_map::<&'static str, Pw, Ty>(rng);
            run_dd!(ctx, rng, &g, "map", &t)
        }
        (2, 3) => {
            let (g, t) = dot_map::<&'static str, Rw, Ty>(rng);
            run_dd!(ctx, rng, &g, "map", &t)
        }
        (2, _) => {
            let (g, t) = dot_map::<i32, i32, Ty>(rng);
            run_hex!(ctx, rng, &g, "map", &t)
        }
        (3, 0) => {
            let (g, t) = dot_matrix::<String, String, Ty>(rng);
            run_dd!(ctx, rng, &g, "matrix", &t)
        }
        (3, 1) => {
            let (g, t) = dot_matrix::<String, Pw, Ty>(rng);
            run_dd!(ctx, rng, &g, "matrix", &t)
        }
        (3, 3) => {
            let (g, t) = dot_matrix::<Rw, Rw, Ty>(rng);
            run_dd!(ctx, rng, &g, "matrix", &t)
        }
        (3, _) => {
            let (g, t) = dot_matrix::<i32, i32, Ty>(rng);
            run_hex!(ctx, rng, &g, "matrix", &t)
        }
        _ => unreachable!(),
    }
}

fn dot_case(ctx: &mut Ctx, rng: &mut Rng, case: u64) {
    let gtype = rng.weighted(&[3, 4, 3, 3, 2]);
    let directed = rng.chance(50) || gtype == 4;
    let wk = rng.weighted(&[5, 3, 2, 2]);
    ctx.raw(&format!(
        "case {} dot {} {} w={}",
        case,
        ["graph", "stable", "map", "matrix", "csr"][gtype],
        if directed { "dir" } else { "undir" },
        ["string", "struct", "int", "raw"][wk]
    ));
    if gtype == 4 {
        match wk {
            0 => {
                let (g, t) = dot_csr::<String, String>(rng);
                run_dd!(ctx, rng, &g, "csr", &t)
            }
            1 => {
                let (g, t) = dot_csr::<Pw, Pw>(rng);
                run_dd!(ctx, rng, &g, "csr", &t)
            }
            3 => {
                let (g, t) = dot_csr::<Rw, Rw>(rng);
                run_dd!(ctx, rng, &g, "csr", &t)
            }
            _ => {
                let (g, t) = dot_csr::<i32, i32>(rng);
                run_hex!(ctx, rng, &g, "csr", &t)
            }
        }
    } else if directed {
        dot_case_ty::<Directed>(ctx, rng, gtype, wk)
    } else {
        dot_case_ty::<Undirected>(ctx, rng, gtype, wk)
    }
}

pub fn run(ctx: &mut Ctx, case: u64) {
    let mut rng = Rng::for_case(ctx.seed, "C18", case);
    if ctx.tier_thorough && case < EXHAUSTIVE {
        let a = exhaustive_graph(case);
        g6_case(ctx, &mut rng, case, a, "exhaustive");
        return;
    }
    if rng.chance(9) {
        mal_case(ctx, &mut rng, case);
        return;
    }
    if rng.chance(45) {
        let (a, fam) = if rng.chance(25) {
            (exhaustive_graph(rng.below(EXHAUSTIVE as usize) as u64), "tiny")
        } else {
            random_abs(&mut rng, ctx.tier_thorough)
        };
        g6_case(ctx, &mut rng, case, a, fam);
    } else {
        dot_case(ctx, &mut rng, case);
    }
}
