//! xorshift64* — the single source of randomness; every case derives its own stream from
//! (seed, property, case index) so that cases are independent and replayable one by one.
#[derive(Clone)]
pub struct Rng(u64);

fn splitmix(mut z: u64) -> u64 {
    z = z.wrapping_add(0x9E3779B97F4A7C15);
    z = (z ^ (z >> 30)).wrapping_mul(0xBF58476D1CE4E5B9);
    z = (z ^ (z >> 27)).wrapping_mul(0x94D049BB133111EB);
    z ^ (z >> 31)
}

impl Rng {
    pub fn for_case(seed: u64, prop: &str, case: u64) -> Rng {
        let mut h = splitmix(seed);
        for b in prop.bytes() {
            h = splitmix(h ^ b as u64);
        }
        h = splitmix(h ^ case.wrapping_mul(0x2545F4914F6CDD1D));
        if h == 0 {
            h = 0x1234567;
        }
        Rng(h)
    }
    pub fn next(&mut self) -> u64 {
        let mut x = self.0;
        x ^= x >> 12;
        x ^= x << 25;
        x ^= x >> 27;
        self.0 = x;
        x.wrapping_mul(0x2545F4914F6CDD1D)
    }
    /// uniform in 0..n (n > 0)
    pub fn below(&mut self, n: usize) -> usize {
        (self.next() % (n as u64)) as usize
    }
    /// uniform in lo..=hi
    pub fn range(&mut self, lo: i64, hi: i64) -> i64 {
        lo + (self.next() % ((hi - lo + 1) as u64)) as i64
    }
    /// true with probability pct/100
    pub fn chance(&mut self, pct: u32) -> bool {
        (self.next() % 100) < pct as u64
    }
    pub fn pick<'a, T>(&mut self, xs: &'a [T]) -> &'a T {
        &xs[self.below(xs.len())]
    }
    /// index drawn with the given integer weights
    pub fn weighted(&mut self, ws: &[u32]) -> usize {
        let total: u32 = ws.iter().sum();
        let mut r = (self.next() % total as u64) as u32;
        for (i, w) in ws.iter().enumerate() {
            if r < *w {
                return i;
            }
            r -= *w;
        }
        ws.len() - 1
    }
    pub fn shuffle<T>(&mut self, xs: &mut [T]) {
        for i in (1..xs.len()).rev() {
            let j = self.below(i + 1);
            xs.swap(i, j);
        }
    }
}
