//! C17 — the instantiations the mirrored part of the harness does not use: other weight types (`()`, floats,
//! `String`, `Option`, tuples, `Vec`), `usize` indices, `GraphMap`s with other node types and non-default hashers,
//! and the stand-alone serde impls of `NodeIndex`, `EdgeIndex` and `Direction`.
//!
//! Judged in the harness as laws against the mirrored instantiation: the same wire value, with its `i32` weights
//! translated into the other weight type, must be accepted or refused exactly as the `i32` instantiation accepts or
//! refuses it (that one IS mirrored and judged by the driver), must load as the same graph (indices, endpoints,
//! vacancies, weights up to the translation), and must survive JSON text, `serde_json::Value` and bincode round trips
//! unchanged. `law inst … => ok | VIOLATED <why>`.
use super::{bopts, classify};
use crate::common::*;
use bincode::Options;
use petgraph::graph::{EdgeIndex, Graph, IndexType, NodeIndex};
use petgraph::graphmap::{GraphMap, NodeTrait};
use petgraph::stable_graph::StableGraph;
use petgraph::visit::{EdgeIndexable, EdgeRef, IntoEdgeReferences, NodeIndexable};
use petgraph::{Direction, EdgeType};
use serde::de::DeserializeOwned;
use serde::Serialize;
use std::fmt::Debug;
use std::hash::BuildHasher;

/// a weight type the wire's `i32` weights are translated into (`of` factors through `norm`; where the type is used
/// as the node type of a `GraphMap` the translation is monotone, because undirected edge keys are ordered)
pub trait Wt: Serialize + DeserializeOwned + Clone + PartialEq + Debug {
    /// the translation
    fn of(x: i32) -> Self;
    /// what the translation keeps of `x`: `of` is injective on the normal forms
    fn norm(x: i32) -> i32 {
        x
    }
    /// back: `back(of(x)) == norm(x)`
    fn back(&self) -> i32;
}

impl Wt for i32 {
    fn of(x: i32) -> Self {
        x
    }
    fn back(&self) -> i32 {
        *self
    }
}
impl Wt for () {
    fn of(_: i32) -> Self {}
    fn norm(_: i32) -> i32 {
        0
    }
    fn back(&self) -> i32 {
        0
    }
}
impl Wt for f32 {
    fn of(x: i32) -> Self {
        // dyadic rationals: exact in binary and in decimal
        Self::norm(x) as f32 / 8.0
    }
    fn norm(x: i32) -> i32 {
        x.clamp(-1_000_000, 1_000_000)
    }
    fn back(&self) -> i32 {
        (*self * 8.0) as i32
    }
}
impl Wt for f64 {
    fn of(x: i32) -> Self {
        if x == 0 {
            -0.0
        } else {
            x as f64 / 16.0
        }
    }
    fn back(&self) -> i32 {
        (*self * 16.0) as i32
    }
}
impl Wt for String {
    fn of(x: i32) -> Self {
        // characters that need escaping in JSON, a multi-byte one, and the number
        format!("w\"\\\n\u{e9}{}", x)
    }
    fn back(&self) -> i32 {
        self.trim_start_matches("w\"\\\n\u{e9}").parse().unwrap_or(i32::MIN + 1)
    }
}
impl Wt for Option<i8> {
    // an edge weight `None` prints as `[a,b,null]`, next to the `null` of a vacant edge
    fn of(x: i32) -> Self {
        if x % 3 == 0 {
            None
        } else {
            Some(x.clamp(-128, 127) as i8)
        }
    }
    fn norm(x: i32) -> i32 {
        if x % 3 == 0 {
            0
        } else {
            x.clamp(-128, 127)
        }
    }
    fn back(&self) -> i32 {
        self.map_or(0, |v| v as i32)
    }
}
impl Wt for (i16, u8) {
    fn of(x: i32) -> Self {
        (x.clamp(-32768, 32767) as i16, 7)
    }
    fn norm(x: i32) -> i32 {
        x.clamp(-32768, 32767)
    }
    fn back(&self) -> i32 {
        self.0 as i32
    }
}
impl Wt for Vec<u8> {
    // length-prefixed inside a length-prefixed sequence
    fn of(x: i32) -> Self {
        let k = x.clamp(-3, 40) + 3;
        (0..k as u8).collect()
    }
    fn norm(x: i32) -> i32 {
        x.clamp(-3, 40)
    }
    fn back(&self) -> i32 {
        self.len() as i32 - 3
    }
}
impl Wt for i64 {
    fn of(x: i32) -> Self {
        match x {
            9 => i64::MAX,
            -3 => i64::MIN,
            _ => x as i64 * 1_000_003,
        }
    }
    fn back(&self) -> i32 {
        match *self {
            i64::MAX => 9,
            i64::MIN => -3,
            v => (v / 1_000_003) as i32,
        }
    }
}
impl Wt for u64 {
    // monotone (it is also a node type of an undirected GraphMap, whose edge keys are ordered)
    fn of(x: i32) -> Self {
        if x == i32::MAX {
            u64::MAX
        } else {
            (x as i64 + 2_147_483_648) as u64
        }
    }
    fn back(&self) -> i32 {
        if *self == u64::MAX {
            i32::MAX
        } else {
            (*self as i64 - 2_147_483_648) as i32
        }
    }
}
impl Wt for char {
    fn of(x: i32) -> Self {
        char::from_u32(0x4e00 + (x.clamp(-100, 20000) + 100) as u32).unwrap_or('?')
    }
    fn norm(x: i32) -> i32 {
        x.clamp(-100, 20000)
    }
    fn back(&self) -> i32 {
        *self as i32 - 0x4e00 - 100
    }
}
impl Wt for (i8, bool) {
    fn of(x: i32) -> Self {
        (x.clamp(-128, 127) as i8, x.clamp(-128, 127) % 2 == 0)
    }
    fn norm(x: i32) -> i32 {
        x.clamp(-128, 127)
    }
    fn back(&self) -> i32 {
        self.0 as i32
    }
}

fn semi(v: Vec<String>) -> String {
    if v.is_empty() {
        "-".into()
    } else {
        v.join(";")
    }
}

/// the observation `dump_indexed!` of c17.rs prints, with the weights translated back
macro_rules! dump_indexed_wt {
    ($g:expr) => {{
        let g = $g;
        let ns: Vec<String> = g.node_indices().map(|i| format!("{}:{}", i.index(), g[i].back())).collect();
        let es: Vec<String> = g
            .edge_references()
            .map(|e| format!("{}:{}:{}:{}", e.id().index(), e.source().index(), e.target().index(), e.weight().back()))
            .collect();
        let cap = 2 * es.len() + 8;
        let adj: Vec<String> = g
            .node_indices()
            .map(|i| {
                let o = list(
                    g.edges_directed(i, Direction::Outgoing)
                        .take(cap)
                        .map(|e| format!("{}.{}.{}", e.id().index(), e.source().index(), e.target().index())),
                );
                let n = list(
                    g.edges_directed(i, Direction::Incoming)
                        .take(cap)
                        .map(|e| format!("{}.{}.{}", e.id().index(), e.source().index(), e.target().index())),
                );
                let u = list(g.neighbors_undirected(i).take(cap).map(|x| x.index().to_string()));
                format!("{}|{}|{}|{}", i.index(), o, n, u)
            })
            .collect();
        format!(
            "nc={} ec={} nb={} eb={} N={} E={} A={}",
            g.node_count(),
            g.edge_count(),
            g.node_bound(),
            g.edge_bound(),
            semi(ns),
            semi(es),
            semi(adj)
        )
    }};
}

pub fn dump_g<N: Wt, E: Wt, Ty: EdgeType, Ix: IndexType>(g: &Graph<N, E, Ty, Ix>) -> String {
    dump_indexed_wt!(g)
}
pub fn dump_s<N: Wt, E: Wt, Ty: EdgeType, Ix: IndexType>(g: &StableGraph<N, E, Ty, Ix>) -> String {
    dump_indexed_wt!(g)
}
pub fn dump_m<N: Wt + NodeTrait, E: Wt, Ty: EdgeType, S: BuildHasher>(g: &GraphMap<N, E, Ty, S>) -> String {
    let ns: Vec<String> = g.nodes().map(|n| n.back().to_string()).collect();
    let es: Vec<String> = g.all_edges().map(|(a, b, w)| format!("{}:{}:{}", a.back(), b.back(), w.back())).collect();
    let adj: Vec<String> = g
        .nodes()
        .map(|n| {
            format!(
                "{}|{}|{}",
                n.back(),
                list(g.neighbors_directed(n, Direction::Outgoing).map(|x| x.back())),
                list(g.neighbors_directed(n, Direction::Incoming).map(|x| x.back()))
            )
        })
        .collect();
    format!("nc={} ec={} N={} E={} A={}", g.node_count(), g.edge_count(), semi(ns), semi(es), semi(adj))
}

/// the JSON text of a wire value whose weights are translated into `N` / `E`, fields in the order `order`
pub fn wire_json<N: Wt, E: Wt>(nodes: &[i64], holes: &[u64], prop: char, edges: &[Option<(u64, u64, i64)>], order: &str) -> String {
    let js = |s: String| s;
    let field = |c: char| match c {
        'n' => format!("\"nodes\":[{}]", nodes.iter().map(|x| js(serde_json::to_string(&N::of(*x as i32)).unwrap())).collect::<Vec<_>>().join(",")),
        'h' => format!("\"node_holes\":[{}]", holes.iter().map(|x| x.to_string()).collect::<Vec<_>>().join(",")),
        'p' => format!("\"edge_property\":\"{}\"", match prop { 'd' => "directed", 'u' => "undirected", _ => "Directed" }),
        'e' => format!(
            "\"edges\":[{}]",
            edges
                .iter()
                .map(|e| match e {
                    None => "null".to_string(),
                    Some((a, b, x)) => format!("[{},{},{}]", a, b, serde_json::to_string(&E::of(*x as i32)).unwrap()),
                })
                .collect::<Vec<_>>()
                .join(",")
        ),
        _ => "\"unknown_field\":[null,{\"nodes\":3}]".to_string(),
    };
    format!("{{{}}}", order.chars().map(field).collect::<Vec<_>>().join(","))
}

/// One instantiation `T` against the answer of the mirrored `i32` instantiation for the same (normalised) wire:
/// `base` = `Ok(dump)` / `Err(error class)`.
pub fn inst_law<T, D>(text: &str, base: &Result<String, String>, dump: D) -> Option<String>
where
    T: Serialize + DeserializeOwned,
    D: Fn(&T) -> String,
{
    let r1 = match catch(|| serde_json::from_str::<T>(text)) {
        None => return Some("deserializing the JSON text panicked".into()),
        Some(r) => r,
    };
    let t1 = match (r1, base) {
        (Err(e), Err(bc)) => {
            let c = classify(&e.to_string());
            return if &c == bc { None } else { Some(format!("refused with [{}], the i32 instantiation refuses with [{}]", c, bc)) };
        }
        (Err(e), Ok(_)) => return Some(format!("refused ({}) a stream that the i32 instantiation loads", e)),
        (Ok(t), Err(bc)) => return Some(format!("loaded [{}] from a stream that the i32 instantiation refuses with [{}]", dump(&t), bc)),
        (Ok(t), Ok(bd)) => {
            let d = match catch(|| dump(&t)) {
                Some(d) => d,
                None => return Some("observing the loaded graph panicked".into()),
            };
            if &d != bd {
                return Some(format!("loaded [{}], the i32 instantiation loads [{}]", d, bd));
            }
            t
        }
    };
    let d1 = dump(&t1);
    // JSON text there and back
    let s1 = match catch(|| serde_json::to_string(&t1)) {
        Some(Ok(s)) => s,
        _ => return Some("serializing to JSON text failed or panicked".into()),
    };
    match catch(|| serde_json::from_str::<T>(&s1)) {
        Some(Ok(t2)) => {
            if dump(&t2) != d1 {
                return Some(format!("JSON text round trip: [{}] became [{}]", d1, dump(&t2)));
            }
            if serde_json::to_string(&t2).ok().as_ref() != Some(&s1) {
                return Some("JSON text round trip: the second serialization differs from the first".into());
            }
        }
        Some(Err(e)) => return Some(format!("its own JSON text is refused: {}", e)),
        None => return Some("deserializing its own JSON text panicked".into()),
    }
    // serde_json::Value there and back
    match catch(|| serde_json::to_value(&t1)) {
        Some(Ok(v)) => match catch(|| serde_json::from_value::<T>(v)) {
            Some(Ok(t3)) => {
                if dump(&t3) != d1 {
                    return Some(format!("serde_json::Value round trip: [{}] became [{}]", d1, dump(&t3)));
                }
            }
            Some(Err(e)) => return Some(format!("its own serde_json::Value is refused: {}", e)),
            None => return Some("deserializing its own serde_json::Value panicked".into()),
        },
        _ => return Some("serializing to serde_json::Value failed or panicked".into()),
    }
    // bincode there and back; every truncation of the stream is refused without a panic
    let b1 = match catch(|| bopts().serialize(&t1)) {
        Some(Ok(b)) => b,
        _ => return Some("serializing to bincode failed or panicked".into()),
    };
    match catch(|| bopts().deserialize::<T>(&b1)) {
        Some(Ok(t4)) => {
            if dump(&t4) != d1 {
                return Some(format!("bincode round trip: [{}] became [{}]", d1, dump(&t4)));
            }
            if bopts().serialize(&t4).ok().as_ref() != Some(&b1) {
                return Some("bincode round trip: the second serialization differs from the first".into());
            }
        }
        Some(Err(e)) => return Some(format!("its own bincode stream is refused: {}", e)),
        None => return Some("deserializing its own bincode stream panicked".into()),
    }
    // the other entry points of the two transports: bincode with variable-length integers and big endian;
    // serde_json reading from a byte slice and from an io::Read, writing into a Vec
    {
        let o2 = bincode::options().with_varint_encoding().with_big_endian().with_limit(1 << 20);
        match catch(|| o2.serialize(&t1)) {
            Some(Ok(b2)) => match catch(|| o2.deserialize::<T>(&b2)) {
                Some(Ok(t5)) => {
                    if dump(&t5) != d1 {
                        return Some(format!("bincode (varint, big endian) round trip: [{}] became [{}]", d1, dump(&t5)));
                    }
                }
                Some(Err(e)) => return Some(format!("its own bincode (varint, big endian) stream is refused: {}", e)),
                None => return Some("deserializing its own bincode (varint, big endian) stream panicked".into()),
            },
            _ => return Some("serializing to bincode (varint, big endian) failed or panicked".into()),
        }
        match catch(|| serde_json::to_vec(&t1)) {
            Some(Ok(v)) => {
                if v != s1.as_bytes() {
                    return Some("serde_json::to_vec and to_string differ".into());
                }
                match catch(|| (serde_json::from_slice::<T>(&v).map(|t| dump(&t)), serde_json::from_reader::<_, T>(&v[..]).map(|t| dump(&t)))) {
                    Some((Ok(a), Ok(b))) => {
                        if a != d1 || b != d1 {
                            return Some(format!("serde_json::from_slice / from_reader load [{}] / [{}], from_str loads [{}]", a, b, d1));
                        }
                    }
                    Some(_) => return Some("serde_json::from_slice / from_reader refuse the text that from_str accepts".into()),
                    None => return Some("serde_json::from_slice / from_reader panicked".into()),
                }
            }
            _ => return Some("serde_json::to_vec failed or panicked".into()),
        }
    }
    let cuts: Vec<usize> = if b1.len() <= 48 { (0..b1.len()).collect() } else { (0..24).chain((b1.len() - 24)..b1.len()).collect() };
    for k in cuts {
        // (a cut stream lacks bytes the full parse consumed, bincode reports the end of input; what the property
        // determines is that nothing panics)
        if catch(|| bopts().deserialize::<T>(&b1[..k]).is_ok()).is_none() {
            return Some(format!("deserializing its bincode stream cut after {} of {} bytes panicked", k, b1.len()));
        }
    }
    None
}

// ------------------------------------------------------------------------------------------------
// floats that are not numbers of JSON: bincode keeps the bits, JSON must not panic

pub fn float_law<Ty: EdgeType>(n: usize, edges: &[(usize, usize)]) -> Option<String> {
    let specials32 = [f32::NAN, -f32::NAN, f32::INFINITY, f32::NEG_INFINITY, -0.0, f32::MIN_POSITIVE, f32::MAX, 1e-45, 0.0, 1.5];
    let specials64 = [f64::NAN, f64::INFINITY, f64::NEG_INFINITY, -0.0, f64::MIN_POSITIVE, f64::MAX, 5e-324, -2.25];
    let mut g: StableGraph<f32, f64, Ty, u16> = StableGraph::default();
    let ids: Vec<_> = (0..n.max(1)).map(|i| g.add_node(specials32[i % specials32.len()])).collect();
    for (k, &(a, b)) in edges.iter().enumerate() {
        g.add_edge(ids[a % ids.len()], ids[b % ids.len()], specials64[k % specials64.len()]);
    }
    if ids.len() > 2 {
        g.remove_node(ids[1]);
    }
    let shape = |g: &StableGraph<f32, f64, Ty, u16>| -> String {
        let ns: Vec<String> = g.node_indices().map(|i| format!("{}:{:08x}", i.index(), g[i].to_bits())).collect();
        let es: Vec<String> =
            g.edge_references().map(|e| format!("{}:{}:{}:{:016x}", e.id().index(), e.source().index(), e.target().index(), e.weight().to_bits())).collect();
        format!("nb={} eb={} N={} E={}", g.node_bound(), g.edge_bound(), semi(ns), semi(es))
    };
    let d0 = shape(&g);
    let b = match catch(|| bopts().serialize(&g)) {
        Some(Ok(b)) => b,
        _ => return Some("bincode serialization of float weights failed or panicked".into()),
    };
    match catch(|| bopts().deserialize::<StableGraph<f32, f64, Ty, u16>>(&b)) {
        Some(Ok(h)) => {
            if shape(&h) != d0 {
                return Some(format!("bincode round trip of float weights (bit patterns): [{}] became [{}]", d0, shape(&h)));
            }
        }
        Some(Err(e)) => return Some(format!("its own bincode stream (float weights) is refused: {}", e)),
        None => return Some("deserializing its own bincode stream (float weights) panicked".into()),
    }
    // JSON: NaN and the infinities are not JSON numbers (serde_json writes null): only "no panic" is determined
    match catch(|| serde_json::to_string(&g)) {
        None => return Some("JSON serialization of non-finite float weights panicked".into()),
        Some(Ok(s)) => {
            if catch(|| serde_json::from_str::<StableGraph<f32, f64, Ty, u16>>(&s).is_ok()).is_none() {
                return Some("deserializing the JSON text of non-finite float weights panicked".into());
            }
        }
        Some(Err(_)) => {}
    }
    None
}

// ------------------------------------------------------------------------------------------------
// NodeIndex / EdgeIndex / Direction on their own

fn index_law_ix<Ix: IndexType + Serialize + DeserializeOwned>(vals: &[usize], bytes: usize) -> Option<String> {
    let max = <Ix as IndexType>::max().index();
    for &k in vals.iter().chain([0usize, 1, max - 1, max].iter()) {
        let k = k.min(max);
        let n = NodeIndex::<Ix>::new(k);
        let e = EdgeIndex::<Ix>::new(k);
        let le: Vec<u8> = (k as u64).to_le_bytes()[..bytes].to_vec();
        if serde_json::to_string(&n).ok() != Some(k.to_string()) || serde_json::to_string(&e).ok() != Some(k.to_string()) {
            return Some(format!("index {} does not serialize as the JSON number", k));
        }
        if serde_json::from_str::<NodeIndex<Ix>>(&k.to_string()).ok() != Some(n) || serde_json::from_str::<EdgeIndex<Ix>>(&k.to_string()).ok() != Some(e) {
            return Some(format!("the JSON number {} does not deserialize as that index", k));
        }
        if bopts().serialize(&n).ok() != Some(le.clone()) || bopts().serialize(&e).ok() != Some(le.clone()) {
            return Some(format!("index {} does not serialize as {} little-endian bytes", k, bytes));
        }
        if bopts().deserialize::<NodeIndex<Ix>>(&le).ok() != Some(n) || bopts().deserialize::<EdgeIndex<Ix>>(&le).ok() != Some(e) {
            return Some(format!("the bytes of index {} do not deserialize as that index", k));
        }
        // inside containers
        let v = vec![(n, e), (NodeIndex::<Ix>::end(), EdgeIndex::<Ix>::end())];
        let s = serde_json::to_string(&v).ok()?;
        if serde_json::from_str::<Vec<(NodeIndex<Ix>, EdgeIndex<Ix>)>>(&s).ok().as_ref() != Some(&v) {
            return Some(format!("a Vec of (NodeIndex, EdgeIndex) with {} does not survive JSON", k));
        }
        let b = bopts().serialize(&v).ok()?;
        if bopts().deserialize::<Vec<(NodeIndex<Ix>, EdgeIndex<Ix>)>>(&b).ok().as_ref() != Some(&v) {
            return Some(format!("a Vec of (NodeIndex, EdgeIndex) with {} does not survive bincode", k));
        }
    }
    // a number the index type cannot hold is an error, never a panic or a wrapped index
    if bytes < 8 {
        for bad in [(max as u64 + 1).to_string(), "-1".to_string(), "1.5".to_string(), "null".to_string()] {
            match catch(|| serde_json::from_str::<NodeIndex<Ix>>(&bad).is_ok()) {
                None => return Some(format!("deserializing a NodeIndex from {} panicked", bad)),
                Some(true) => return Some(format!("a NodeIndex was read from {}", bad)),
                Some(false) => {}
            }
            match catch(|| serde_json::from_str::<EdgeIndex<Ix>>(&bad).is_ok()) {
                None => return Some(format!("deserializing an EdgeIndex from {} panicked", bad)),
                Some(true) => return Some(format!("an EdgeIndex was read from {}", bad)),
                Some(false) => {}
            }
        }
    }
    None
}

pub fn index_law(vals: &[usize]) -> Option<String> {
    if let Some(e) = index_law_ix::<u8>(vals, 1) {
        return Some(format!("u8: {}", e));
    }
    if let Some(e) = index_law_ix::<u16>(vals, 2) {
        return Some(format!("u16: {}", e));
    }
    if let Some(e) = index_law_ix::<u32>(vals, 4) {
        return Some(format!("u32: {}", e));
    }
    if let Some(e) = index_law_ix::<usize>(vals, 8) {
        return Some(format!("usize: {}", e));
    }
    for (d, name, tag) in [(Direction::Outgoing, "Outgoing", 0u32), (Direction::Incoming, "Incoming", 1u32)] {
        if serde_json::to_string(&d).ok() != Some(format!("\"{}\"", name)) {
            return Some(format!("Direction::{} does not serialize as its name", name));
        }
        if serde_json::from_str::<Direction>(&format!("\"{}\"", name)).ok() != Some(d) {
            return Some(format!("\"{}\" does not deserialize as the Direction", name));
        }
        if bopts().serialize(&d).ok() != Some(tag.to_le_bytes().to_vec()) || bopts().deserialize::<Direction>(&tag.to_le_bytes()).ok() != Some(d) {
            return Some(format!("Direction::{} is not variant {} in bincode", name, tag));
        }
    }
    if catch(|| serde_json::from_str::<Direction>("\"Sideways\"").is_ok()) != Some(false) || catch(|| bopts().deserialize::<Direction>(&2u32.to_le_bytes()).is_ok()) != Some(false) {
        return Some("an unknown Direction is not refused".into());
    }
    None
}
