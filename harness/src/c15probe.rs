//! C15STAT — measurement only (NOT part of ./check): an instrumented scratch copy of
//! `petgraph::algo::maximum_matching` (src/algo/matching.rs, Gabow) on plain indices, fed with the
//! adjacency rows of the real `Graph` encoding, that counts searches / augmentations / blossoms
//! and can optionally run with the seeded change "the dummy's label is not reset between searches"
//! (`stale_dummy = true`).  Used to measure what the C15 matching generator reaches:
//!
//!   pgharness C15STAT --seed S --cases N [--tier t]      one `stat …` line per matching case
//!
//! Environment: `C15STAT_FAMILY=<name>` restricts to one generator family of c15.rs.
use crate::c15::{gen_matching_case, MatchingCase};
use crate::common::*;
use crate::graphs::*;
use crate::rng::Rng;
use petgraph::visit::{EdgeRef, IntoEdgeReferences};
use petgraph::Undirected;
use std::collections::VecDeque;

#[derive(Clone, Copy, PartialEq, Debug)]
enum Label {
    None,
    Start,
    Vertex(usize),
    Edge(usize, [usize; 2]),
    Flag(usize),
}

impl Label {
    fn is_outer(&self) -> bool {
        !matches!(self, Label::None | Label::Flag(_))
    }
    fn is_inner(&self) -> bool {
        !self.is_outer()
    }
    fn to_vertex(&self) -> Option<usize> {
        match *self {
            Label::Vertex(v) => Some(v),
            _ => None,
        }
    }
    fn is_flagged(&self, e: usize) -> bool {
        matches!(self, Label::Flag(f) if *f == e)
    }
}

#[derive(Default, Clone, Debug)]
pub struct Stats {
    pub greedy: usize,
    /// Gabow searches = free start vertices after the greedy phase
    pub searches: usize,
    pub augments: usize,
    /// find_join calls that found two different first-inner vertices (a blossom is labelled)
    pub blossoms: usize,
    /// … of which the join is the dummy (the blossom contains the search root)
    pub root_blossoms: usize,
    /// blossoms labelled in a search that follows a search with a root blossom on the same edge
    pub repeat_edge_blossoms: usize,
    /// augmentations whose path runs through a blossom (augment_path expands an Edge label)
    pub blossom_augments: usize,
}

/// adjacency rows: `adj[v]` = (other endpoint, edge id, is_loop) in the order of `graph.edges(v)`
pub fn gabow(adj: &[Vec<(usize, usize)>], stale_dummy: bool) -> (Vec<Option<usize>>, usize, Stats) {
    let nb = adj.len();
    let dummy = nb;
    let mut st = Stats::default();
    // greedy_matching_inner
    let mut mate: Vec<Option<usize>> = vec![None; nb];
    let mut n_edges = 0;
    let mut visited = vec![false; nb];
    for start in 0..nb {
        let mut last = Some(start);
        let mut cur = start;
        loop {
            if visited[cur] {
                break;
            }
            visited[cur] = true;
            let mut moved = false;
            for &(t, _) in &adj[cur] {
                if !visited[t] {
                    if let Some(p) = last.take() {
                        mate[p] = Some(t);
                        mate[t] = Some(p);
                        n_edges += 1;
                    } else {
                        last = Some(t);
                    }
                    cur = t;
                    moved = true;
                    break;
                }
            }
            if !moved {
                break;
            }
        }
    }
    st.greedy = n_edges;
    mate.push(None);
    let len = nb + 1;
    let mut label = vec![Label::None; len];
    let mut first_inner = vec![usize::MAX; len];
    let mut root_edges: Vec<usize> = Vec::new();
    for start in 0..nb {
        if mate[start].is_some() {
            continue;
        }
        st.searches += 1;
        label[start] = Label::Start;
        first_inner[start] = dummy;
        let mut visited = vec![false; nb];
        let mut queue = VecDeque::new();
        queue.push_back(start);
        visited[start] = true;
        let mut this_root_edges: Vec<usize> = Vec::new();
        'search: while let Some(outer) = queue.pop_front() {
            for &(other, eid) in &adj[outer] {
                if other == outer {
                    continue;
                }
                if mate[other].is_none() && other != start {
                    mate[other] = Some(outer);
                    let mut used_edge = false;
                    augment(dummy, outer, other, &mut mate, &label, &mut used_edge);
                    n_edges += 1;
                    st.augments += 1;
                    st.blossom_augments += used_edge as usize;
                    break 'search;
                } else if label[other].is_outer() {
                    let j = find_join(dummy, outer, other, eid, &mate, &mut label, &mut first_inner, &mut |v| {
                        if !visited[v] {
                            visited[v] = true;
                            queue.push_back(v);
                        }
                    });
                    if let Some(j) = j {
                        st.blossoms += 1;
                        if j == dummy {
                            st.root_blossoms += 1;
                            this_root_edges.push(eid);
                        }
                        if root_edges.contains(&eid) {
                            st.repeat_edge_blossoms += 1;
                        }
                    }
                } else {
                    let mv = mate[other];
                    let mi = mv.unwrap_or(dummy);
                    if label[mi].is_inner() {
                        label[mi] = Label::Vertex(outer);
                        first_inner[mi] = other;
                    }
                    if let Some(mv) = mv {
                        if !visited[mv] {
                            visited[mv] = true;
                            queue.push_back(mv);
                        }
                    }
                }
            }
        }
        root_edges.extend(this_root_edges);
        let upto = if stale_dummy { nb } else { len };
        for l in label.iter_mut().take(upto) {
            *l = Label::None;
        }
    }
    mate.pop();
    (mate, n_edges, st)
}

fn find_join(
    dummy: usize,
    src: usize,
    tgt: usize,
    eid: usize,
    mate: &[Option<usize>],
    label: &mut [Label],
    first_inner: &mut [usize],
    visitor: &mut dyn FnMut(usize),
) -> Option<usize> {
    let mut left = first_inner[src];
    let mut right = first_inner[tgt];
    if left == right {
        return None;
    }
    let flag = Label::Flag(eid);
    label[left] = flag;
    label[right] = flag;
    let join = loop {
        if right != dummy {
            core::mem::swap(&mut left, &mut right);
        }
        let left_mate = mate[left].unwrap();
        let next_inner = label[left_mate].to_vertex().unwrap();
        left = first_inner[next_inner];
        if !label[left].is_flagged(eid) {
            label[left] = flag;
        } else {
            break left;
        }
    };
    for endpoint in [src, tgt] {
        let mut inner = first_inner[endpoint];
        while inner != join {
            if inner != dummy {
                visitor(inner);
            }
            label[inner] = Label::Edge(eid, [src, tgt]);
            first_inner[inner] = join;
            let inner_mate = mate[inner].unwrap();
            let next_inner = label[inner_mate].to_vertex().unwrap();
            inner = first_inner[next_inner];
        }
    }
    for v in 0..label.len() {
        if v != dummy && label[v].is_outer() && label[first_inner[v]].is_outer() {
            first_inner[v] = join;
        }
    }
    Some(join)
}

fn augment(dummy: usize, outer: usize, other: usize, mate: &mut [Option<usize>], label: &[Label], used_edge: &mut bool) {
    let temp = mate[outer];
    let ti = temp.unwrap_or(dummy);
    mate[outer] = Some(other);
    if mate[ti] != Some(outer) {
    } else if let Label::Vertex(v) = label[outer] {
        mate[ti] = Some(v);
        if let Some(t) = temp {
            augment(dummy, v, t, mate, label, used_edge);
        }
    } else if let Label::Edge(_, [s, t]) = label[outer] {
        *used_edge = true;
        augment(dummy, s, t, mate, label, used_edge);
        augment(dummy, t, s, mate, label, used_edge);
    } else {
        panic!("Unexpected label when augmenting path");
    }
}

fn valid(adj: &[Vec<(usize, usize)>], mate: &[Option<usize>]) -> bool {
    for (v, m) in mate.iter().enumerate() {
        if let Some(w) = *m {
            if w == v || w >= mate.len() || mate[w] != Some(v) || !adj[v].iter().any(|&(t, _)| t == w) {
                return false;
            }
        }
    }
    true
}

pub fn run(ctx: &mut Ctx, case: u64) {
    let mut rng = Rng::for_case(ctx.seed, "C15", case);
    let mc: MatchingCase = if let Ok(spec) = std::env::var("C15STAT_GEN") {
        // experiments: "sparse <n> <m> <simple 0|1>"
        let w: Vec<&str> = spec.split_whitespace().collect();
        let num = |i: usize| w[i].parse::<usize>().unwrap();
        match w[0] {
            "sparse" => {
                let (n, m, simple) = (num(1), num(2), num(3) == 1);
                let mut edges: Vec<(usize, usize, i64)> = Vec::new();
                while edges.len() < m {
                    let (a, b) = (rng.below(n), rng.below(n));
                    if a == b || (simple && edges.iter().any(|&(x, y, _)| (x == a && y == b) || (x == b && y == a))) {
                        continue;
                    }
                    edges.push((a, b, 1));
                }
                MatchingCase { ag: AG { directed: false, n, edges }, family: "x-sparse", directed: false }
            }
            _ => panic!("bad C15STAT_GEN"),
        }
    } else {
        match gen_matching_case(ctx.tier_thorough, &mut rng, case) {
            Some(mc) => mc,
            None => return,
        }
    };
    if let Ok(f) = std::env::var("C15STAT_FAMILY") {
        if f != mc.family {
            return;
        }
    }
    // the probe always looks at the undirected Graph<u32> encoding of the case's abstract graph
    let ag = AG { directed: false, n: mc.ag.n, edges: mc.ag.edges.clone() };
    let node_order = random_perm(&mut rng, ag.n);
    let edge_order = random_perm(&mut rng, ag.edges.len());
    let e = enc_graph::<Undirected, u32>(&ag, &node_order, &edge_order);
    let g = &e.g;
    let adj: Vec<Vec<(usize, usize)>> = g.node_indices().map(|v| g.edges(v).map(|er| (er.target().index(), er.id().index())).collect()).collect();
    // cross-check of the scratch copy against the real implementation
    let real = petgraph::algo::maximum_matching(g);
    let real_mate: Vec<Option<usize>> = g.node_indices().map(|v| real.mate(v).map(|w| w.index())).collect();
    let (m0, k0, st) = gabow(&adj, false);
    let same = m0 == real_mate && k0 == real.len();
    let r1 = catch(|| gabow(&adj, true));
    let (differs, invalid, smaller) = match &r1 {
        None => (true, true, false),
        Some((m1, k1, _)) => (*m1 != m0, !valid(&adj, m1), *k1 != k0 || m1.iter().filter(|x| x.is_some()).count() != 2 * k0),
    };
    if invalid && std::env::var("C15STAT_DUMP").is_ok() {
        let es: Vec<String> = g.edge_references().map(|er| format!("{}-{}", er.source().index(), er.target().index())).collect();
        ctx.raw(&format!("dump case={} n={} edges={} good={:?} stale={:?}", case, ag.n, es.join(","), m0, r1.as_ref().map(|r| r.0.clone())));
    }
    ctx.raw(&format!(
        "stat case={} fam={} n={} m={} greedy={} searches={} augments={} blossoms={} rootblossoms={} repeatedge={} blossomaugs={} final={} copy_agrees={} stale_differs={} stale_invalid={} stale_size={}",
        case, mc.family, ag.n, ag.edges.len(), st.greedy, st.searches, st.augments, st.blossoms, st.root_blossoms, st.repeat_edge_blossoms, st.blossom_augments, k0,
        same as u8, differs as u8, invalid as u8, smaller as u8
    ));
}
