//! Iterator laws — a harness-side oracle shared by all verticals.
//!
//! Every iterator petgraph hands out "describes a sequence of elements"; the properties speak about that
//! sequence (collected by `next`). The `Iterator` / `DoubleEndedIterator` / `ExactSizeIterator` contracts then
//! fix what every other way of consuming the iterator must give: `size_hint` brackets the remaining length,
//! `count`/`last`/`nth`/`skip`/`step_by`/`fold` agree with the collected sequence, `rev`/`next_back`/`nth_back`
//! walk the same sequence from the other end and meet in the middle, `len` is the remaining length. An
//! override that breaks one of these (`nth` that forgets to advance a counter, `nth_back` that consumes the
//! front, a `size_hint` whose lower bound counts removed slots) makes the iterator describe *different* sets
//! depending on how it is read — a violation of the property that owns the iterator, although a plain
//! `collect()` never sees it.
//!
//! The functions return `None` when all laws hold and `Some(description)` otherwise; the caller prints
//! `iterlaw <name> => ok` / `iterlaw <name> => VIOLATED <description>` and the driver expects `ok`.
use std::fmt::Debug;

fn positions(len: usize) -> Vec<usize> {
    let mut v = vec![0, 1, 2, len / 2, len.saturating_sub(1), len, len + 1];
    v.sort();
    v.dedup();
    v
}

/// laws of `Iterator` (the iterator must be `Clone` so that it can be consumed in several ways)
pub fn iter_laws<I>(it: I) -> Option<String>
where
    I: Iterator + Clone,
    I::Item: PartialEq + Debug,
{
    let v: Vec<I::Item> = it.clone().collect();
    let n = v.len();
    let (lo, hi) = it.size_hint();
    if lo > n {
        return Some(format!("size_hint lower bound {} but {} items are yielded", lo, n));
    }
    if let Some(h) = hi {
        if h < n {
            return Some(format!("size_hint upper bound {} but {} items are yielded", h, n));
        }
    }
    let c = it.clone().count();
    if c != n {
        return Some(format!("count() = {} but {} items are yielded", c, n));
    }
    if it.clone().last() != it.clone().collect::<Vec<_>>().pop() {
        return Some("last() is not the last item yielded".to_string());
    }
    for k in positions(n) {
        // nth(k) and what remains after it
        let mut a = it.clone();
        let got = a.nth(k);
        let mut b = it.clone();
        let mut want = None;
        for _ in 0..=k {
            want = b.next();
            if want.is_none() {
                break;
            }
        }
        if got != want {
            return Some(format!("nth({}) = {:?}, stepping with next gives {:?}", k, got, want));
        }
        let ra: Vec<I::Item> = a.collect();
        let rb: Vec<I::Item> = b.collect();
        if ra != rb {
            return Some(format!("after nth({}) the remaining items are {:?}, after {} x next they are {:?}", k, ra, k + 1, rb));
        }
        // size_hint in the middle of the iteration
        let mut m = it.clone();
        for _ in 0..k.min(n) {
            m.next();
        }
        let rest = n - k.min(n);
        let (lo, hi) = m.size_hint();
        if lo > rest || hi.map_or(false, |h| h < rest) {
            return Some(format!("after {} items size_hint = ({}, {:?}) but {} items remain", k.min(n), lo, hi, rest));
        }
        let s: Vec<I::Item> = it.clone().skip(k).collect();
        if s.len() != rest {
            return Some(format!("skip({}) yields {} items, expected {}", k, s.len(), rest));
        }
    }
    for step in [2usize, 3] {
        let s: Vec<I::Item> = it.clone().step_by(step).collect();
        let w: Vec<I::Item> = it.clone().enumerate().filter(|(i, _)| i % step == 0).map(|(_, x)| x).collect();
        if s != w {
            return Some(format!("step_by({}) yields {:?}, every {}th item is {:?}", step, s, step, w));
        }
    }
    let f = it.clone().fold(0usize, |acc, _| acc + 1);
    if f != n {
        return Some(format!("fold visits {} items, next visits {}", f, n));
    }
    // a fused-like end: after None the iterator keeps answering None (all petgraph iterators are finite walks)
    let mut e = it.clone();
    for _ in 0..n {
        e.next();
    }
    if e.next().is_some() || e.next().is_some() {
        return Some("an item is yielded after the sequence ended".to_string());
    }
    None
}

/// laws of `DoubleEndedIterator` on top of `iter_laws`
pub fn iter_laws_de<I>(it: I) -> Option<String>
where
    I: DoubleEndedIterator + Clone,
    I::Item: PartialEq + Debug,
{
    if let Some(e) = iter_laws(it.clone()) {
        return Some(e);
    }
    let v: Vec<I::Item> = it.clone().collect();
    let n = v.len();
    let mut r: Vec<I::Item> = it.clone().rev().collect();
    r.reverse();
    if r != v {
        return Some(format!("rev() yields (reversed back) {:?}, forward iteration yields {:?}", r, v));
    }
    for k in positions(n) {
        let mut a = it.clone();
        let got = a.nth_back(k);
        let mut b = it.clone();
        let mut want = None;
        for _ in 0..=k {
            want = b.next_back();
            if want.is_none() {
                break;
            }
        }
        if got != want {
            return Some(format!("nth_back({}) = {:?}, stepping with next_back gives {:?}", k, got, want));
        }
        let ra: Vec<I::Item> = a.collect();
        let rb: Vec<I::Item> = b.collect();
        if ra != rb {
            return Some(format!("after nth_back({}) the remaining items are {:?}, after {} x next_back they are {:?}", k, ra, k + 1, rb));
        }
        // take k from the front, then everything from the back: together exactly the sequence
        let mut m = it.clone();
        let mut front: Vec<I::Item> = Vec::new();
        for _ in 0..k.min(n) {
            if let Some(x) = m.next() {
                front.push(x);
            }
        }
        let mut back: Vec<I::Item> = Vec::new();
        while let Some(x) = m.next_back() {
            back.push(x);
        }
        back.reverse();
        front.extend(back);
        if front != v {
            return Some(format!("{} x next then next_back to the end yields {:?}, the sequence is {:?}", k.min(n), front, v));
        }
    }
    let rf = it.clone().rfold(0usize, |acc, _| acc + 1);
    if rf != n {
        return Some(format!("rfold visits {} items, next visits {}", rf, n));
    }
    None
}

/// `ExactSizeIterator::len` is the number of remaining items, at every point of the iteration
pub fn iter_laws_exact<I>(it: I) -> Option<String>
where
    I: ExactSizeIterator + Clone,
    I::Item: PartialEq + Debug,
{
    if let Some(e) = iter_laws(it.clone()) {
        return Some(e);
    }
    let n = it.clone().count();
    let mut m = it.clone();
    for k in 0..=n {
        if m.len() != n - k {
            return Some(format!("len() = {} after {} of {} items", m.len(), k, n));
        }
        let (lo, hi) = m.size_hint();
        if lo != n - k || hi != Some(n - k) {
            return Some(format!("size_hint = ({}, {:?}) after {} of {} items of an ExactSizeIterator", lo, hi, k, n));
        }
        m.next();
    }
    None
}

/// verdict text for the protocol line
pub fn law_verdict(r: Option<String>) -> String {
    match r {
        None => "ok".to_string(),
        Some(e) => format!("VIOLATED {}", e.replace('\n', " ")),
    }
}
