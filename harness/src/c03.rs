//! C03 — `GraphMap` histories: every public call over node values `0..K` (K <= 7, so that collisions,
//! reciprocal edges, self-loops and remove-then-re-add are dense), `Directed` and `Undirected`, each
//! history executed under three hashers (`RandomState`, `fxhash`, `ahash`) with identical observations
//! required.  After every mutating call a `dump` (full observation through the public API).
use crate::common::*;
use crate::rng::Rng;
use petgraph::data::{Build, Create, Element, FromElements};
use petgraph::graph::Graph;
use petgraph::graphmap::GraphMap;
use petgraph::visit::{
    EdgeIndexable, EdgeRef, GetAdjacencyMatrix, IntoEdgeReferences, IntoNodeIdentifiers,
    IntoNodeReferences, NodeIndexable, NodeRef,
};
use petgraph::{Directed, Direction, EdgeType, Undirected};
use std::collections::{BTreeMap, BTreeSet};
use std::hash::BuildHasher;

type Tri = (u32, u32, u32);

#[derive(Clone, Debug)]
enum Op {
    Init(u8, usize, usize),
    AddNode(u32),
    AddEdge(u32, u32, u32),
    RemoveNode(u32),
    RemoveEdge(u32, u32),
    SetWeight(u32, u32, u32),
    IndexSet(u32, u32, u32),
    BumpAll(u32),
    Clear,
    Extend(Vec<Tri>),
    BuildAddEdge(u32, u32, u32),
    BuildUpdateEdge(u32, u32, u32),
    RoundTrip,
    FromGraph(Vec<u32>, Vec<(usize, usize, u32)>),
    FromEdges(Vec<Tri>),
    FromElements(Vec<u32>, Vec<(usize, usize, u32)>),
    BumpRev(u32),
    CloneSelf,
    ContainsNode(u32),
    ContainsEdge(u32, u32),
    IsAdjacent(u32, u32),
    EdgeWeight(u32, u32),
    Index(u32, u32),
    Neighbors(u32),
    NeighborsDirected(u32, bool),
    Edges(u32),
    EdgesDirected(u32, bool),
    Nodes,
    AllEdges,
    NodeCount,
    EdgeCount,
    ToIndex(u32),
    FromIndex(usize),
    EdgeToIndex(u32, u32),
    EdgeFromIndex(usize),
    IntoGraph,
    Dump,
}

fn tri(l: &[Tri]) -> String {
    list(l.iter().map(|(a, b, w)| format!("{}:{}:{}", a, b, w)))
}

fn dirname(out: bool) -> &'static str {
    if out {
        "out"
    } else {
        "in"
    }
}

fn direction(out: bool) -> Direction {
    if out {
        Direction::Outgoing
    } else {
        Direction::Incoming
    }
}

/// abstract shadow used only to *direct* the generator (which edges/nodes exist right now)
struct Shadow {
    directed: bool,
    nodes: BTreeSet<u32>,
    edges: BTreeMap<(u32, u32), ()>,
}

impl Shadow {
    fn key(&self, a: u32, b: u32) -> (u32, u32) {
        if self.directed || a <= b {
            (a, b)
        } else {
            (b, a)
        }
    }
    fn add_edge(&mut self, a: u32, b: u32) {
        self.nodes.insert(a);
        self.nodes.insert(b);
        let k = self.key(a, b);
        self.edges.insert(k, ());
    }
    fn remove_node(&mut self, n: u32) {
        self.nodes.remove(&n);
        self.edges.retain(|k, _| k.0 != n && k.1 != n);
    }
    fn clear(&mut self) {
        self.nodes.clear();
        self.edges.clear();
    }
}

fn gen_history(rng: &mut Rng, directed: bool, k: u32, thorough: bool) -> Vec<Op> {
    let mut sh = Shadow { directed, nodes: BTreeSet::new(), edges: BTreeMap::new() };
    let mut ops: Vec<Op> = Vec::new();
    ops.push(Op::Init(rng.below(5) as u8, rng.below(9), rng.below(9)));
    let node = |rng: &mut Rng| rng.below(k as usize) as u32;
    let wt = |rng: &mut Rng| {
        let hi = if rng.chance(50) { 3 } else { 90 };
        rng.below(hi) as u32
    };
    let edge_list = |rng: &mut Rng, n: usize| -> Vec<Tri> {
        (0..n)
            .map(|_| {
                let a = rng.below(k as usize) as u32;
                let b = if rng.chance(15) { a } else { rng.below(k as usize) as u32 };
                (a, b, rng.below(90) as u32)
            })
            .collect()
    };
    let graph_input = |rng: &mut Rng| -> (Vec<u32>, Vec<(usize, usize, u32)>) {
        // a `Graph` whose node weights may repeat and that may carry parallel edges (from_graph
        // documents: merged / last one wins); half of the time a clean one
        let clean = rng.chance(50);
        let n = rng.below(k as usize + 3);
        let mut ws: Vec<u32> = (0..n).map(|_| rng.below(k as usize) as u32).collect();
        if clean {
            let mut all: Vec<u32> = (0..k).collect();
            rng.shuffle(&mut all);
            ws = all.into_iter().take(n.min(k as usize)).collect();
        }
        let mut es = Vec::new();
        if !ws.is_empty() {
            for _ in 0..rng.below(2 * ws.len() + 2) {
                let i = rng.below(ws.len());
                let j = if rng.chance(15) { i } else { rng.below(ws.len()) };
                es.push((i, j, rng.below(90) as u32));
            }
        }
        (ws, es)
    };
    // optional constructor-from-data right at the start
    match rng.below(10) {
        0 | 1 => {
            let cnt = rng.below(14);
            let es = edge_list(rng, cnt);
            for e in &es {
                sh.add_edge(e.0, e.1);
            }
            ops.push(Op::FromEdges(es));
            ops.push(Op::Dump);
        }
        2 => {
            let (ws, es) = graph_input(rng);
            sh.clear();
            for w in &ws {
                sh.nodes.insert(*w);
            }
            for e in &es {
                sh.add_edge(ws[e.0], ws[e.1]);
            }
            ops.push(Op::FromGraph(ws, es));
            ops.push(Op::Dump);
        }
        _ => {}
    }
    let nops = 8 + rng.below(if thorough { 220 } else { 110 });
    // phases: grow, churn, shrink (the weights of the mutating ops change)
    for i in 0..nops {
        let phase = (3 * i) / nops;
        // an edge argument: an existing edge (either orientation when undirected, sometimes the
        // reverse when directed), else a random pair, 15 % self-loops
        let pair = |rng: &mut Rng, sh: &Shadow| -> (u32, u32) {
            if !sh.edges.is_empty() && rng.chance(55) {
                let idx = rng.below(sh.edges.len());
                let (a, b) = *sh.edges.keys().nth(idx).unwrap();
                if rng.chance(if sh.directed { 20 } else { 50 }) {
                    (b, a)
                } else {
                    (a, b)
                }
            } else {
                let a = rng.below(k as usize) as u32;
                let b = if rng.chance(15) { a } else { rng.below(k as usize) as u32 };
                (a, b)
            }
        };
        let (w_add_edge, w_rm_edge, w_rm_node, w_add_node) = match phase {
            0 => (30, 5, 3, 6),
            1 => (18, 14, 8, 4),
            _ => (8, 18, 12, 3),
        };
        let choice = rng.weighted(&[
            w_add_node, w_add_edge, w_rm_node, w_rm_edge, 4, 3, 2, 1, 3, 3, 3, 2, 1, 1, 1, // mutating (0..=14)
            22, // queries (15)
        ]);
        let mut mutating = true;
        match choice {
            0 => {
                let n = node(rng);
                sh.nodes.insert(n);
                ops.push(Op::AddNode(n));
            }
            1 => {
                let (a, b) = pair(rng, &sh);
                sh.add_edge(a, b);
                ops.push(Op::AddEdge(a, b, wt(rng)));
            }
            2 => {
                let n = node(rng);
                sh.remove_node(n);
                ops.push(Op::RemoveNode(n));
            }
            3 => {
                let (a, b) = pair(rng, &sh);
                let key = sh.key(a, b);
                sh.edges.remove(&key);
                ops.push(Op::RemoveEdge(a, b));
            }
            4 => {
                let (a, b) = pair(rng, &sh);
                ops.push(Op::SetWeight(a, b, wt(rng)));
            }
            5 => {
                let (a, b) = pair(rng, &sh);
                ops.push(Op::IndexSet(a, b, wt(rng)));
            }
            6 => {
                let x = 1 + rng.below(3) as u32;
                ops.push(if rng.chance(35) { Op::BumpRev(x) } else { Op::BumpAll(x) });
            }
            7 => {
                if rng.chance(40) {
                    sh.clear();
                    ops.push(Op::Clear);
                } else {
                    ops.push(Op::CloneSelf);
                }
            }
            8 => {
                let cnt = rng.below(6);
                let es = edge_list(rng, cnt);
                for e in &es {
                    sh.add_edge(e.0, e.1);
                }
                ops.push(Op::Extend(es));
            }
            9 => {
                let (a, b) = pair(rng, &sh);
                sh.add_edge(a, b);
                ops.push(Op::BuildAddEdge(a, b, wt(rng)));
            }
            10 => {
                let (a, b) = pair(rng, &sh);
                sh.add_edge(a, b);
                ops.push(Op::BuildUpdateEdge(a, b, wt(rng)));
            }
            11 => ops.push(Op::RoundTrip),
            12 => ops.push(Op::CloneSelf),
            13 => {
                let (ws, es) = graph_input(rng);
                sh.clear();
                for w in &ws {
                    sh.nodes.insert(*w);
                }
                for e in &es {
                    sh.add_edge(ws[e.0], ws[e.1]);
                }
                if rng.chance(35) {
                    // FromElements needs distinct node weights (it addresses nodes by position)
                    let mut seen = std::collections::BTreeSet::new();
                    if ws.iter().all(|w| seen.insert(*w)) {
                        ops.push(Op::FromElements(ws, es));
                    } else {
                        ops.push(Op::FromGraph(ws, es));
                    }
                } else {
                    ops.push(Op::FromGraph(ws, es));
                }
            }
            14 => {
                let cnt = rng.below(10);
                let es = edge_list(rng, cnt);
                sh.clear();
                for e in &es {
                    sh.add_edge(e.0, e.1);
                }
                ops.push(Op::FromEdges(es));
            }
            _ => {
                mutating = false;
                let (a, b) = pair(rng, &sh);
                let n = node(rng);
                let out = rng.chance(50);
                let q = match rng.below(20) {
                    0 => Op::ContainsNode(n),
                    1 => Op::ContainsEdge(a, b),
                    2 => Op::IsAdjacent(a, b),
                    3 => Op::EdgeWeight(a, b),
                    4 => Op::Index(a, b),
                    5 => Op::Neighbors(n),
                    6 => Op::NeighborsDirected(n, out),
                    7 => Op::Edges(n),
                    8 => Op::EdgesDirected(n, out),
                    9 => Op::Nodes,
                    10 => Op::AllEdges,
                    11 => Op::NodeCount,
                    12 => Op::EdgeCount,
                    13 => Op::ToIndex(n),
                    14 => Op::FromIndex(rng.below(sh.nodes.len() + 2)),
                    15 => Op::EdgeToIndex(a, b),
                    16 => Op::EdgeFromIndex(rng.below(sh.edges.len() + 2)),
                    17 => Op::IntoGraph,
                    18 => Op::EdgesDirected(a, out),
                    _ => Op::NeighborsDirected(a, out),
                };
                ops.push(q);
            }
        }
        if mutating {
            ops.push(Op::Dump);
            if rng.chance(30) {
                ops.push(Op::IntoGraph);
            }
        }
    }
    ops.push(Op::Dump);
    ops.push(Op::IntoGraph);
    ops
}

fn or_panic(x: Option<String>) -> String {
    x.unwrap_or_else(|| "panic".into())
}

fn dump<Ty: EdgeType, S: BuildHasher>(g: &GraphMap<u32, u32, Ty, S>, k: u32) -> String {
    let mut out = String::new();
    let nodes: Vec<u32> = g.nodes().collect();
    let edges: Vec<Tri> = g.all_edges().map(|(a, b, w)| (a, b, *w)).collect();
    let nc = g.node_count();
    let ec = g.edge_count();
    out += &format!("nc={} ec={} nb={} eb={}", nc, ec, g.node_bound(), g.edge_bound());
    out += &format!(" nodes={}", list(nodes.iter()));
    out += &format!(" ids={}", list(g.node_identifiers()));
    out += &format!(
        " refs={}",
        list(g.node_references().map(|r| if r.id() == *r.weight() { r.id().to_string() } else { "idweight".into() }))
    );
    out += &format!(" edges={}", tri(&edges));
    out += &format!(
        " erefs={}",
        list(g.edge_references().map(|e| {
            if e.id() == (e.source(), e.target()) {
                format!("{}:{}:{}", e.source(), e.target(), e.weight())
            } else {
                "idmismatch".into()
            }
        }))
    );
    out += &format!(
        " ni={}",
        list(nodes.iter().map(|n| or_panic(catch(|| NodeIndexable::to_index(g, *n).to_string()))))
    );
    out += &format!(
        " nf={}",
        list((0..nc).map(|i| or_panic(catch(|| NodeIndexable::from_index(g, i).to_string()))))
    );
    out += &format!(
        " ei={}",
        list(edges.iter().map(|e| or_panic(catch(|| EdgeIndexable::to_index(g, (e.0, e.1)).to_string()))))
    );
    out += &format!(
        " ef={}",
        list((0..ec).map(|i| {
            or_panic(catch(|| {
                let (a, b) = EdgeIndexable::from_index(g, i);
                format!("{}:{}", a, b)
            }))
        }))
    );
    // the iterators' own `rev`/`len`/`count`/`last`/`nth` implementations
    out += &format!(" dir={}", if g.is_directed() { 1 } else { 0 });
    out += &format!(" rnodes={}", list(g.nodes().rev()));
    out += &format!(" nlen={}", g.nodes().len());
    out += &format!(" redges={}", list(g.all_edges().rev().map(|(a, b, w)| format!("{}:{}:{}", a, b, w))));
    out += &format!(" ecnt={}", g.all_edges().count());
    let t3 = |x: Option<(u32, u32, &u32)>| match x {
        Some((a, b, w)) => format!("{}:{}:{}", a, b, w),
        None => "none".to_string(),
    };
    out += &format!(" elast={}", t3(g.all_edges().last()));
    out += &format!(" enth={}", t3(g.all_edges().nth(ec / 2)));
    for v in 0..k {
        out += &format!(" | {} c={}", v, if g.contains_node(v) { 1 } else { 0 });
        out += &format!(" N={}", or_panic(catch(|| list(g.neighbors(v)))));
        out += &format!(" NO={}", or_panic(catch(|| list(g.neighbors_directed(v, Direction::Outgoing)))));
        out += &format!(" NI={}", or_panic(catch(|| list(g.neighbors_directed(v, Direction::Incoming)))));
        let e3 = |it: &mut dyn Iterator<Item = (u32, u32, &u32)>| -> String {
            list(it.map(|(a, b, w)| format!("{}:{}:{}", a, b, w)))
        };
        out += &format!(" E={}", or_panic(catch(|| e3(&mut g.edges(v)))));
        out += &format!(" EO={}", or_panic(catch(|| e3(&mut g.edges_directed(v, Direction::Outgoing)))));
        out += &format!(" EI={}", or_panic(catch(|| e3(&mut g.edges_directed(v, Direction::Incoming)))));
        out += &format!(
            " W={}",
            list((0..k).map(|b| match g.edge_weight(v, b) {
                Some(w) => w.to_string(),
                None => "x".into(),
            }))
        );
        out += " A=";
        for b in 0..k {
            out += if g.contains_edge(v, b) { "1" } else { "0" };
        }
    }
    out
}

fn into_graph_str<Ty: EdgeType + Clone, S: BuildHasher + Clone>(g: &GraphMap<u32, u32, Ty, S>) -> String {
    or_panic(catch(|| {
        let gr: Graph<u32, u32, Ty, u32> = g.clone().into_graph();
        let ws = list(gr.node_weights());
        let es = list(gr.edge_indices().map(|e| {
            let (a, b) = gr.edge_endpoints(e).unwrap();
            format!("{}:{}:{}", a.index(), b.index(), gr[e])
        }));
        format!("ws={} es={}", ws, es)
    }))
}

fn build_graph<Ty: EdgeType>(ws: &[u32], es: &[(usize, usize, u32)]) -> Graph<u32, u32, Ty, u32> {
    let mut gr: Graph<u32, u32, Ty, u32> = Graph::with_capacity(0, 0);
    let ix: Vec<_> = ws.iter().map(|w| gr.add_node(*w)).collect();
    for (i, j, w) in es {
        gr.add_edge(ix[*i], ix[*j], *w);
    }
    gr
}

fn opt_u(x: Option<u32>) -> String {
    match x {
        Some(v) => format!("some {}", v),
        None => "none".into(),
    }
}

/// execute one history on the real `GraphMap`; returns the protocol lines (request, answer)
fn exec<Ty: EdgeType + Clone, S: BuildHasher + Default + Clone>(ops: &[Op], k: u32) -> Vec<(String, String)> {
    let mut g: GraphMap<u32, u32, Ty, S> = GraphMap::new();
    let mut lines: Vec<(String, String)> = Vec::new();
    for op in ops {
        let (req, ans): (String, String) = match op {
            Op::Init(kind, n, e) => {
                g = match kind {
                    0 => GraphMap::new(),
                    1 => GraphMap::default(),
                    2 => GraphMap::with_capacity(*n, *e),
                    3 => <GraphMap<u32, u32, Ty, S> as Create>::with_capacity(*n, *e),
                    _ => GraphMap::with_capacity_and_hasher(*n, *e, S::default()),
                };
                (format!("init {} {} {}", kind, n, e), "ok".into())
            }
            Op::AddNode(n) => (format!("add_node {}", n), g.add_node(*n).to_string()),
            Op::AddEdge(a, b, w) => (format!("add_edge {} {} {}", a, b, w), or_panic(catch(|| opt_u(g.add_edge(*a, *b, *w))))),
            Op::RemoveNode(n) => (format!("remove_node {}", n), or_panic(catch(|| g.remove_node(*n).to_string()))),
            Op::RemoveEdge(a, b) => (format!("remove_edge {} {}", a, b), or_panic(catch(|| opt_u(g.remove_edge(*a, *b))))),
            Op::SetWeight(a, b, w) => (
                format!("set_weight {} {} {}", a, b, w),
                opt_u(g.edge_weight_mut(*a, *b).map(|r| std::mem::replace(r, *w))),
            ),
            Op::IndexSet(a, b, w) => (
                format!("index_set {} {} {}", a, b, w),
                or_panic(catch(|| {
                    let r = &mut g[(*a, *b)];
                    std::mem::replace(r, *w).to_string()
                })),
            ),
            Op::BumpAll(x) => {
                let mut seen: Vec<Tri> = Vec::new();
                for (a, b, w) in g.all_edges_mut() {
                    seen.push((a, b, *w));
                    *w += *x;
                }
                (format!("bump_all {}", x), tri(&seen))
            }
            Op::BumpRev(x) => {
                let mut seen: Vec<Tri> = Vec::new();
                for (a, b, w) in g.all_edges_mut().rev() {
                    seen.push((a, b, *w));
                    *w += *x;
                }
                (format!("bump_rev {}", x), tri(&seen))
            }
            Op::FromElements(ws, es) => {
                let r = catch(|| {
                    let elems = ws
                        .iter()
                        .map(|w| Element::Node { weight: *w })
                        .chain(es.iter().map(|(i, j, w)| Element::Edge { source: *i, target: *j, weight: *w }));
                    GraphMap::<u32, u32, Ty, S>::from_elements(elems)
                });
                let ans = match r {
                    Some(h) => {
                        g = h;
                        "ok"
                    }
                    None => "panic",
                };
                (
                    format!("from_elements {} {}", list(ws.iter()), list(es.iter().map(|(i, j, w)| format!("{}:{}:{}", i, j, w)))),
                    ans.into(),
                )
            }
            Op::Clear => {
                g.clear();
                ("clear".into(), "ok".into())
            }
            Op::Extend(es) => {
                let r = catch(|| g.extend(es.iter().cloned()));
                (format!("extend {}", tri(es)), if r.is_some() { "ok".into() } else { "panic".into() })
            }
            Op::BuildAddEdge(a, b, w) => (
                format!("build_add_edge {} {} {}", a, b, w),
                or_panic(catch(|| match Build::add_edge(&mut g, *a, *b, *w) {
                    Some((x, y)) => format!("some {}:{}", x, y),
                    None => "none".into(),
                })),
            ),
            Op::BuildUpdateEdge(a, b, w) => (
                format!("build_update_edge {} {} {}", a, b, w),
                or_panic(catch(|| {
                    let (x, y) = Build::update_edge(&mut g, *a, *b, *w);
                    format!("{}:{}", x, y)
                })),
            ),
            Op::RoundTrip => {
                let r = catch(|| {
                    let gr: Graph<u32, u32, Ty, u32> = g.clone().into_graph();
                    GraphMap::<u32, u32, Ty, S>::from_graph(gr)
                });
                let ans = match r {
                    Some(h) => {
                        g = h;
                        "ok"
                    }
                    None => "panic",
                };
                ("round_trip".into(), ans.into())
            }
            Op::FromGraph(ws, es) => {
                let r = catch(|| GraphMap::<u32, u32, Ty, S>::from_graph(build_graph::<Ty>(ws, es)));
                let ans = match r {
                    Some(h) => {
                        g = h;
                        "ok"
                    }
                    None => "panic",
                };
                (
                    format!("from_graph {} {}", list(ws.iter()), list(es.iter().map(|(i, j, w)| format!("{}:{}:{}", i, j, w)))),
                    ans.into(),
                )
            }
            Op::FromEdges(es) => {
                let r = catch(|| GraphMap::<u32, u32, Ty, S>::from_edges(es.iter().cloned()));
                let ans = match r {
                    Some(h) => {
                        g = h;
                        "ok"
                    }
                    None => "panic",
                };
                (format!("from_edges {}", tri(es)), ans.into())
            }
            Op::CloneSelf => {
                g = g.clone();
                ("clone".into(), "ok".into())
            }
            Op::ContainsNode(n) => (format!("contains_node {}", n), g.contains_node(*n).to_string()),
            Op::ContainsEdge(a, b) => (format!("contains_edge {} {}", a, b), g.contains_edge(*a, *b).to_string()),
            Op::IsAdjacent(a, b) => {
                let m = g.adjacency_matrix();
                (format!("is_adjacent {} {}", a, b), g.is_adjacent(&m, *a, *b).to_string())
            }
            Op::EdgeWeight(a, b) => (format!("edge_weight {} {}", a, b), opt_u(g.edge_weight(*a, *b).copied())),
            Op::Index(a, b) => (format!("index {} {}", a, b), or_panic(catch(|| g[(*a, *b)].to_string()))),
            Op::Neighbors(n) => (format!("neighbors {}", n), or_panic(catch(|| list(g.neighbors(*n))))),
            Op::NeighborsDirected(n, o) => (
                format!("neighbors_directed {} {}", n, dirname(*o)),
                or_panic(catch(|| list(g.neighbors_directed(*n, direction(*o))))),
            ),
            Op::Edges(n) => (
                format!("edges {}", n),
                or_panic(catch(|| list(g.edges(*n).map(|(a, b, w)| format!("{}:{}:{}", a, b, w))))),
            ),
            Op::EdgesDirected(n, o) => (
                format!("edges_directed {} {}", n, dirname(*o)),
                or_panic(catch(|| list(g.edges_directed(*n, direction(*o)).map(|(a, b, w)| format!("{}:{}:{}", a, b, w))))),
            ),
            Op::Nodes => ("nodes".into(), list(g.nodes())),
            Op::AllEdges => ("all_edges".into(), list(g.all_edges().map(|(a, b, w)| format!("{}:{}:{}", a, b, w)))),
            Op::NodeCount => ("node_count".into(), g.node_count().to_string()),
            Op::EdgeCount => ("edge_count".into(), g.edge_count().to_string()),
            Op::ToIndex(n) => (format!("to_index {}", n), or_panic(catch(|| NodeIndexable::to_index(&g, *n).to_string()))),
            Op::FromIndex(i) => (format!("from_index {}", i), or_panic(catch(|| NodeIndexable::from_index(&g, *i).to_string()))),
            Op::EdgeToIndex(a, b) => (
                format!("edge_to_index {} {}", a, b),
                or_panic(catch(|| EdgeIndexable::to_index(&g, (*a, *b)).to_string())),
            ),
            Op::EdgeFromIndex(i) => (
                format!("edge_from_index {}", i),
                or_panic(catch(|| {
                    let (a, b) = EdgeIndexable::from_index(&g, *i);
                    format!("{}:{}", a, b)
                })),
            ),
            Op::IntoGraph => ("into_graph".into(), into_graph_str(&g)),
            Op::Dump => ("dump".into(), dump(&g, k)),
        };
        lines.push((req, ans));
    }
    lines
}

/// thorough tier: ALL histories of length 4 over the 12-call alphabet on node values {0, 1}
/// (add_node ×2, add_edge ×4, remove_edge ×4, remove_node ×2), both edge types
pub const EXHAUSTIVE: u64 = 2 * 12 * 12 * 12 * 12;

fn exhaustive_history(mut code: u64) -> Vec<Op> {
    let mut ops = vec![Op::Init(0, 0, 0)];
    for step in 0..4u32 {
        let c = (code % 12) as u32;
        code /= 12;
        let (a, b) = ((c % 4) / 2, c % 2);
        ops.push(match c {
            0..=3 => Op::AddEdge(a, b, 10 * step + 1),
            4..=7 => Op::RemoveEdge(a, b),
            8 | 9 => Op::AddNode(b),
            _ => Op::RemoveNode(b),
        });
        ops.push(Op::Dump);
    }
    ops.push(Op::IntoGraph);
    ops.push(Op::RoundTrip);
    ops.push(Op::Dump);
    ops
}

fn run_ty<Ty: EdgeType + Clone>(ctx: &mut Ctx, rng: &mut Rng, case: u64, directed: bool) {
    let exhaustive = ctx.tier_thorough && case < EXHAUSTIVE;
    let k: u32 = if exhaustive { 2 } else { *rng.pick(&[2, 3, 4, 5, 5, 6, 6, 7, 7, 7]) };
    let ops = if exhaustive { exhaustive_history(case / 2) } else { gen_history(rng, directed, k, ctx.tier_thorough) };
    let header = format!("case {} {} k={}", case, if directed { "dir" } else { "undir" }, k);
    let base = exec::<Ty, std::collections::hash_map::RandomState>(&ops, k);
    let fx = exec::<Ty, fxhash::FxBuildHasher>(&ops, k);
    let ah = exec::<Ty, ahash::RandomState>(&ops, k);
    let emit = |ctx: &mut Ctx, lines: &[(String, String)], verdict: &str| {
        ctx.raw(&header);
        for (r, a) in lines {
            ctx.line(r, a);
        }
        ctx.line("hashers", verdict);
    };
    let diff = |other: &[(String, String)]| -> Option<usize> { (0..base.len()).find(|i| base[*i] != other[*i]) };
    match (diff(&fx), diff(&ah)) {
        (None, None) => emit(ctx, &base, "same"),
        (d1, d2) => {
            // observations depend on the hasher: report, and let the driver judge the deviating run too
            let which = if d1.is_some() { "fxhash" } else { "ahash" };
            let at = d1.or(d2).unwrap();
            emit(ctx, &base, &format!("differ {} at line {} [{}]", which, at, base[at].0));
            if d1.is_some() {
                emit(ctx, &fx, "same");
            }
            if d2.is_some() {
                emit(ctx, &ah, "same");
            }
        }
    }
}

pub fn run(ctx: &mut Ctx, case: u64) {
    let mut rng = Rng::for_case(ctx.seed, "C03", case);
    if ctx.tier_thorough && case < EXHAUSTIVE {
        return if case % 2 == 0 { run_ty::<Directed>(ctx, &mut rng, case, true) } else { run_ty::<Undirected>(ctx, &mut rng, case, false) };
    }
    if rng.chance(50) {
        run_ty::<Directed>(ctx, &mut rng, case, true)
    } else {
        run_ty::<Undirected>(ctx, &mut rng, case, false)
    }
}
