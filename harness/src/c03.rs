//! C03 — `GraphMap` histories: every public call over node values `0..K` (K <= 7, so that collisions,
//! reciprocal edges, self-loops and remove-then-re-add are dense), `Directed` and `Undirected`, each
//! history executed under three hashers (`RandomState`, `fxhash`, `ahash`) with identical observations
//! required.  After every mutating call a `dump` (full observation through the public API).
//!
//! Wave 6 (corners of the public API):
//! * the executor is generic over the node type and the edge weight type (`Nd`, `Wt`); besides the three
//!   hashers every history runs under one more instantiation (`i64` nodes below zero with `f32` weights,
//!   `graphmap::Ptr` nodes — compared by address, all pointing to EQUAL values — with `Box<u32>` weights,
//!   `(u8, i8)` tuple nodes with `u64` weights and a fixed-key SipHash): identical observations required
//!   (`instances => same`);
//! * `law …` lines (c03_laws.rs): everything of the public surface of graphmap.rs / data.rs that the
//!   protocol does not address call by call is checked against calls that ARE judged by the model.
use crate::common::*;
use crate::rng::Rng;
use petgraph::data::{Build, Create, Element, FromElements};
use petgraph::graph::Graph;
use petgraph::graphmap::{GraphMap, Ptr};
use petgraph::visit::{
    EdgeIndexable, EdgeRef, GetAdjacencyMatrix, IntoEdgeReferences, IntoNodeIdentifiers,
    IntoNodeReferences, NodeIndexable, NodeRef,
};
use petgraph::{Directed, Direction, EdgeType, Undirected};
use std::collections::{BTreeMap, BTreeSet};
use std::fmt::Debug;
use std::hash::{BuildHasher, Hash};

#[path = "c03_laws.rs"]
mod laws;
#[path = "c03_par.rs"]
mod par;

/// a node type of the instantiation under test; `enc` is strictly monotone (the canonical orientation of an
/// undirected edge follows `Ord`), so every observation decodes to the one of the `u32` run
pub trait Nd: Copy + Ord + Hash + Debug {
    fn enc(x: u32) -> Self;
    fn dec(self) -> u32;
}
impl Nd for u32 {
    fn enc(x: u32) -> u32 {
        x
    }
    fn dec(self) -> u32 {
        self
    }
}
/// negative node values
impl Nd for i64 {
    fn enc(x: u32) -> i64 {
        x as i64 - 3
    }
    fn dec(self) -> u32 {
        (self + 3) as u32
    }
}
impl Nd for (u8, i8) {
    fn enc(x: u32) -> (u8, i8) {
        ((x / 3) as u8, (x % 3) as i8 - 1)
    }
    fn dec(self) -> u32 {
        self.0 as u32 * 3 + (self.1 + 1) as u32
    }
}
thread_local! {
    /// arena of EQUAL values: `Ptr` must tell them apart by address (ascending with the index)
    static ARENA: &'static [u32] = Box::leak(vec![7u32; 64].into_boxed_slice());
}
impl Nd for Ptr<'static, u32> {
    fn enc(x: u32) -> Self {
        ARENA.with(|a| Ptr(&a[x as usize]))
    }
    fn dec(self) -> u32 {
        ARENA.with(|a| ((self.0 as *const u32 as usize - a.as_ptr() as usize) / std::mem::size_of::<u32>()) as u32)
    }
}

/// an edge weight type of the instantiation under test
pub trait Wt: Clone + Debug {
    fn enc(x: u32) -> Self;
    fn dec(&self) -> u32;
}
impl Wt for u32 {
    fn enc(x: u32) -> u32 {
        x
    }
    fn dec(&self) -> u32 {
        *self
    }
}
impl Wt for u64 {
    fn enc(x: u32) -> u64 {
        x as u64 + (1 << 40)
    }
    fn dec(&self) -> u32 {
        (*self - (1 << 40)) as u32
    }
}
impl Wt for f32 {
    fn enc(x: u32) -> f32 {
        x as f32
    }
    fn dec(&self) -> u32 {
        *self as u32
    }
}
/// not `Copy`
impl Wt for Box<u32> {
    fn enc(x: u32) -> Self {
        Box::new(x)
    }
    fn dec(&self) -> u32 {
        **self
    }
}

type Tri = (u32, u32, u32);

#[derive(Clone, Debug)]
enum Op {
    Init(u8, usize, usize),
    AddNode(u32),
    AddEdge(u32, u32, u32),
    RemoveNode(u32),
    RemoveEdge(u32, u32),
    SetWeight(u32, u32, u32),
    IndexSet(u32, u32, u32),
    BumpAll(u32),
    Clear,
    Extend(Vec<Tri>),
    BuildAddEdge(u32, u32, u32),
    BuildUpdateEdge(u32, u32, u32),
    RoundTrip,
    FromGraph(Vec<u32>, Vec<(usize, usize, u32)>),
    FromEdges(Vec<Tri>),
    FromElements(Vec<u32>, Vec<(usize, usize, u32)>),
    /// `from_elements` on an arbitrary element sequence with distinct node weights: edges between the node
    /// elements, possibly naming a position that has not appeared yet (a documented-by-construction panic)
    FromElems(Vec<Elem>),
    /// the `law …` lines (c03_laws.rs) in the current state
    Laws(u64),
    BumpRev(u32),
    CloneSelf,
    ContainsNode(u32),
    ContainsEdge(u32, u32),
    IsAdjacent(u32, u32),
    EdgeWeight(u32, u32),
    Index(u32, u32),
    Neighbors(u32),
    NeighborsDirected(u32, bool),
    Edges(u32),
    EdgesDirected(u32, bool),
    Nodes,
    AllEdges,
    NodeCount,
    EdgeCount,
    ToIndex(u32),
    FromIndex(usize),
    EdgeToIndex(u32, u32),
    EdgeFromIndex(usize),
    IntoGraph,
    Dump,
}

#[derive(Clone, Debug)]
pub enum Elem {
    Node(u32),
    Edge(usize, usize, u32),
}

fn tri(l: &[Tri]) -> String {
    list(l.iter().map(|(a, b, w)| format!("{}:{}:{}", a, b, w)))
}

fn dirname(out: bool) -> &'static str {
    if out {
        "out"
    } else {
        "in"
    }
}

fn direction(out: bool) -> Direction {
    if out {
        Direction::Outgoing
    } else {
        Direction::Incoming
    }
}

/// abstract shadow used only to *direct* the generator (which edges/nodes exist right now)
struct Shadow {
    directed: bool,
    nodes: BTreeSet<u32>,
    edges: BTreeMap<(u32, u32), ()>,
}

impl Shadow {
    fn key(&self, a: u32, b: u32) -> (u32, u32) {
        if self.directed || a <= b {
            (a, b)
        } else {
            (b, a)
        }
    }
    fn add_edge(&mut self, a: u32, b: u32) {
        self.nodes.insert(a);
        self.nodes.insert(b);
        let k = self.key(a, b);
        self.edges.insert(k, ());
    }
    fn remove_node(&mut self, n: u32) {
        self.nodes.remove(&n);
        self.edges.retain(|k, _| k.0 != n && k.1 != n);
    }
    fn clear(&mut self) {
        self.nodes.clear();
        self.edges.clear();
    }
}

fn gen_history(rng: &mut Rng, directed: bool, k: u32, thorough: bool) -> Vec<Op> {
    let mut sh = Shadow { directed, nodes: BTreeSet::new(), edges: BTreeMap::new() };
    let mut ops: Vec<Op> = Vec::new();
    ops.push(Op::Init(rng.below(5) as u8, rng.below(9), rng.below(9)));
    let node = |rng: &mut Rng| rng.below(k as usize) as u32;
    let wt = |rng: &mut Rng| {
        let hi = if rng.chance(50) { 3 } else { 90 };
        rng.below(hi) as u32
    };
    let edge_list = |rng: &mut Rng, n: usize| -> Vec<Tri> {
        (0..n)
            .map(|_| {
                let a = rng.below(k as usize) as u32;
                let b = if rng.chance(15) { a } else { rng.below(k as usize) as u32 };
                (a, b, rng.below(90) as u32)
            })
            .collect()
    };
    let graph_input = |rng: &mut Rng| -> (Vec<u32>, Vec<(usize, usize, u32)>) {
        // a `Graph` whose node weights may repeat and that may carry parallel edges (from_graph
        // documents: merged / last one wins); half of the time a clean one
        let clean = rng.chance(50);
        let n = rng.below(k as usize + 3);
        let mut ws: Vec<u32> = (0..n).map(|_| rng.below(k as usize) as u32).collect();
        if clean {
            let mut all: Vec<u32> = (0..k).collect();
            rng.shuffle(&mut all);
            ws = all.into_iter().take(n.min(k as usize)).collect();
        }
        let mut es = Vec::new();
        if !ws.is_empty() {
            for _ in 0..rng.below(2 * ws.len() + 2) {
                let i = rng.below(ws.len());
                let j = if rng.chance(15) { i } else { rng.below(ws.len()) };
                es.push((i, j, rng.below(90) as u32));
            }
        }
        (ws, es)
    };
    // optional constructor-from-data right at the start
    match rng.below(10) {
        0 | 1 => {
            let cnt = rng.below(14);
            let es = edge_list(rng, cnt);
            for e in &es {
                sh.add_edge(e.0, e.1);
            }
            ops.push(Op::FromEdges(es));
            ops.push(Op::Dump);
        }
        2 => {
            let (ws, es) = graph_input(rng);
            sh.clear();
            for w in &ws {
                sh.nodes.insert(*w);
            }
            for e in &es {
                sh.add_edge(ws[e.0], ws[e.1]);
            }
            ops.push(Op::FromGraph(ws, es));
            ops.push(Op::Dump);
        }
        _ => {}
    }
    let nops = 8 + rng.below(if k > 7 { 70 } else if thorough { 220 } else { 110 });
    // phases: grow, churn, shrink (the weights of the mutating ops change)
    for i in 0..nops {
        let phase = (3 * i) / nops;
        // an edge argument: an existing edge (either orientation when undirected, sometimes the
        // reverse when directed), else a random pair, 15 % self-loops
        let pair = |rng: &mut Rng, sh: &Shadow| -> (u32, u32) {
            if !sh.edges.is_empty() && rng.chance(55) {
                let idx = rng.below(sh.edges.len());
                let (a, b) = *sh.edges.keys().nth(idx).unwrap();
                if rng.chance(if sh.directed { 20 } else { 50 }) {
                    (b, a)
                } else {
                    (a, b)
                }
            } else {
                let a = rng.below(k as usize) as u32;
                let b = if rng.chance(15) { a } else { rng.below(k as usize) as u32 };
                (a, b)
            }
        };
        let (w_add_edge, w_rm_edge, w_rm_node, w_add_node) = match phase {
            0 => (30, 5, 3, 6),
            1 => (18, 14, 8, 4),
            _ => (8, 18, 12, 3),
        };
        let choice = rng.weighted(&[
            w_add_node, w_add_edge, w_rm_node, w_rm_edge, 4, 3, 2, 1, 3, 3, 3, 2, 1, 1, 1, // mutating (0..=14)
            22, // queries (15)
        ]);
        let mut mutating = true;
        match choice {
            0 => {
                let n = node(rng);
                sh.nodes.insert(n);
                ops.push(Op::AddNode(n));
            }
            1 => {
                let (a, b) = pair(rng, &sh);
                sh.add_edge(a, b);
                ops.push(Op::AddEdge(a, b, wt(rng)));
            }
            2 => {
                let n = node(rng);
                sh.remove_node(n);
                ops.push(Op::RemoveNode(n));
            }
            3 => {
                let (a, b) = pair(rng, &sh);
                let key = sh.key(a, b);
                sh.edges.remove(&key);
                ops.push(Op::RemoveEdge(a, b));
            }
            4 => {
                let (a, b) = pair(rng, &sh);
                ops.push(Op::SetWeight(a, b, wt(rng)));
            }
            5 => {
                let (a, b) = pair(rng, &sh);
                ops.push(Op::IndexSet(a, b, wt(rng)));
            }
            6 => {
                let x = 1 + rng.below(3) as u32;
                ops.push(if rng.chance(35) { Op::BumpRev(x) } else { Op::BumpAll(x) });
            }
            7 => {
                if rng.chance(40) {
                    sh.clear();
                    ops.push(Op::Clear);
                } else {
                    ops.push(Op::CloneSelf);
                }
            }
            8 => {
                let cnt = rng.below(6);
                let es = edge_list(rng, cnt);
                for e in &es {
                    sh.add_edge(e.0, e.1);
                }
                ops.push(Op::Extend(es));
            }
            9 => {
                let (a, b) = pair(rng, &sh);
                sh.add_edge(a, b);
                ops.push(Op::BuildAddEdge(a, b, wt(rng)));
            }
            10 => {
                let (a, b) = pair(rng, &sh);
                sh.add_edge(a, b);
                ops.push(Op::BuildUpdateEdge(a, b, wt(rng)));
            }
            11 => ops.push(Op::RoundTrip),
            12 => ops.push(Op::CloneSelf),
            13 => {
                let before = (sh.nodes.clone(), sh.edges.clone());
                let (ws, es) = graph_input(rng);
                sh.clear();
                for w in &ws {
                    sh.nodes.insert(*w);
                }
                for e in &es {
                    sh.add_edge(ws[e.0], ws[e.1]);
                }
                if rng.chance(30) {
                    // an interleaved element sequence over distinct node weights; 30 % of them name a position
                    // that does not exist (yet): the call panics and the graph stays what it was
                    let mut all: Vec<u32> = (0..k).collect();
                    rng.shuffle(&mut all);
                    let cnt = rng.below(k as usize + 1);
                    let bad = rng.chance(30);
                    let mut el: Vec<Elem> = Vec::new();
                    let mut ok = true;
                    let mut seen: Vec<u32> = Vec::new();
                    let mut staged: Vec<(u32, u32)> = Vec::new();
                    for w in all.into_iter().take(cnt) {
                        el.push(Elem::Node(w));
                        seen.push(w);
                        for _ in 0..rng.below(4) {
                            let hi = seen.len() + if bad && rng.chance(25) { 2 } else { 0 };
                            let i = rng.below(hi);
                            let j = if rng.chance(15) { i } else { rng.below(hi) };
                            el.push(Elem::Edge(i, j, rng.below(90) as u32));
                            if i < seen.len() && j < seen.len() {
                                staged.push((seen[i], seen[j]));
                            } else {
                                ok = false;
                            }
                        }
                    }
                    if cnt == 0 && bad {
                        el.push(Elem::Edge(0, 0, 1));
                        ok = false;
                    }
                    // (the shadow was replaced above for the from_graph input: redo it for this call)
                    sh.clear();
                    if ok {
                        for w in &seen {
                            sh.nodes.insert(*w);
                        }
                        for (a, b) in &staged {
                            sh.add_edge(*a, *b);
                        }
                    } else {
                        sh.nodes = before.0.clone();
                        sh.edges = before.1.clone();
                    }
                    ops.push(Op::FromElems(el));
                } else if rng.chance(35) {
                    // FromElements needs distinct node weights (it addresses nodes by position)
                    let mut seen = std::collections::BTreeSet::new();
                    if ws.iter().all(|w| seen.insert(*w)) {
                        ops.push(Op::FromElements(ws, es));
                    } else {
                        ops.push(Op::FromGraph(ws, es));
                    }
                } else {
                    ops.push(Op::FromGraph(ws, es));
                }
            }
            14 => {
                let cnt = rng.below(10);
                let es = edge_list(rng, cnt);
                sh.clear();
                for e in &es {
                    sh.add_edge(e.0, e.1);
                }
                ops.push(Op::FromEdges(es));
            }
            _ => {
                mutating = false;
                let (a, b) = pair(rng, &sh);
                let n = node(rng);
                let out = rng.chance(50);
                let q = match rng.below(20) {
                    0 => Op::ContainsNode(n),
                    1 => Op::ContainsEdge(a, b),
                    2 => Op::IsAdjacent(a, b),
                    3 => Op::EdgeWeight(a, b),
                    4 => Op::Index(a, b),
                    5 => Op::Neighbors(n),
                    6 => Op::NeighborsDirected(n, out),
                    7 => Op::Edges(n),
                    8 => Op::EdgesDirected(n, out),
                    9 => Op::Nodes,
                    10 => Op::AllEdges,
                    11 => Op::NodeCount,
                    12 => Op::EdgeCount,
                    13 => Op::ToIndex(n),
                    14 => Op::FromIndex(rng.below(sh.nodes.len() + 2)),
                    15 => Op::EdgeToIndex(a, b),
                    16 => Op::EdgeFromIndex(rng.below(sh.edges.len() + 2)),
                    17 => Op::IntoGraph,
                    18 => Op::EdgesDirected(a, out),
                    _ => Op::NeighborsDirected(a, out),
                };
                ops.push(q);
            }
        }
        if mutating {
            ops.push(Op::Dump);
            if rng.chance(30) {
                ops.push(Op::IntoGraph);
            }
            if rng.chance(8) {
                ops.push(Op::Laws(rng.next()));
            }
        }
    }
    ops.push(Op::Dump);
    ops.push(Op::Laws(rng.next()));
    ops.push(Op::IntoGraph);
    ops
}

fn or_panic(x: Option<String>) -> String {
    x.unwrap_or_else(|| "panic".into())
}

fn t3<N: Nd, W: Wt>(e: (N, N, &W)) -> String {
    format!("{}:{}:{}", e.0.dec(), e.1.dec(), e.2.dec())
}

pub fn dump<N: Nd, W: Wt, Ty: EdgeType, S: BuildHasher>(g: &GraphMap<N, W, Ty, S>, k: u32) -> String {
    let mut out = String::new();
    let nodes: Vec<N> = g.nodes().collect();
    let edges: Vec<(N, N)> = g.all_edges().map(|(a, b, _)| (a, b)).collect();
    let nc = g.node_count();
    let ec = g.edge_count();
    out += &format!("nc={} ec={} nb={} eb={}", nc, ec, g.node_bound(), g.edge_bound());
    out += &format!(" nodes={}", list(nodes.iter().map(|n| n.dec())));
    out += &format!(" ids={}", list(g.node_identifiers().map(|n| n.dec())));
    out += &format!(
        " refs={}",
        list(g.node_references().map(|r| if r.id() == *r.weight() { r.id().dec().to_string() } else { "idweight".into() }))
    );
    out += &format!(" edges={}", list(g.all_edges().map(t3)));
    out += &format!(
        " erefs={}",
        list(g.edge_references().map(|e| {
            if e.id() == (e.source(), e.target()) {
                format!("{}:{}:{}", e.source().dec(), e.target().dec(), e.weight().dec())
            } else {
                "idmismatch".into()
            }
        }))
    );
    out += &format!(
        " ni={}",
        list(nodes.iter().map(|n| or_panic(catch(|| NodeIndexable::to_index(g, *n).to_string()))))
    );
    out += &format!(
        " nf={}",
        list((0..nc).map(|i| or_panic(catch(|| NodeIndexable::from_index(g, i).dec().to_string()))))
    );
    out += &format!(
        " ei={}",
        list(edges.iter().map(|e| or_panic(catch(|| EdgeIndexable::to_index(g, (e.0, e.1)).to_string()))))
    );
    out += &format!(
        " ef={}",
        list((0..ec).map(|i| {
            or_panic(catch(|| {
                let (a, b) = EdgeIndexable::from_index(g, i);
                format!("{}:{}", a.dec(), b.dec())
            }))
        }))
    );
    // the iterators' own `rev`/`len`/`count`/`last`/`nth` implementations
    out += &format!(" dir={}", if g.is_directed() { 1 } else { 0 });
    out += &format!(" rnodes={}", list(g.nodes().rev().map(|n| n.dec())));
    out += &format!(" nlen={}", g.nodes().len());
    out += &format!(" redges={}", list(g.all_edges().rev().map(t3)));
    out += &format!(" ecnt={}", g.all_edges().count());
    let o3 = |x: Option<(N, N, &W)>| match x {
        Some(e) => t3(e),
        None => "none".to_string(),
    };
    out += &format!(" elast={}", o3(g.all_edges().last()));
    out += &format!(" enth={}", o3(g.all_edges().nth(ec / 2)));
    for v in 0..k {
        let vn = N::enc(v);
        out += &format!(" | {} c={}", v, if g.contains_node(vn) { 1 } else { 0 });
        out += &format!(" N={}", or_panic(catch(|| list(g.neighbors(vn).map(|n| n.dec())))));
        out += &format!(" NO={}", or_panic(catch(|| list(g.neighbors_directed(vn, Direction::Outgoing).map(|n| n.dec())))));
        out += &format!(" NI={}", or_panic(catch(|| list(g.neighbors_directed(vn, Direction::Incoming).map(|n| n.dec())))));
        out += &format!(" E={}", or_panic(catch(|| list(g.edges(vn).map(t3)))));
        out += &format!(" EO={}", or_panic(catch(|| list(g.edges_directed(vn, Direction::Outgoing).map(t3)))));
        out += &format!(" EI={}", or_panic(catch(|| list(g.edges_directed(vn, Direction::Incoming).map(t3)))));
        out += &format!(
            " W={}",
            list((0..k).map(|b| match g.edge_weight(vn, N::enc(b)) {
                Some(w) => w.dec().to_string(),
                None => "x".into(),
            }))
        );
        out += " A=";
        for b in 0..k {
            out += if g.contains_edge(vn, N::enc(b)) { "1" } else { "0" };
        }
    }
    out
}

pub fn graph_str<N: Nd, W: Wt, Ty: EdgeType, Ix: petgraph::graph::IndexType>(gr: &Graph<N, W, Ty, Ix>) -> String {
    let ws = list(gr.node_weights().map(|n| n.dec()));
    let es = list(gr.edge_indices().map(|e| {
        let (a, b) = gr.edge_endpoints(e).unwrap();
        format!("{}:{}:{}", a.index(), b.index(), gr[e].dec())
    }));
    format!("ws={} es={}", ws, es)
}

fn into_graph_str<N: Nd, W: Wt, Ty: EdgeType + Clone, S: BuildHasher + Clone>(g: &GraphMap<N, W, Ty, S>) -> String {
    or_panic(catch(|| {
        let gr: Graph<N, W, Ty, u32> = g.clone().into_graph();
        graph_str(&gr)
    }))
}

pub fn build_graph<N: Nd, W: Wt, Ty: EdgeType, Ix: petgraph::graph::IndexType>(
    ws: &[u32],
    es: &[(usize, usize, u32)],
) -> Graph<N, W, Ty, Ix> {
    let mut gr: Graph<N, W, Ty, Ix> = Graph::with_capacity(0, 0);
    let ix: Vec<_> = ws.iter().map(|w| gr.add_node(N::enc(*w))).collect();
    for (i, j, w) in es {
        gr.add_edge(ix[*i], ix[*j], W::enc(*w));
    }
    gr
}

fn opt_u(x: Option<u32>) -> String {
    match x {
        Some(v) => format!("some {}", v),
        None => "none".into(),
    }
}

fn elems_str(el: &[Elem]) -> String {
    list(el.iter().map(|e| match e {
        Elem::Node(w) => format!("n{}", w),
        Elem::Edge(i, j, w) => format!("e{}:{}:{}", i, j, w),
    }))
}

type LawFn<'a, N, W, Ty, S> = &'a dyn Fn(&GraphMap<N, W, Ty, S>, u32, u64) -> Vec<(String, String)>;

/// execute one history on the real `GraphMap`; returns the protocol lines (request, answer)
fn exec<N: Nd, W: Wt, Ty: EdgeType + Clone, S: BuildHasher + Default + Clone>(
    ops: &[Op],
    k: u32,
    lawfn: LawFn<N, W, Ty, S>,
) -> Vec<(String, String)> {
    let mut g: GraphMap<N, W, Ty, S> = GraphMap::new();
    let mut lines: Vec<(String, String)> = Vec::new();
    let n = |x: &u32| N::enc(*x);
    let tri_n = |es: &[Tri]| -> Vec<(N, N, W)> { es.iter().map(|(a, b, w)| (N::enc(*a), N::enc(*b), W::enc(*w))).collect() };
    for op in ops {
        let (req, ans): (String, String) = match op {
            Op::Init(kind, nn, e) => {
                g = match kind {
                    0 => GraphMap::new(),
                    1 => GraphMap::default(),
                    2 => GraphMap::with_capacity(*nn, *e),
                    3 => <GraphMap<N, W, Ty, S> as Create>::with_capacity(*nn, *e),
                    _ => GraphMap::with_capacity_and_hasher(*nn, *e, S::default()),
                };
                (format!("init {} {} {}", kind, nn, e), "ok".into())
            }
            Op::AddNode(a) => (format!("add_node {}", a), g.add_node(n(a)).dec().to_string()),
            Op::AddEdge(a, b, w) => (
                format!("add_edge {} {} {}", a, b, w),
                or_panic(catch(|| opt_u(g.add_edge(n(a), n(b), W::enc(*w)).map(|x| x.dec())))),
            ),
            Op::RemoveNode(a) => (format!("remove_node {}", a), or_panic(catch(|| g.remove_node(n(a)).to_string()))),
            Op::RemoveEdge(a, b) => (
                format!("remove_edge {} {}", a, b),
                or_panic(catch(|| opt_u(g.remove_edge(n(a), n(b)).map(|x| x.dec())))),
            ),
            Op::SetWeight(a, b, w) => (
                format!("set_weight {} {} {}", a, b, w),
                opt_u(g.edge_weight_mut(n(a), n(b)).map(|r| std::mem::replace(r, W::enc(*w)).dec())),
            ),
            Op::IndexSet(a, b, w) => (
                format!("index_set {} {} {}", a, b, w),
                or_panic(catch(|| {
                    let r = &mut g[(n(a), n(b))];
                    std::mem::replace(r, W::enc(*w)).dec().to_string()
                })),
            ),
            Op::BumpAll(x) => {
                let mut seen: Vec<Tri> = Vec::new();
                for (a, b, w) in g.all_edges_mut() {
                    seen.push((a.dec(), b.dec(), w.dec()));
                    *w = W::enc(w.dec() + *x);
                }
                (format!("bump_all {}", x), tri(&seen))
            }
            Op::BumpRev(x) => {
                let mut seen: Vec<Tri> = Vec::new();
                for (a, b, w) in g.all_edges_mut().rev() {
                    seen.push((a.dec(), b.dec(), w.dec()));
                    *w = W::enc(w.dec() + *x);
                }
                (format!("bump_rev {}", x), tri(&seen))
            }
            Op::FromElements(ws, es) => {
                let r = catch(|| {
                    let elems = ws
                        .iter()
                        .map(|w| Element::Node { weight: N::enc(*w) })
                        .chain(es.iter().map(|(i, j, w)| Element::Edge { source: *i, target: *j, weight: W::enc(*w) }));
                    GraphMap::<N, W, Ty, S>::from_elements(elems)
                });
                let ans = match r {
                    Some(h) => {
                        g = h;
                        "ok"
                    }
                    None => "panic",
                };
                (
                    format!("from_elements {} {}", list(ws.iter()), list(es.iter().map(|(i, j, w)| format!("{}:{}:{}", i, j, w)))),
                    ans.into(),
                )
            }
            Op::FromElems(el) => {
                let r = catch(|| {
                    GraphMap::<N, W, Ty, S>::from_elements(el.iter().map(|e| match e {
                        Elem::Node(w) => Element::Node { weight: N::enc(*w) },
                        Elem::Edge(i, j, w) => Element::Edge { source: *i, target: *j, weight: W::enc(*w) },
                    }))
                });
                let ans = match r {
                    Some(h) => {
                        g = h;
                        "ok"
                    }
                    None => "panic",
                };
                (format!("from_elems {}", elems_str(el)), ans.into())
            }
            Op::Clear => {
                g.clear();
                ("clear".into(), "ok".into())
            }
            Op::Extend(es) => {
                let r = catch(|| g.extend(tri_n(es)));
                (format!("extend {}", tri(es)), if r.is_some() { "ok".into() } else { "panic".into() })
            }
            Op::BuildAddEdge(a, b, w) => (
                format!("build_add_edge {} {} {}", a, b, w),
                or_panic(catch(|| match Build::add_edge(&mut g, n(a), n(b), W::enc(*w)) {
                    Some((x, y)) => format!("some {}:{}", x.dec(), y.dec()),
                    None => "none".into(),
                })),
            ),
            Op::BuildUpdateEdge(a, b, w) => (
                format!("build_update_edge {} {} {}", a, b, w),
                or_panic(catch(|| {
                    let (x, y) = Build::update_edge(&mut g, n(a), n(b), W::enc(*w));
                    format!("{}:{}", x.dec(), y.dec())
                })),
            ),
            Op::RoundTrip => {
                let r = catch(|| {
                    let gr: Graph<N, W, Ty, u32> = g.clone().into_graph();
                    GraphMap::<N, W, Ty, S>::from_graph(gr)
                });
                let ans = match r {
                    Some(h) => {
                        g = h;
                        "ok"
                    }
                    None => "panic",
                };
                ("round_trip".into(), ans.into())
            }
            Op::FromGraph(ws, es) => {
                let r = catch(|| GraphMap::<N, W, Ty, S>::from_graph(build_graph::<N, W, Ty, u32>(ws, es)));
                let ans = match r {
                    Some(h) => {
                        g = h;
                        "ok"
                    }
                    None => "panic",
                };
                (
                    format!("from_graph {} {}", list(ws.iter()), list(es.iter().map(|(i, j, w)| format!("{}:{}:{}", i, j, w)))),
                    ans.into(),
                )
            }
            Op::FromEdges(es) => {
                let r = catch(|| GraphMap::<N, W, Ty, S>::from_edges(tri_n(es)));
                let ans = match r {
                    Some(h) => {
                        g = h;
                        "ok"
                    }
                    None => "panic",
                };
                (format!("from_edges {}", tri(es)), ans.into())
            }
            Op::CloneSelf => {
                g = g.clone();
                ("clone".into(), "ok".into())
            }
            Op::ContainsNode(a) => (format!("contains_node {}", a), g.contains_node(n(a)).to_string()),
            Op::ContainsEdge(a, b) => (format!("contains_edge {} {}", a, b), g.contains_edge(n(a), n(b)).to_string()),
            Op::IsAdjacent(a, b) => {
                let m = g.adjacency_matrix();
                (format!("is_adjacent {} {}", a, b), g.is_adjacent(&m, n(a), n(b)).to_string())
            }
            Op::EdgeWeight(a, b) => (format!("edge_weight {} {}", a, b), opt_u(g.edge_weight(n(a), n(b)).map(|w| w.dec()))),
            Op::Index(a, b) => (format!("index {} {}", a, b), or_panic(catch(|| g[(n(a), n(b))].dec().to_string()))),
            Op::Neighbors(a) => (format!("neighbors {}", a), or_panic(catch(|| list(g.neighbors(n(a)).map(|x| x.dec()))))),
            Op::NeighborsDirected(a, o) => (
                format!("neighbors_directed {} {}", a, dirname(*o)),
                or_panic(catch(|| list(g.neighbors_directed(n(a), direction(*o)).map(|x| x.dec())))),
            ),
            Op::Edges(a) => (format!("edges {}", a), or_panic(catch(|| list(g.edges(n(a)).map(t3))))),
            Op::EdgesDirected(a, o) => (
                format!("edges_directed {} {}", a, dirname(*o)),
                or_panic(catch(|| list(g.edges_directed(n(a), direction(*o)).map(t3)))),
            ),
            Op::Nodes => ("nodes".into(), list(g.nodes().map(|x| x.dec()))),
            Op::AllEdges => ("all_edges".into(), list(g.all_edges().map(t3))),
            Op::NodeCount => ("node_count".into(), g.node_count().to_string()),
            Op::EdgeCount => ("edge_count".into(), g.edge_count().to_string()),
            Op::ToIndex(a) => (format!("to_index {}", a), or_panic(catch(|| NodeIndexable::to_index(&g, n(a)).to_string()))),
            Op::FromIndex(i) => (
                format!("from_index {}", i),
                or_panic(catch(|| NodeIndexable::from_index(&g, *i).dec().to_string())),
            ),
            Op::EdgeToIndex(a, b) => (
                format!("edge_to_index {} {}", a, b),
                or_panic(catch(|| EdgeIndexable::to_index(&g, (n(a), n(b))).to_string())),
            ),
            Op::EdgeFromIndex(i) => (
                format!("edge_from_index {}", i),
                or_panic(catch(|| {
                    let (a, b) = EdgeIndexable::from_index(&g, *i);
                    format!("{}:{}", a.dec(), b.dec())
                })),
            ),
            Op::IntoGraph => ("into_graph".into(), into_graph_str(&g)),
            Op::Dump => ("dump".into(), dump(&g, k)),
            Op::Laws(seed) => {
                lines.extend(lawfn(&g, k, *seed));
                continue;
            }
        };
        lines.push((req, ans));
    }
    lines
}

/// thorough tier: ALL histories of length 4 over the 12-call alphabet on node values {0, 1}
/// (add_node ×2, add_edge ×4, remove_edge ×4, remove_node ×2), both edge types
pub const EXHAUSTIVE: u64 = 2 * 12 * 12 * 12 * 12;

fn exhaustive_history(mut code: u64) -> Vec<Op> {
    let seed = code;
    let mut ops = vec![Op::Init(0, 0, 0)];
    for step in 0..4u32 {
        let c = (code % 12) as u32;
        code /= 12;
        let (a, b) = ((c % 4) / 2, c % 2);
        ops.push(match c {
            0..=3 => Op::AddEdge(a, b, 10 * step + 1),
            4..=7 => Op::RemoveEdge(a, b),
            8 | 9 => Op::AddNode(b),
            _ => Op::RemoveNode(b),
        });
        ops.push(Op::Dump);
    }
    ops.push(Op::Laws(seed));
    ops.push(Op::IntoGraph);
    ops.push(Op::RoundTrip);
    ops.push(Op::Dump);
    ops
}

fn no_laws<N, W, Ty, S: BuildHasher>(_: &GraphMap<N, W, Ty, S>, _: u32, _: u64) -> Vec<(String, String)> {
    Vec::new()
}

fn run_ty<Ty: laws::Tyy>(ctx: &mut Ctx, rng: &mut Rng, case: u64, directed: bool) {
    use std::collections::hash_map::{DefaultHasher, RandomState};
    use std::hash::BuildHasherDefault;
    let exhaustive = ctx.tier_thorough && case < EXHAUSTIVE;
    // K = 1: a single node value (only self-loops); 5 % of the cases leave the dense range: 12 or 20 node values
    // (sparser graphs, longer adjacency vectors and maps, positions beyond the first few)
    let k: u32 = if exhaustive {
        2
    } else if rng.chance(5) {
        *rng.pick(&[12, 20])
    } else {
        *rng.pick(&[1, 2, 2, 3, 4, 5, 5, 6, 6, 7, 7, 7])
    };
    let ops = if exhaustive { exhaustive_history(case / 2) } else { gen_history(rng, directed, k, ctx.tier_thorough) };
    let header = format!("case {} {} k={}", case, if directed { "dir" } else { "undir" }, k);
    // the run the driver sees: u32 nodes, u32 weights, RandomState, with the `law` lines
    let base = exec::<u32, u32, Ty, RandomState>(&ops, k, &laws::laws::<Ty, RandomState>);
    let plain: Vec<(String, String)> = base.iter().filter(|l| !l.0.starts_with("law ")).cloned().collect();
    // the other hashers and ONE more instantiation of the node / weight types (rotating with the case number)
    let mut others: Vec<(&str, Vec<(String, String)>)> = vec![
        ("fxhash", exec::<u32, u32, Ty, fxhash::FxBuildHasher>(&ops, k, &no_laws)),
        ("ahash", exec::<u32, u32, Ty, ahash::RandomState>(&ops, k, &no_laws)),
    ];
    others.push(match case % 3 {
        0 => ("i64-f32-ahash", exec::<i64, f32, Ty, ahash::RandomState>(&ops, k, &no_laws)),
        1 => ("Ptr-Box-fxhash", exec::<Ptr<'static, u32>, Box<u32>, Ty, fxhash::FxBuildHasher>(&ops, k, &no_laws)),
        _ => ("tuple-u64-siphash", exec::<(u8, i8), u64, Ty, BuildHasherDefault<DefaultHasher>>(&ops, k, &no_laws)),
    });
    let emit = |ctx: &mut Ctx, lines: &[(String, String)], hashers: &str, instances: &str| {
        ctx.raw(&header);
        for (r, a) in lines {
            ctx.line(r, a);
        }
        ctx.line("hashers", hashers);
        ctx.line("instances", instances);
    };
    let diff = |other: &[(String, String)]| -> Option<usize> {
        (0..plain.len().max(other.len())).find(|i| plain.get(*i) != other.get(*i))
    };
    let word = |at: usize| plain.get(at).map(|l| l.0.clone()).unwrap_or_else(|| "end".into());
    let bad: Vec<(usize, usize)> = others.iter().enumerate().filter_map(|(i, o)| diff(&o.1).map(|at| (i, at))).collect();
    if bad.is_empty() {
        emit(ctx, &base, "same", "same");
    } else {
        // observations depend on the hasher / the instantiation: report, and let the driver judge the deviating run too
        let verdict = |want_inst: bool| -> String {
            match bad.iter().find(|(i, _)| (*i == 2) == want_inst) {
                Some((i, at)) => format!("differ {} at line {} [{}]", others[*i].0, at, word(*at)),
                None => "same".into(),
            }
        };
        emit(ctx, &base, &verdict(false), &verdict(true));
        for (i, _) in &bad {
            emit(ctx, &others[*i].1, "same", "same");
        }
    }
}

pub fn run(ctx: &mut Ctx, case: u64) {
    let mut rng = Rng::for_case(ctx.seed, "C03", case);
    if ctx.tier_thorough && case < EXHAUSTIVE {
        return if case % 2 == 0 { run_ty::<Directed>(ctx, &mut rng, case, true) } else { run_ty::<Undirected>(ctx, &mut rng, case, false) };
    }
    if rng.chance(50) {
        run_ty::<Directed>(ctx, &mut rng, case, true)
    } else {
        run_ty::<Undirected>(ctx, &mut rng, case, false)
    }
}
