//! Abstract graphs, structure-directed generators, and encodings of one abstract graph in every
//! petgraph storage type (with relabelings, permuted insertion orders and vacancies), plus the
//! `graph` protocol line (a *view*: the abstract graph and one encoding's iteration orders, all in
//! abstract node ids).
//!
//! Convention: in every encoding that has node weights the node weight IS the abstract node id
//! (`usize`), so `abs(n) = g[n]`; `GraphMap` uses the abstract id as the node itself; `adj::List`
//! has no node weights, its node `i` is abstract node `perm[i]`.
#![allow(dead_code)]
use crate::common::*;
use crate::rng::Rng;
use petgraph::adj::List;
use petgraph::csr::Csr;
use petgraph::graph::{Graph, IndexType};
use petgraph::graphmap::GraphMap;
use petgraph::matrix_graph::MatrixGraph;
use petgraph::stable_graph::StableGraph;
use petgraph::visit::{
    EdgeRef, GraphProp, IntoEdges, IntoEdgesDirected, IntoNodeIdentifiers, NodeIndexable,
};
use petgraph::{Direction, EdgeType};
use std::collections::HashMap;

/// abstract multigraph on nodes 0..n, edge `k` = `edges[k]` = (src, tgt, weight)
#[derive(Clone, Debug)]
pub struct AG {
    pub directed: bool,
    pub n: usize,
    pub edges: Vec<(usize, usize, i64)>,
}

#[derive(Clone, Copy)]
pub struct GenOpts {
    pub max_n: usize,
    pub loops: bool,
    pub parallel: bool,
    pub wlo: i64,
    pub whi: i64,
}

impl GenOpts {
    pub fn simple(max_n: usize) -> GenOpts {
        GenOpts { max_n, loops: false, parallel: false, wlo: 1, whi: 1 }
    }
    pub fn multi(max_n: usize, wlo: i64, whi: i64) -> GenOpts {
        GenOpts { max_n, loops: true, parallel: true, wlo, whi }
    }
}

impl AG {
    pub fn is_simple(&self) -> bool {
        let mut seen = std::collections::HashSet::new();
        for &(a, b, _) in &self.edges {
            let k = if self.directed || a <= b { (a, b) } else { (b, a) };
            if !seen.insert(k) {
                return false;
            }
        }
        true
    }
    pub fn has_loop(&self) -> bool {
        self.edges.iter().any(|e| e.0 == e.1)
    }
    /// relabel nodes by the permutation `p` (node i becomes p[i])
    pub fn relabel(&self, p: &[usize]) -> AG {
        AG { directed: self.directed, n: self.n, edges: self.edges.iter().map(|&(a, b, w)| (p[a], p[b], w)).collect() }
    }
}

pub fn family_name(k: usize) -> &'static str {
    ["gnp-sparse", "gnp-mid", "gnp-dense", "forest", "dag", "cliques", "bipartite", "grid", "multi", "path", "cycle", "complete", "empty", "star", "dag-exp", "two-comp"][k]
}
pub const NFAMILIES: usize = 16;

/// structure-directed generator; `family` in 0..NFAMILIES
pub fn gen_family(rng: &mut Rng, directed: bool, family: usize, o: GenOpts) -> AG {
    let n = if o.max_n <= 1 { o.max_n } else { 1 + rng.below(o.max_n) };
    let mut edges: Vec<(usize, usize, i64)> = Vec::new();
    let w = |rng: &mut Rng| rng.range(o.wlo, o.whi);
    let mut push = |rng: &mut Rng, edges: &mut Vec<(usize, usize, i64)>, a: usize, b: usize| {
        if a == b && !o.loops {
            return;
        }
        if !o.parallel {
            let dup = edges.iter().any(|&(x, y, _)| (x == a && y == b) || (!directed && x == b && y == a));
            if dup {
                return;
            }
        }
        let ww = w(rng);
        edges.push((a, b, ww));
    };
    let gnp = |rng: &mut Rng, edges: &mut Vec<(usize, usize, i64)>, pct: u32, push: &mut dyn FnMut(&mut Rng, &mut Vec<(usize, usize, i64)>, usize, usize)| {
        for a in 0..n {
            for b in 0..n {
                if !directed && b < a {
                    continue;
                }
                if rng.chance(pct) {
                    push(rng, edges, a, b);
                }
            }
        }
    };
    match family {
        0 => gnp(rng, &mut edges, 8, &mut push),
        1 => gnp(rng, &mut edges, 22, &mut push),
        2 => gnp(rng, &mut edges, 55, &mut push),
        3 => {
            // forest: each node optionally attaches to an earlier one
            for b in 1..n {
                if rng.chance(80) {
                    let a = rng.below(b);
                    if rng.chance(50) { push(rng, &mut edges, a, b) } else { push(rng, &mut edges, b, a) }
                }
            }
        }
        4 => {
            // DAG w.r.t. a hidden order
            let mut p: Vec<usize> = (0..n).collect();
            rng.shuffle(&mut p);
            for i in 0..n {
                for j in (i + 1)..n {
                    if rng.chance(30) {
                        push(rng, &mut edges, p[i], p[j]);
                    }
                }
            }
        }
        5 => {
            // disjoint cliques plus a few bridges
            let k = 1 + rng.below(3);
            for a in 0..n {
                for b in 0..n {
                    if a != b && a % k == b % k && (directed || a < b) {
                        push(rng, &mut edges, a, b);
                    }
                }
            }
            for _ in 0..rng.below(3) {
                if n > 0 {
                    let (a, b) = (rng.below(n), rng.below(n));
                    push(rng, &mut edges, a, b);
                }
            }
        }
        6 => {
            for a in 0..n {
                for b in 0..n {
                    if a % 2 == 0 && b % 2 == 1 && rng.chance(45) {
                        if directed && rng.chance(50) { push(rng, &mut edges, b, a) } else { push(rng, &mut edges, a, b) }
                    }
                }
            }
        }
        7 => {
            let c = 1 + rng.below(3);
            for a in 0..n {
                if (a + 1) % c != 0 && a + 1 < n {
                    push(rng, &mut edges, a, a + 1);
                }
                if a + c < n {
                    push(rng, &mut edges, a, a + c);
                }
            }
        }
        8 => {
            // multigraph: few nodes, many edges, loops and parallels if allowed
            let m = rng.below(3 * n + 2);
            for _ in 0..m {
                if n > 0 {
                    let a = rng.below(n);
                    let b = if rng.chance(15) { a } else { rng.below(n) };
                    push(rng, &mut edges, a, b);
                    if rng.chance(25) {
                        push(rng, &mut edges, a, b);
                    }
                    if rng.chance(15) {
                        push(rng, &mut edges, b, a);
                    }
                }
            }
        }
        9 => {
            for a in 0..n.saturating_sub(1) {
                push(rng, &mut edges, a, a + 1);
            }
        }
        10 => {
            for a in 0..n {
                if n > 1 || o.loops {
                    push(rng, &mut edges, a, (a + 1) % n);
                }
            }
            if rng.chance(40) && n > 2 {
                let (a, b) = (rng.below(n), rng.below(n));
                push(rng, &mut edges, a, b);
            }
        }
        11 => {
            for a in 0..n {
                for b in 0..n {
                    if a != b && (directed || a < b) {
                        push(rng, &mut edges, a, b);
                    }
                }
            }
        }
        12 => {}
        13 => {
            for b in 1..n {
                if directed && rng.chance(50) { push(rng, &mut edges, b, 0) } else { push(rng, &mut edges, 0, b) }
            }
        }
        14 => {
            // complete DAG with exponentially spread mixed-sign weights (label-correcting stress)
            for i in 0..n {
                for j in (i + 1)..n {
                    if rng.chance(85) {
                        let mag = 1i64 << rng.below(7);
                        let ww = if o.wlo < 0 && rng.chance(50) { -mag } else { mag };
                        if !o.parallel && edges.iter().any(|&(x, y, _)| x == i && y == j) {
                            continue;
                        }
                        edges.push((i, j, ww.max(o.wlo.min(-64)).min(o.whi.max(64)) * if o.wlo >= 0 { 1 } else { 1 }));
                    }
                }
            }
            if o.wlo >= 0 {
                for e in edges.iter_mut() {
                    e.2 = e.2.abs();
                }
            }
            rng.shuffle(&mut edges);
        }
        _ => {
            // two components with different densities
            let h = n / 2;
            for a in 0..n {
                for b in 0..n {
                    if (a < h) == (b < h) && (directed || a <= b) && rng.chance(if a < h { 50 } else { 15 }) {
                        push(rng, &mut edges, a, b);
                    }
                }
            }
        }
    }
    if family != 14 && rng.chance(50) {
        rng.shuffle(&mut edges);
    }
    AG { directed, n, edges }
}

pub fn gen_graph(rng: &mut Rng, directed: bool, o: GenOpts) -> (AG, usize) {
    let fam = rng.below(NFAMILIES);
    (gen_family(rng, directed, fam, o), fam)
}

pub fn random_perm(rng: &mut Rng, n: usize) -> Vec<usize> {
    let mut p: Vec<usize> = (0..n).collect();
    rng.shuffle(&mut p);
    p
}

// ------------------------------------------------------------------------------------------------
// encodings.  `node_order[i]` = abstract id of the i-th node added; `edge_order` = permutation of
// abstract edge ids giving the insertion order.

pub struct EncGraph<Ty: EdgeType, Ix: IndexType> {
    pub g: Graph<usize, i64, Ty, Ix>,
    /// concrete edge index -> abstract edge id
    pub eid: Vec<usize>,
}

pub fn enc_graph<Ty: EdgeType, Ix: IndexType>(ag: &AG, node_order: &[usize], edge_order: &[usize]) -> EncGraph<Ty, Ix> {
    let mut g = Graph::<usize, i64, Ty, Ix>::with_capacity(0, 0);
    let mut cidx = vec![Default::default(); ag.n];
    for &a in node_order {
        cidx[a] = g.add_node(a);
    }
    let mut eid = Vec::new();
    for &k in edge_order {
        let (a, b, w) = ag.edges[k];
        g.add_edge(cidx[a], cidx[b], w);
        eid.push(k);
    }
    EncGraph { g, eid }
}

pub struct EncStable<Ty: EdgeType, Ix: IndexType> {
    pub g: StableGraph<usize, i64, Ty, Ix>,
    /// concrete edge index -> abstract edge id (usize::MAX for vacant)
    pub eid: Vec<usize>,
}

/// StableGraph with vacancies below node_bound / edge_bound: dummy nodes and edges are inserted
/// at random points of the history and removed again.
pub fn enc_stable<Ty: EdgeType, Ix: IndexType>(rng: &mut Rng, ag: &AG, node_order: &[usize], edge_order: &[usize], holes: bool) -> EncStable<Ty, Ix> {
    let mut g = StableGraph::<usize, i64, Ty, Ix>::with_capacity(0, 0);
    let mut cidx = vec![Default::default(); ag.n];
    let mut dummies = Vec::new();
    for &a in node_order {
        // runs of 1..3 dummies: adjacent vacancies matter (iterators that skip only one vacant slot)
        let mut run = 0;
        while holes && run < 3 && rng.chance(35) {
            dummies.push(g.add_node(usize::MAX));
            run += 1;
        }
        cidx[a] = g.add_node(a);
    }
    if holes && rng.chance(30) {
        dummies.push(g.add_node(usize::MAX));
    }
    let mut eid: Vec<usize> = Vec::new();
    let mut dummy_edges = Vec::new();
    for &k in edge_order {
        if holes && rng.chance(25) && g.node_count() > 0 {
            // a dummy edge between arbitrary existing nodes (possibly dummies), removed later
            let all: Vec<_> = g.node_indices().collect();
            let (x, y) = (all[rng.below(all.len())], all[rng.below(all.len())]);
            let e = g.add_edge(x, y, -777);
            dummy_edges.push(e);
            if e.index() >= eid.len() { eid.resize(e.index() + 1, usize::MAX); }
        }
        let (a, b, w) = ag.edges[k];
        let e = g.add_edge(cidx[a], cidx[b], w);
        if e.index() >= eid.len() { eid.resize(e.index() + 1, usize::MAX); }
        eid[e.index()] = k;
    }
    for e in dummy_edges {
        g.remove_edge(e);
    }
    for d in dummies {
        g.remove_node(d);
    }
    EncStable { g, eid }
}

/// MatrixGraph (simple graphs only) with removed ids
pub fn enc_matrix<Ty: EdgeType>(rng: &mut Rng, ag: &AG, node_order: &[usize], edge_order: &[usize], holes: bool) -> MatrixGraph<usize, i64, std::collections::hash_map::RandomState, Ty> {
    let mut g = MatrixGraph::<usize, i64, std::collections::hash_map::RandomState, Ty>::with_capacity(rng.below(5));
    let mut cidx = vec![Default::default(); ag.n];
    let mut dummies = Vec::new();
    for &a in node_order {
        let mut run = 0;
        while holes && run < 3 && rng.chance(35) {
            dummies.push(g.add_node(usize::MAX));
            run += 1;
        }
        cidx[a] = g.add_node(a);
    }
    // removing a non-last dummy leaves a hole below node_bound (its id goes to the reuse set)
    for d in dummies {
        g.remove_node(d);
    }
    for &k in edge_order {
        let (a, b, w) = ag.edges[k];
        g.add_edge(cidx[a], cidx[b], w);
    }
    g
}

pub fn enc_map<Ty: EdgeType>(ag: &AG, node_order: &[usize], edge_order: &[usize]) -> GraphMap<usize, i64, Ty> {
    let mut g = GraphMap::<usize, i64, Ty>::new();
    for &a in node_order {
        g.add_node(a);
    }
    for &k in edge_order {
        let (a, b, w) = ag.edges[k];
        g.add_edge(a, b, w);
    }
    g
}

/// Csr: node i is abstract node `node_order[i]`; node weight = abstract id
pub fn enc_csr<Ty: EdgeType>(ag: &AG, node_order: &[usize], edge_order: &[usize]) -> Csr<usize, i64, Ty> {
    let mut g = Csr::<usize, i64, Ty>::new();
    let mut cidx = vec![0u32; ag.n];
    for &a in node_order {
        cidx[a] = g.add_node(a);
    }
    for &k in edge_order {
        let (a, b, w) = ag.edges[k];
        g.add_edge(cidx[a], cidx[b], w);
    }
    g
}

/// adj::List (directed only): node i is abstract node `node_order[i]`
pub fn enc_list(ag: &AG, node_order: &[usize], edge_order: &[usize]) -> List<i64> {
    let mut g = List::<i64>::new();
    let mut cidx = vec![0u32; ag.n];
    for &a in node_order {
        cidx[a] = g.add_node();
    }
    for &k in edge_order {
        let (a, b, w) = ag.edges[k];
        g.add_edge(cidx[a], cidx[b], w);
    }
    g
}

// ------------------------------------------------------------------------------------------------
// the `graph` protocol line

fn fmt_edges(ag: &AG) -> String {
    if ag.edges.is_empty() {
        return "-".into();
    }
    ag.edges.iter().enumerate().map(|(k, &(a, b, w))| format!("{}:{}:{}:{}", k, a, b, w)).collect::<Vec<_>>().join(";")
}

/// find the abstract edge id of an edge reference by endpoints + weight among the ids not yet used
/// in this row (for storage types without a usable edge index)
pub fn eid_by_lookup(ag: &AG, a: usize, b: usize, w: i64, used: &mut Vec<usize>) -> usize {
    for (k, &(x, y, ww)) in ag.edges.iter().enumerate() {
        if ww == w && !used.contains(&k) && ((x == a && y == b) || (!ag.directed && x == b && y == a)) {
            used.push(k);
            return k;
        }
    }
    usize::MAX
}

/// `graph` line for any graph with directed edge iteration.  `abs` maps a concrete node id to its
/// abstract id; `eid` maps an edge reference to its abstract edge id.
pub fn view_line<G>(ag: &AG, g: G, abs: &dyn Fn(G::NodeId) -> usize, eid: &dyn Fn(G::EdgeRef, &mut Vec<usize>) -> usize) -> String
where
    G: IntoNodeIdentifiers + IntoEdgesDirected + NodeIndexable + GraphProp,
{
    let nodes: Vec<G::NodeId> = g.node_identifiers().collect();
    let mut out = Vec::new();
    let mut inn = Vec::new();
    for &n in &nodes {
        let mut used = Vec::new();
        let o: Vec<String> = g.edges_directed(n, Direction::Outgoing).map(|e| {
            let other = if e.source() == n { e.target() } else { e.source() };
            format!("{}/{}", abs(other), eid(e, &mut used))
        }).collect();
        out.push(format!("{}:{}", abs(n), if o.is_empty() { "-".into() } else { o.join(",") }));
        let mut used = Vec::new();
        let i: Vec<String> = g.edges_directed(n, Direction::Incoming).map(|e| {
            let other = if e.target() == n { e.source() } else { e.target() };
            format!("{}/{}", abs(other), eid(e, &mut used))
        }).collect();
        inn.push(format!("{}:{}", abs(n), if i.is_empty() { "-".into() } else { i.join(",") }));
    }
    format!(
        "graph d={} nb={} nodes={} ix={} edges={} out={} in={}",
        if ag.directed { 1 } else { 0 },
        g.node_bound(),
        list(nodes.iter().map(|&n| abs(n))),
        list(nodes.iter().map(|&n| format!("{}:{}", abs(n), g.to_index(n)))),
        fmt_edges(ag),
        if out.is_empty() { "-".into() } else { out.join(";") },
        if inn.is_empty() { "-".into() } else { inn.join(";") },
    )
}

/// `graph` line for graphs that only offer `IntoEdges` (Csr, List): `in=` is derived from the
/// abstract graph in edge-id order (marked `hasin=0`)
pub fn view_line_out_only<G>(ag: &AG, g: G, abs: &dyn Fn(G::NodeId) -> usize, eid: &dyn Fn(G::EdgeRef, &mut Vec<usize>) -> usize) -> String
where
    G: IntoNodeIdentifiers + IntoEdges + NodeIndexable + GraphProp,
{
    let nodes: Vec<G::NodeId> = g.node_identifiers().collect();
    let mut out = Vec::new();
    for &n in &nodes {
        let mut used = Vec::new();
        let o: Vec<String> = g.edges(n).map(|e| {
            let other = if e.source() == n { e.target() } else { e.source() };
            format!("{}/{}", abs(other), eid(e, &mut used))
        }).collect();
        out.push(format!("{}:{}", abs(n), if o.is_empty() { "-".into() } else { o.join(",") }));
    }
    format!(
        "graph d={} nb={} nodes={} ix={} edges={} out={} in=- hasin=0",
        if ag.directed { 1 } else { 0 },
        g.node_bound(),
        list(nodes.iter().map(|&n| abs(n))),
        list(nodes.iter().map(|&n| format!("{}:{}", abs(n), g.to_index(n)))),
        fmt_edges(ag),
        if out.is_empty() { "-".into() } else { out.join(";") },
    )
}

/// the abstract graph alone (no encoding-specific orders): `out`/`in` in edge-id order
pub fn abstract_line(ag: &AG) -> String {
    let mut out = vec![Vec::new(); ag.n];
    let mut inn = vec![Vec::new(); ag.n];
    for (k, &(a, b, _)) in ag.edges.iter().enumerate() {
        out[a].push(format!("{}/{}", b, k));
        inn[b].push(format!("{}/{}", a, k));
        if !ag.directed && a != b {
            out[b].push(format!("{}/{}", a, k));
            inn[a].push(format!("{}/{}", b, k));
        }
    }
    let f = |v: &Vec<Vec<String>>| {
        if v.is_empty() { "-".to_string() } else {
            v.iter().enumerate().map(|(i, r)| format!("{}:{}", i, if r.is_empty() { "-".into() } else { r.join(",") })).collect::<Vec<_>>().join(";")
        }
    };
    format!(
        "graph d={} nb={} nodes={} ix={} edges={} out={} in={} abstract=1",
        if ag.directed { 1 } else { 0 },
        ag.n,
        list(0..ag.n),
        list((0..ag.n).map(|i| format!("{}:{}", i, i))),
        fmt_edges(ag),
        f(&out),
        f(&inn),
    )
}

pub fn pair_map(ag: &AG) -> HashMap<(usize, usize), usize> {
    let mut m = HashMap::new();
    for (k, &(a, b, _)) in ag.edges.iter().enumerate() {
        m.insert((a, b), k);
        if !ag.directed {
            m.insert((b, a), k);
        }
    }
    m
}
